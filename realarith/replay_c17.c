/*
 * replay_c17.c - native replays for the C17 obligations: links the REAL cmb_datasummary.c and
 * cmb_wtdsummary.c of the tree under test (run.py compiles them from <repo>/src on every run).
 * The only substituted symbol is cmi_assert_failed (cmb_assert.c drags in the logger/process
 * modules): here it prints the assertion and exits with status 3.
 *
 *   replay_c17 scale    D12b: weighted variance/stddev/skewness/kurtosis for weights 1 vs 2
 *   replay_c17 empty2   D12a: merge of two empty summaries -> NaN
 *   replay_c17 const    skewness/kurtosis of constant data -> 0/0
 *   replay_c17 trap     the same with the FP exception mask the coroutine context installs
 *   replay_c17 huge     merge(A, empty) with a huge mean: (d21/n)^2 overflows, 0*inf = NaN in m3/m4
 *   replay_c17 concat   positive control / replay for O1a-O1d: add, merge, accessors against the
 *                       two-pass definitions on explicit data
 * Exit status: 1 = the defect REPRODUCED (a difference / NaN was observed), 0 = not reproduced.
 */
#define _GNU_SOURCE
#include <fenv.h>
#include <math.h>
#include <stddef.h>
#include <stdio.h>
#include <stdlib.h>
#include <string.h>

#include "cmb_datasummary.h"
#include "cmb_wtdsummary.h"

/* layout assumption of gsym.py: the parent summary is the first member (flat record) */
_Static_assert(offsetof(struct cmb_wtdsummary, ds) == 0, "cmb_wtdsummary.ds must be the first member");

void cmi_assert_failed(const char *sourcefile, const char *func, int line, const char *condition)
{
    printf("ASSERTION FAILED %s:%d %s: %s\n", sourcefile, line, func, condition);
    exit(3);
}

static int differs(double a, double b)
{
    if (isnan(a) || isnan(b)) return !(isnan(a) && isnan(b));
    return fabs(a - b) > 1e-9 * (1.0 + fabs(a) + fabs(b));
}

/* ---- the definitions, two-pass, on explicit (x, w) lists */
struct stats { double n, W, mu, M2, M3, M4, min, max; };

static struct stats two_pass(const double *x, const double *w, unsigned n)
{
    struct stats s = { 0 };
    s.min = HUGE_VAL; s.max = -HUGE_VAL;
    double sx = 0.0;
    for (unsigned i = 0; i < n; i++) {
        const double wi = (w != NULL) ? w[i] : 1.0;
        if (wi == 0.0) continue;
        s.n += 1.0; s.W += wi; sx += wi * x[i];
        if (x[i] < s.min) s.min = x[i];
        if (x[i] > s.max) s.max = x[i];
    }
    s.mu = sx / s.W;
    for (unsigned i = 0; i < n; i++) {
        const double wi = (w != NULL) ? w[i] : 1.0;
        const double d = x[i] - s.mu;
        s.M2 += wi * d * d; s.M3 += wi * d * d * d; s.M4 += wi * d * d * d * d;
    }
    return s;
}

static double def_var(struct stats s) { return s.M2 / (s.n - 1.0); }
static double def_skew(struct stats s)
{
    const double m2 = s.M2 / s.n, m3 = s.M3 / s.n;
    return sqrt(s.n * (s.n - 1.0)) / (s.n - 2.0) * m3 / pow(m2, 1.5);
}
static double def_kurt(struct stats s)
{
    const double m2 = s.M2 / s.n, m4 = s.M4 / s.n;
    return (s.n - 1.0) / ((s.n - 2.0) * (s.n - 3.0)) * ((s.n + 1.0) * (m4 / (m2 * m2) - 3.0) + 6.0);
}

static int cmp(const char *what, double got, double want)
{
    const int bad = differs(got, want);
    printf("  %-34s got %-22.15g definition %-22.15g %s\n", what, got, want, bad ? "MISMATCH" : "ok");
    return bad;
}

static int cmp_summary(const char *tag, const struct cmb_datasummary *d, struct stats s)
{
    char buf[96];
    int bad = 0;
    snprintf(buf, sizeof buf, "%s count", tag); bad |= cmp(buf, (double)cmb_datasummary_count(d), s.n);
    snprintf(buf, sizeof buf, "%s min", tag); bad |= cmp(buf, cmb_datasummary_min(d), s.min);
    snprintf(buf, sizeof buf, "%s max", tag); bad |= cmp(buf, cmb_datasummary_max(d), s.max);
    snprintf(buf, sizeof buf, "%s mean", tag); bad |= cmp(buf, cmb_datasummary_mean(d), s.mu);
    snprintf(buf, sizeof buf, "%s m2", tag); bad |= cmp(buf, d->m2, s.M2);
    snprintf(buf, sizeof buf, "%s m3", tag); bad |= cmp(buf, d->m3, s.M3);
    snprintf(buf, sizeof buf, "%s m4", tag); bad |= cmp(buf, d->m4, s.M4);
    return bad;
}

static int do_concat(void)
{
    const double a[] = { 1.0, 2.0, 6.0 }, b[] = { 3.0, 10.0, 4.5, -2.0 };
    double ab[7], ba[7];
    memcpy(ab, a, sizeof a); memcpy(ab + 3, b, sizeof b);
    memcpy(ba, b, sizeof b); memcpy(ba + 4, a, sizeof a);
    int bad = 0;
    struct cmb_datasummary A, B, T, E;
    cmb_datasummary_initialize(&A); cmb_datasummary_initialize(&B);
    cmb_datasummary_initialize(&T); cmb_datasummary_initialize(&E);
    for (unsigned i = 0; i < 3; i++) cmb_datasummary_add(&A, a[i]);
    for (unsigned i = 0; i < 4; i++) cmb_datasummary_add(&B, b[i]);
    printf("unweighted: add / merge / accessors against the two-pass definitions\n");
    bad |= cmp_summary("add A", &A, two_pass(a, NULL, 3));
    bad |= cmp_summary("add B", &B, two_pass(b, NULL, 4));
    cmb_datasummary_merge(&T, &A, &B);
    bad |= cmp_summary("merge(T,A,B)", &T, two_pass(ab, NULL, 7));
    cmb_datasummary_merge(&T, &B, &A);
    bad |= cmp_summary("merge(T,B,A)", &T, two_pass(ab, NULL, 7));
    cmb_datasummary_merge(&T, &A, &E);
    bad |= cmp_summary("merge(T,A,empty)", &T, two_pass(a, NULL, 3));
    cmb_datasummary_merge(&T, &E, &B);
    bad |= cmp_summary("merge(T,empty,B)", &T, two_pass(b, NULL, 4));
    struct cmb_datasummary A2 = A, B2 = B;
    cmb_datasummary_merge(&A2, &A2, &B);
    bad |= cmp_summary("merge(A,A,B) in place", &A2, two_pass(ab, NULL, 7));
    cmb_datasummary_merge(&B2, &A, &B2);
    bad |= cmp_summary("merge(B,A,B) in place", &B2, two_pass(ab, NULL, 7));
    const struct stats s = two_pass(ab, NULL, 7);
    bad |= cmp("variance", cmb_datasummary_variance(&A2), def_var(s));
    bad |= cmp("stddev", cmb_datasummary_stddev(&A2), sqrt(def_var(s)));
    bad |= cmp("skewness", cmb_datasummary_skewness(&A2), def_skew(s));
    bad |= cmp("kurtosis", cmb_datasummary_kurtosis(&A2), def_kurt(s));
    bad |= cmp("variance of 1 sample", cmb_datasummary_variance(&E), 0.0);

    printf("weighted: add / merge against the weighted two-pass definitions\n");
    const double wa[] = { 2.0, 0.5, 3.0 }, wb[] = { 1.0, 0.0, 4.0, 0.25 };
    double wab[7];
    memcpy(wab, wa, sizeof wa); memcpy(wab + 3, wb, sizeof wb);
    struct cmb_wtdsummary WA, WB, WT;
    cmb_wtdsummary_initialize(&WA); cmb_wtdsummary_initialize(&WB); cmb_wtdsummary_initialize(&WT);
    for (unsigned i = 0; i < 3; i++) cmb_wtdsummary_add(&WA, a[i], wa[i]);
    for (unsigned i = 0; i < 4; i++) cmb_wtdsummary_add(&WB, b[i], wb[i]);
    bad |= cmp_summary("wtd add A", &WA.ds, two_pass(a, wa, 3));
    bad |= cmp("wtd add A wsum", WA.wsum, two_pass(a, wa, 3).W);
    bad |= cmp_summary("wtd add B (one zero weight)", &WB.ds, two_pass(b, wb, 4));
    cmb_wtdsummary_merge(&WT, &WA, &WB);
    bad |= cmp_summary("wtd merge(T,A,B)", &WT.ds, two_pass(ab, wab, 7));
    bad |= cmp("wtd merge wsum", WT.wsum, two_pass(ab, wab, 7).W);
    cmb_wtdsummary_merge(&WA, &WB, &WA);
    bad |= cmp_summary("wtd merge(A,B,A) in place", &WA.ds, two_pass(ab, wab, 7));
    /* all weights one == unweighted */
    struct cmb_wtdsummary W1;
    cmb_wtdsummary_initialize(&W1);
    for (unsigned i = 0; i < 7; i++) cmb_wtdsummary_add(&W1, ab[i], 1.0);
    bad |= cmp_summary("wtd, all weights 1", &W1.ds, two_pass(ab, NULL, 7));
    return bad;
}

static int do_scale(void)
{
    const double x3[] = { 1.0, 2.0, 6.0 }, x4[] = { 1.0, 2.0, 6.0, 11.0 };
    int bad = 0;
    double v[2][5];
    for (int k = 0; k < 2; k++) {
        const double w = (k == 0) ? 1.0 : 2.0;
        struct cmb_wtdsummary s3, s4;
        cmb_wtdsummary_initialize(&s3); cmb_wtdsummary_initialize(&s4);
        for (unsigned i = 0; i < 3; i++) cmb_wtdsummary_add(&s3, x3[i], w);
        for (unsigned i = 0; i < 4; i++) cmb_wtdsummary_add(&s4, x4[i], w);
        v[k][0] = cmb_wtdsummary_mean(&s3); v[k][1] = cmb_wtdsummary_variance(&s3);
        v[k][2] = cmb_wtdsummary_stddev(&s3); v[k][3] = cmb_wtdsummary_skewness(&s3);
        v[k][4] = cmb_wtdsummary_kurtosis(&s4);
    }
    const char *nm[] = { "mean {1,2,6}", "variance {1,2,6}", "stddev {1,2,6}", "skewness {1,2,6}", "kurtosis {1,2,6,11}" };
    for (int j = 0; j < 5; j++) {
        const int d = differs(v[0][j], v[1][j]);
        printf("  %-20s all weights 1: %-20.15g all weights 2: %-20.15g %s\n", nm[j], v[0][j], v[1][j],
               d ? "NOT INVARIANT" : "invariant");
        bad |= d;
    }
    return bad;
}

static int do_empty2(void)
{
    struct cmb_datasummary a, b, t;
    cmb_datasummary_initialize(&a); cmb_datasummary_initialize(&b); cmb_datasummary_initialize(&t);
    cmb_datasummary_merge(&t, &a, &b);
    printf("  cmb_datasummary_merge(empty, empty): count %lu mean %g m2 %g m3 %g m4 %g\n",
           (unsigned long)t.count, t.m1, t.m2, t.m3, t.m4);
    struct cmb_wtdsummary wa, wb, wt;
    cmb_wtdsummary_initialize(&wa); cmb_wtdsummary_initialize(&wb); cmb_wtdsummary_initialize(&wt);
    cmb_wtdsummary_merge(&wt, &wa, &wb);
    printf("  cmb_wtdsummary_merge(empty, empty):  count %lu mean %g m2 %g wsum %g\n",
           (unsigned long)wt.ds.count, wt.ds.m1, wt.ds.m2, wt.wsum);
    /* a later add on the merged summary stays poisoned */
    cmb_datasummary_add(&t, 1.0);
    printf("  ... followed by add(1.0): count %lu mean %g\n", (unsigned long)t.count, t.m1);
    return isnan(t.m1) || isnan(wt.ds.m1);
}

static int do_const(int trap)
{
    struct cmb_datasummary s;
    cmb_datasummary_initialize(&s);
    for (int i = 0; i < 4; i++) cmb_datasummary_add(&s, 5.0);
    if (trap) {
        /* cmi_coroutine_context.c: "Set the XMM status register MXCSR, exception on invalid and div zero" */
        feenableexcept(FE_INVALID | FE_DIVBYZERO);
        printf("  FP traps enabled as in a cimba coroutine; calling skewness on {5,5,5,5} ...\n");
        fflush(stdout);
    }
    const double sk = cmb_datasummary_skewness(&s);
    const double ku = cmb_datasummary_kurtosis(&s);
    printf("  {5,5,5,5}: m2 %g variance %g skewness %g kurtosis %g\n", s.m2, cmb_datasummary_variance(&s), sk, ku);
    return isnan(sk) || isnan(ku);
}

static int do_huge(void)
{
    /* informational (not run by default): |x| > ~5.6e102 cannot have a representable 4th moment anyway */
    struct cmb_wtdsummary a, e, t;
    cmb_wtdsummary_initialize(&a); cmb_wtdsummary_initialize(&e); cmb_wtdsummary_initialize(&t);
    cmb_wtdsummary_add(&a, 1.0e120, 1.0);
    printf("  A = {(1e120, w=1)}: count %lu mean %g m2 %g m3 %g m4 %g\n", (unsigned long)a.ds.count, a.ds.m1, a.ds.m2, a.ds.m3, a.ds.m4);
    cmb_wtdsummary_merge(&t, &a, &e);
    printf("  wtd merge(A, empty): count %lu mean %g m2 %g m3 %g m4 %g\n", (unsigned long)t.ds.count, t.ds.m1, t.ds.m2, t.ds.m3, t.ds.m4);
    return isnan(t.ds.m3) || isnan(t.ds.m4);
}

int main(int argc, char **argv)
{
    const char *m = (argc > 1) ? argv[1] : "";
    int r;
    if (strcmp(m, "scale") == 0) r = do_scale();
    else if (strcmp(m, "empty2") == 0) r = do_empty2();
    else if (strcmp(m, "const") == 0) r = do_const(0);
    else if (strcmp(m, "trap") == 0) r = do_const(1);
    else if (strcmp(m, "huge") == 0) r = do_huge();
    else if (strcmp(m, "concat") == 0) r = do_concat();
    else { fprintf(stderr, "usage: %s scale|empty2|const|trap|huge|concat\n", argv[0]); return 2; }
    printf("%s\n", r ? "REPRODUCED" : "not reproduced");
    return r ? 1 : 0;
}
