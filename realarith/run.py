#!/usr/local/bin/python3-vt
"""
run.py <repo_path> <outdir> [--only SUBSTR] [--no-cbmc] [--no-sympy]

Everything for property C17 from the working tree at <repo_path>:
  * O1a..O1e: gcc -fdump-tree-gimple of src/cmb_datasummary.c and src/cmb_wtdsummary.c, symbolic
    execution into sympy (gsym.py), comparison with the definitions (check_c17.py);
  * O2: CBMC on h_c17.c (which #includes the two working-tree .c files), IEEE doubles (o2_cbmc.py),
    run in parallel with O1;
  * every failed group is replayed natively on the real code (replay_c17.c linked with the two
    working-tree .c files).
Prints ONE JSON document {"groups":[...]} on stdout.
Exit status: 0 all groups ok; 1 some group failed/undecided; 2 extraction break; 3 internal error.
"""
import json
import os
import subprocess
import sys
import time

HERE = os.path.dirname(os.path.abspath(__file__))
sys.path.insert(0, HERE)

NATIVE_O1 = {'C17.O1a.merge': ['concat'], 'C17.O1a.merge_empty1': ['concat'], 'C17.O1a.merge_empty2': ['empty2'],
             'C17.O1b.add': ['concat'], 'C17.O1c.accessors': ['concat'], 'C17.O1c.defined': ['const', 'trap'],
             'C17.O1d.weighted': ['concat'], 'C17.O1e.scaling_lemma': ['concat'], 'C17.O1e.scaling': ['scale']}


class Native(object):
    def __init__(self, repo, outdir):
        self.repo, self.outdir = repo, outdir
        self.exe = os.path.join(outdir, 'replay_c17')
        self.cmd = ['gcc', '-O1', '-g', '-D_POSIX_C_SOURCE=200809L', '-I' + os.path.join(repo, 'include'),
                    '-I' + os.path.join(repo, 'src'), os.path.join(HERE, 'replay_c17.c'),
                    os.path.join(repo, 'src', 'cmb_datasummary.c'), os.path.join(repo, 'src', 'cmb_wtdsummary.c'),
                    '-lm', '-o', self.exe]
        self.built = None
        self.cache = {}

    def build(self):
        if self.built is None:
            r = subprocess.run(self.cmd, stdout=subprocess.PIPE, stderr=subprocess.STDOUT, universal_newlines=True)
            self.built = (r.returncode == 0, r.stdout[-1500:])
        return self.built

    def run(self, mode):
        if mode in self.cache:
            return self.cache[mode]
        ok, log = self.build()
        if not ok:
            res = {'reproduced': False, 'output': 'native driver did not build: ' + log, 'cmd': ' '.join(self.cmd)}
        else:
            try:
                r = subprocess.run(['timeout', '20', self.exe, mode], stdout=subprocess.PIPE, stderr=subprocess.STDOUT,
                                   universal_newlines=True)
                out = r.stdout
                if mode == 'concat':            # keep the verdict lines only
                    keep = [l for l in out.split('\n') if 'MISMATCH' in l or 'ASSERTION' in l or 'REPRODUCED' in l.upper()]
                    out = '\n'.join(keep)
                rep = r.returncode == 1 or r.returncode in (-8, 136) or (r.returncode == 3 and 'ASSERTION' in out)
                if r.returncode in (-8, 136):
                    out += '\nkilled by SIGFPE (floating-point exception trap)'
                res = {'reproduced': bool(rep), 'output': out[-3000:], 'cmd': '%s %s' % (self.exe, mode),
                       'build': ' '.join(self.cmd)}
            except Exception as e:
                res = {'reproduced': False, 'output': 'native run failed: %r' % e, 'cmd': '%s %s' % (self.exe, mode)}
        self.cache[mode] = res
        return res


def attach_native(g, modes, nat):
    failing = [o['name'] for o in g['obligations'] if o['status'] == 'FAILURE']
    if not failing:
        return
    runs = [nat.run(m) for m in modes]
    merged = {'reproduced': any(r['reproduced'] for r in runs),
              'output': '\n'.join('$ %s\n%s' % (r['cmd'], r['output']) for r in runs)}
    for n in failing:
        g['native'][n] = merged
    g['cmds'] = list(g['cmds']) + [runs[0].get('build', '')] + [r['cmd'] for r in runs]


def main(argv):
    only = None
    argv = list(argv)
    if '--only' in argv:
        i = argv.index('--only')
        only = argv[i + 1]
        del argv[i:i + 2]
    args = [a for a in argv[1:] if not a.startswith('--')]
    if len(args) < 2:
        print(__doc__, file=sys.stderr)
        return 3
    repo, outdir = os.path.abspath(args[0]), os.path.abspath(args[1])
    os.makedirs(outdir, exist_ok=True)
    t0 = time.time()
    import o2_cbmc
    import check_c17
    ex = futs = None
    if '--no-cbmc' not in argv:
        ex, futs = o2_cbmc.start(repo, outdir, only)
    groups, status = [], 0
    if '--no-sympy' not in argv:
        groups, status = check_c17.run_groups(repo, outdir, only)
    nat = Native(repo, outdir)
    for g in groups:
        if g['status'] == 'failed':
            attach_native(g, NATIVE_O1.get(g['id'], ['concat']), nat)
    if futs is not None:
        o2 = o2_cbmc.collect(futs)
        ex.shutdown()
        for g in o2:
            if g['status'] == 'failed':
                m = o2_cbmc.NATIVE_FOR.get(g['id'], 'concat')
                attach_native(g, [m] + (['trap'] if m == 'const' else []), nat)
            if g['status'] == 'error' and 'extraction break' in g['reason']:
                status = max(status, 2)
        groups += o2
    if status == 0 and any(g['status'] != 'ok' for g in groups):
        status = 1
    json.dump({'groups': groups, 'seconds': round(time.time() - t0, 1), 'repo': repo}, sys.stdout, indent=1)
    print()
    return status


if __name__ == '__main__':
    sys.exit(main(sys.argv))
