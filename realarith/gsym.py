#!/usr/local/bin/python3-vt
"""
gsym.py - symbolic executor over GCC GIMPLE (-O0 -fdump-tree-gimple-lineno) into sympy.

The text that is executed is the compiler's own three-address view of the WORKING-TREE
source file (the dump is regenerated on every run, see compile_gimple()).  Only loop-free
functions are supported; every path through a function is enumerated.

Statement forms that are understood (everything else raises ExtractionBreak -> exit 2):

    <D.123>: / name:                       labels
    goto <D.123>;
    if (a OP b) goto <L1>; else goto <L2>; path fork (condition -> path condition)
    lhs = operand;                         lhs/operand: variable, p->f, v.f, MEM[(T *)p].f, *p
    lhs = a OP b;                          OP in + - * / < <= > >= == !=
    lhs = -a;  lhs = (T) a;  lhs = &v;     negation, cast (to double / pointer), address-of
    lhs = MIN_EXPR <a, b>; MAX_EXPR; ABS_EXPR <a>
    v = {};                                zero-initialise a local aggregate
    v = {CLOBBER(eol)};                    end of life of a local (only thing allowed in `finally`)
    *p = v;  v = *p;                       whole-struct copy
    [lhs =] f (args);                      f in the same function table: inlined
                                           f == cmi_assert_failed: the path ABORTS (recorded)
                                           f in MATH: sympy function over the reals
    return [x];
    try { ... } finally { clobbers }       wrapper; the finally block may contain clobbers only
    declarations, `static const char __func__[..] = "..";`, `// predicted ...` comments

What the extraction drops / assumes (reported by the checker, see NOTES.md):
  * `double` arithmetic is arithmetic over the reals (no rounding, no NaN/Inf).
  * uint64_t arithmetic is arithmetic over the integers; every integer +,-,* is recorded as a
    "no wrap-around" side condition of the path (`side`), integer literals >= 2^63 are read
    modulo 2^64 (x + 18446744073709551615 is x - 1).
  * (double) of an integer is exact (counts < 2^53).
  * every real division records its divisor as a definedness side condition (`divisors`).
  * a struct whose FIRST member is another struct is a flat extension of it (field names are
    looked up in one flat record); the native driver carries the matching _Static_assert.
"""
import copy
import os
import re
import subprocess
import sys

import sympy as sp


class ExtractionBreak(Exception):
    """A statement/operand form the executor does not know. Never skipped: exit status 2."""


TWO64 = 2 ** 64
LOC_RE = re.compile(r'\[([^\[\]\s]+):(\d+):(\d+)\]\s*')
HDR_RE = re.compile(r'^(?P<ret>\S.*?)\s*\b(?P<name>\w+) \((?P<params>.*)\)$')
LABEL_RE = re.compile(r'^(<D\.\d+>|[A-Za-z_]\w*):$')
GOTO_RE = re.compile(r'^goto (<D\.\d+>|[A-Za-z_]\w*);$')
IF_RE = re.compile(r'^if \((.+)\) goto (<D\.\d+>|\w+); else goto (<D\.\d+>|\w+);$')
RET_RE = re.compile(r'^return(?: (.+))?;$')
CALL_RE = re.compile(r'^([A-Za-z_]\w*) \((.*)\)$')
DECL_RE = re.compile(r'^(?P<type>[A-Za-z_][\w \*]*?)\s*(?P<name>(?:D\.\d+|iftmp\.\d+|[A-Za-z_]\w*))(?P<arr>\[\d+\])?;$')
STATIC_RE = re.compile(r'^static .* (?P<name>\w+)(\[\d+\])? = .*;$')
VAR_RE = re.compile(r'^(?:_\d+|D\.\d+|iftmp\.\d+|[A-Za-z_]\w*)$')
INT_RE = re.compile(r'^-?\d+$')
FLT_RE = re.compile(r'^-?\d+\.\d*(?:e[+-]?\d+)?$')
MEM_RE = re.compile(r'^MEM\[\((?P<type>[^()]+\*)\)(?P<base>[\w.]+)\]\.(?P<field>\w+)$')
ARROW_RE = re.compile(r'^(?P<base>(?:_\d+|D\.\d+|iftmp\.\d+|[A-Za-z_]\w*))->(?P<field>\w+)$')
DOT_RE = re.compile(r'^(?P<base>[A-Za-z_]\w*)\.(?P<field>[A-Za-z_]\w*)$')
DEREF_RE = re.compile(r'^\*(?P<base>(?:_\d+|D\.\d+|iftmp\.\d+|[A-Za-z_]\w*))$')
BINOPS = ('+', '-', '*', '/', '<', '<=', '>', '>=', '==', '!=')

MATH = {
    'sqrt': lambda x: sp.sqrt(x),
    'fabs': lambda x: sp.Abs(x),
    'pow': lambda x, y: sp.Pow(x, y),
    'exp': lambda x: sp.exp(x),
    'log': lambda x: sp.log(x),
    'fmin': lambda x, y: sp.Min(x, y),
    'fmax': lambda x, y: sp.Max(x, y),
    # over the reals nothing is NaN / infinite
    'isnan': lambda x: sp.Integer(0),
    '__builtin_isnan': lambda x: sp.Integer(0),
    'isinf': lambda x: sp.Integer(0),
    '__builtin_isinf': lambda x: sp.Integer(0),
    'isfinite': lambda x: sp.Integer(1),
    '__builtin_isfinite': lambda x: sp.Integer(1),
}
MATH_KIND = {'isnan': 'int', '__builtin_isnan': 'int', 'isinf': 'int', '__builtin_isinf': 'int',
             'isfinite': 'int', '__builtin_isfinite': 'int'}


# --------------------------------------------------------------------------- values
class Val(object):
    """kind: 'int' | 'real' | 'ptr' | 'str' | 'zero' (polymorphic 0 of `= {}`)."""
    __slots__ = ('kind', 'e')

    def __init__(self, kind, e):
        self.kind = kind
        self.e = e

    def __repr__(self):
        return '%s:%s' % (self.kind, self.e)


def vint(e):
    return Val('int', sp.sympify(e))


def vreal(e):
    return Val('real', sp.sympify(e))


def vptr(obj):
    return Val('ptr', obj)      # obj: object id (str) or None for NULL


NULL = Val('ptr', None)


# --------------------------------------------------------------------------- dump -> functions
class Stmt(object):
    __slots__ = ('kind', 'a', 'b', 'c', 'file', 'line', 'text')

    def __init__(self, kind, a=None, b=None, c=None, file='', line=0, text=''):
        self.kind, self.a, self.b, self.c = kind, a, b, c
        self.file, self.line, self.text = file, line, text


class Function(object):
    def __init__(self, name, ret, params, dump):
        self.name, self.ret, self.params, self.dump = name, ret, params, dump
        self.decls = {}         # name -> type text
        self.stmts = []
        self.labels = {}
        self.text = []
        self.file = ''
        self.line = 0


def compile_gimple(repo, src, outdir, tag=None):
    """gcc -O0 -fdump-tree-gimple-lineno of the working-tree file; returns (dump path, cmd)."""
    os.makedirs(outdir, exist_ok=True)
    tag = tag or os.path.splitext(os.path.basename(src))[0]
    dump = os.path.join(outdir, tag + '.gimple')
    obj = os.path.join(outdir, tag + '.gimple.o')
    srcpath = src if os.path.isabs(src) else os.path.join(repo, src)
    cmd = ['gcc', '-O0', '-fkeep-inline-functions', '-fdump-tree-gimple-lineno=' + dump, '-c',
           '-D_POSIX_C_SOURCE=200809L', '-I' + os.path.join(repo, 'include'),
           '-I' + os.path.join(repo, 'src'), srcpath, '-o', obj]
    if os.path.exists(dump):
        os.unlink(dump)
    r = subprocess.run(cmd, stdout=subprocess.PIPE, stderr=subprocess.STDOUT, universal_newlines=True)
    if r.returncode != 0 or not os.path.exists(dump):
        raise ExtractionBreak('gcc failed on %s:\n%s' % (srcpath, r.stdout[-2000:]))
    return dump, ' '.join(cmd)


def split_args(s):
    out, cur, depth, instr, esc = [], '', 0, False, False
    for ch in s:
        if instr:
            cur += ch
            if esc:
                esc = False
            elif ch == '\\':
                esc = True
            elif ch == '"':
                instr = False
            continue
        if ch == '"':
            instr = True
            cur += ch
        elif ch in '([':
            depth += 1
            cur += ch
        elif ch in ')]':
            depth -= 1
            cur += ch
        elif ch == ',' and depth == 0:
            out.append(cur.strip())
            cur = ''
        else:
            cur += ch
    if cur.strip():
        out.append(cur.strip())
    return out


def strip_loc(line):
    m = LOC_RE.search(line)
    loc = (m.group(1), int(m.group(2))) if m else None
    return LOC_RE.sub('', line), loc


def parse_dump(path):
    """-> dict name -> Function. Parsing is purely syntactic; semantic breaks happen at run time,
    syntactic ones (a line that is none of the known forms) here."""
    funcs = {}
    cur = None
    depth = 0
    in_finally = []          # stack of block kinds
    pending = None           # 'try' / 'finally' keyword seen, waiting for '{'
    lastloc = ('', 0)
    with open(path) as fh:
        lines = fh.read().split('\n')
    i = 0
    while i < len(lines):
        raw = lines[i]
        i += 1
        line, loc = strip_loc(raw)
        s = line.strip()
        if cur is None:
            if not s:
                continue
            m = HDR_RE.match(s)
            if not m or raw.startswith(' '):
                raise ExtractionBreak('%s:%d: not a function header: %r' % (path, i, raw))
            params = []
            for p in split_args(m.group('params')):
                if p == 'void' or not p:
                    continue
                pm = re.match(r'^(.*?)(\w+)$', p)
                params.append((pm.group(1).strip(), pm.group(2)))
            cur = Function(m.group('name'), m.group('ret'), params, path)
            depth = 0
            in_finally = []
            continue
        cur.text.append(s)
        if loc:
            lastloc = loc
            if not cur.file:
                cur.file, cur.line = loc
        if not s:
            continue
        if s == '{':
            depth += 1
            in_finally.append(pending or 'block')
            pending = None
            continue
        if s == '}':
            depth -= 1
            in_finally.pop()
            if depth == 0:
                if cur.name in funcs:
                    raise ExtractionBreak('duplicate function %s in %s' % (cur.name, path))
                for k, st in enumerate(cur.stmts):
                    if st.kind == 'label':
                        cur.labels[st.a] = k
                funcs[cur.name] = cur
                cur = None
            continue
        if s in ('try', 'finally'):
            pending = s
            continue
        if s.startswith('//'):
            continue
        fin = 'finally' in in_finally
        f, ln = (loc or lastloc)
        st = parse_stmt(s, cur, f, ln, path, i)
        if st is None:
            continue
        if fin and st.kind != 'clobber':
            raise ExtractionBreak('%s:%d: statement other than a clobber in a finally block: %r' % (path, i, s))
        if fin:
            continue        # clobbers at end of life: the local dies with the frame anyway
        cur.stmts.append(st)
    if cur is not None:
        raise ExtractionBreak('%s: unterminated function %s' % (path, cur.name))
    return funcs


def parse_stmt(s, fn, f, ln, path, lineno):
    m = LABEL_RE.match(s)
    if m:
        return Stmt('label', m.group(1), file=f, line=ln, text=s)
    m = GOTO_RE.match(s)
    if m:
        return Stmt('goto', m.group(1), file=f, line=ln, text=s)
    m = IF_RE.match(s)
    if m:
        return Stmt('if', m.group(1), m.group(2), m.group(3), file=f, line=ln, text=s)
    m = RET_RE.match(s)
    if m:
        return Stmt('return', m.group(1), file=f, line=ln, text=s)
    m = STATIC_RE.match(s)
    if m:
        fn.decls[m.group('name')] = 'static'
        return None
    if s.endswith(';') and CALL_RE.match(s[:-1]) and ' = ' not in s.split('(')[0]:
        m = CALL_RE.match(s[:-1])
        return Stmt('call', None, m.group(1), split_args(m.group(2)), file=f, line=ln, text=s)
    if ' = ' in s and s.endswith(';'):
        lhs, rhs = s[:-1].split(' = ', 1)
        lhs, rhs = lhs.strip(), rhs.strip()
        if rhs == '{}':
            return Stmt('zero', lhs, file=f, line=ln, text=s)
        if re.match(r'^\{CLOBBER(\(\w+\))?\}$', rhs):
            return Stmt('clobber', lhs, file=f, line=ln, text=s)
        m = CALL_RE.match(rhs)
        if m:
            return Stmt('call', lhs, m.group(1), split_args(m.group(2)), file=f, line=ln, text=s)
        return Stmt('assign', lhs, rhs, file=f, line=ln, text=s)
    m = DECL_RE.match(s)
    if m and '(' not in s and '=' not in s:
        fn.decls[m.group('name')] = m.group('type').strip() + (m.group('arr') or '')
        return None
    raise ExtractionBreak('%s:%d: unknown GIMPLE statement form: %r' % (path, lineno, s))


def load(dumps):
    """Merge the function tables of several dumps. The same (static inline) function may be emitted
    into several translation units; its statement text must then be identical."""
    table = {}
    for d in dumps:
        for name, fn in parse_dump(d).items():
            if name in table:
                a = [t for t in table[name].text if t and not t.startswith('//')]
                b = [t for t in fn.text if t and not t.startswith('//')]
                norm = lambda L: [re.sub(r'D\.\d+', 'D.#', x) for x in L]
                if norm(a) != norm(b):
                    raise ExtractionBreak('function %s differs between %s and %s' % (name, table[name].dump, d))
                continue
            table[name] = fn
    return table


# --------------------------------------------------------------------------- state
class State(object):
    """One path. objs: object id -> {field: Val} ('__zero__' marks a zero-initialised aggregate,
    '__dead__' a clobbered one)."""

    def __init__(self):
        self.objs = {}
        self.pc = []            # path condition: sympy relationals / booleans taken as true
        self.side = []          # (text, expr-in-range condition) integer no-wrap side conditions
        self.divisors = []      # (expr, func, line) every real divisor met on the path
        self.trace = []         # [lhs, value, func, line]
        self.abort = None       # (file, func, line, cond) of the cmi_assert_failed reached
        self.nobj = 0

    def fork(self):
        n = State()
        n.objs = {k: dict(v) for k, v in self.objs.items()}
        n.pc = list(self.pc)
        n.side = list(self.side)
        n.divisors = list(self.divisors)
        n.trace = list(self.trace)
        n.abort = self.abort
        n.nobj = self.nobj
        return n

    def new_object(self, name, fields=None):
        self.objs[name] = dict(fields or {})
        return name


class Outcome(object):
    def __init__(self, state, ret):
        self.state, self.ret = state, ret

    @property
    def aborted(self):
        return self.state.abort is not None


def short(e, n=160):
    if isinstance(e, sp.Rational) and not isinstance(e, sp.Integer) or (isinstance(e, sp.Integer) and abs(e) > 10 ** 30):
        return str(sp.Float(e, 17))
    s = str(e)
    return s if len(s) <= n else s[:n - 3] + '...'


# --------------------------------------------------------------------------- executor
class Executor(object):
    def __init__(self, table, decide=None, max_depth=12, max_paths=4096):
        self.table = table
        self.decide_hook = decide       # optional callable(cond, pc) -> True/False/None
        self.max_depth = max_depth
        self.max_paths = max_paths
        self.npaths = 0

    # -- public
    def run(self, fname, args, state):
        """args: list of Val. Returns a list of Outcome (aborted paths included)."""
        self.npaths = 0
        return self.call(fname, args, state.fork(), 0)

    # -- helpers
    def brk(self, fn, st, msg):
        raise ExtractionBreak('%s (%s:%s, in %s): %r' % (msg, st.file, st.line, fn.name, st.text))

    def call(self, fname, args, state, depth):
        if depth > self.max_depth:
            raise ExtractionBreak('call depth > %d (recursion?) at %s' % (self.max_depth, fname))
        fn = self.table[fname]
        if len(args) != len(fn.params):
            raise ExtractionBreak('arity mismatch calling %s' % fname)
        frame = {'__fn__': fn, '__depth__': depth, '__seen__': frozenset()}
        for (ptype, pname), v in zip(fn.params, args):
            frame[pname] = v
        # local aggregates become objects
        for name, typ in fn.decls.items():
            # qualifiers do not change what the object is (a `const struct x s = *p;` private copy: seeded C17-m3)
            bare = ' '.join(w for w in typ.split() if w not in ('const', 'volatile', 'static', 'register'))
            if bare.startswith('struct ') and '*' not in bare:
                state.nobj += 1
                oid = '%s.%s#%d' % (fn.name, name, state.nobj)
                state.new_object(oid, {'__undef__': True})
                frame['&' + name] = oid
        return self.exec_from(fn, frame, 0, state)

    def exec_from(self, fn, frame, pc, state):
        stmts = fn.stmts
        while True:
            if pc >= len(stmts):
                return [Outcome(state, None)]
            st = stmts[pc]
            k = st.kind
            if k == 'label':
                if st.a in frame['__seen__']:
                    self.brk(fn, st, 'label reached twice on one path: loop, not supported')
                frame['__seen__'] = frame['__seen__'] | {st.a}
                pc += 1
            elif k == 'goto':
                pc = self.target(fn, st, st.a)
            elif k == 'if':
                cond = self.cond(fn, frame, state, st, st.a)
                t, e = self.target(fn, st, st.b), self.target(fn, st, st.c)
                d = self.decide(cond, state)
                if d is True:
                    pc = t
                elif d is False:
                    pc = e
                else:
                    self.npaths += 1
                    if self.npaths > self.max_paths:
                        self.brk(fn, st, 'more than %d paths' % self.max_paths)
                    s2, f2 = state.fork(), dict(frame)
                    state.pc.append(cond)
                    s2.pc.append(sp.Not(cond))
                    return self.exec_from(fn, frame, t, state) + self.exec_from(fn, f2, e, s2)
            elif k == 'return':
                rv = self.operand(fn, frame, state, st, st.a) if st.a else None
                return [Outcome(state, rv)]
            elif k == 'zero':
                oid = self.local_obj(fn, frame, st, st.a)
                state.objs[oid] = {'__zero__': True}
                state.trace.append([st.a, '{}', fn.name, st.line])
                pc += 1
            elif k == 'clobber':
                oid = self.local_obj(fn, frame, st, st.a)
                state.objs[oid] = {'__dead__': True}
                pc += 1
            elif k == 'assign':
                v = self.rhs(fn, frame, state, st, st.b)
                self.store(fn, frame, state, st, st.a, v)
                pc += 1
            elif k == 'call':
                outs = self.do_call(fn, frame, state, st)
                if outs is None:          # handled in place (math / abort)
                    if state.abort is not None:
                        return [Outcome(state, None)]
                    pc += 1
                    continue
                res = []
                for o in outs:
                    if o.aborted:
                        res.append(o)
                        continue
                    fr = dict(frame)
                    if st.a is not None:
                        if o.ret is None:
                            self.brk(fn, st, 'value of a void call used')
                        self.store(fn, fr, o.state, st, st.a, o.ret)
                    res.extend(self.exec_from(fn, fr, pc + 1, o.state))
                return res
            else:
                self.brk(fn, st, 'unknown statement kind')

    def target(self, fn, st, label):
        if label not in fn.labels:
            self.brk(fn, st, 'goto to unknown label %s' % label)
        return fn.labels[label]

    def decide(self, cond, state):
        if cond is sp.true or cond is True:
            return True
        if cond is sp.false or cond is False:
            return False
        for p in state.pc:
            if p == cond:
                return True
            if p == sp.Not(cond):
                return False
        if self.decide_hook is not None:
            return self.decide_hook(cond, state.pc)
        return None

    def local_obj(self, fn, frame, st, name):
        key = '&' + name
        if key not in frame:
            self.brk(fn, st, '%s is not a local aggregate' % name)
        return frame[key]

    # -- calls
    def do_call(self, fn, frame, state, st):
        name, argtxt = st.b, st.c
        if name == 'cmi_assert_failed':
            if len(argtxt) != 4:
                self.brk(fn, st, 'cmi_assert_failed with %d arguments' % len(argtxt))
            a = [self.operand(fn, frame, state, st, x) for x in argtxt]
            state.abort = (str(a[0].e), str(a[1].e), int(a[2].e), str(a[3].e))
            state.trace.append(['ABORT', '%s:%s: %s' % (a[0].e, a[2].e, a[3].e), fn.name, st.line])
            return None
        args = [self.operand(fn, frame, state, st, x) for x in argtxt]
        if name in MATH:
            for a in args:
                if a.kind not in ('real', 'int'):
                    self.brk(fn, st, 'math function on a non-number')
            if name == 'pow' and args[1].e.is_number and args[1].e < 0:
                state.divisors.append((args[0].e, fn.name, st.line, st.file))
            v = Val(MATH_KIND.get(name, 'real'), MATH[name](*[a.e for a in args]))
            if st.a is not None:
                self.store(fn, frame, state, st, st.a, v)
            return None
        if name in self.table:
            return self.call(name, args, state, frame['__depth__'] + 1)
        self.brk(fn, st, 'call to %s: not in the function table and not a known math function' % name)

    # -- expressions
    def cond(self, fn, frame, state, st, text):
        parts = text.split(' ')
        if len(parts) != 3 or parts[1] not in ('<', '<=', '>', '>=', '==', '!='):
            self.brk(fn, st, 'unknown condition form')
        a = self.operand(fn, frame, state, st, parts[0])
        b = self.operand(fn, frame, state, st, parts[2])
        return self.compare(fn, st, parts[1], a, b)

    def compare(self, fn, st, op, a, b):
        if a.kind == 'ptr' or b.kind == 'ptr':
            if a.kind != b.kind or op not in ('==', '!='):
                self.brk(fn, st, 'pointer comparison form')
            return sp.true if ((a.e == b.e) == (op == '==')) else sp.false
        if a.kind == 'zero':
            a = Val(b.kind, sp.Integer(0))
        if b.kind == 'zero':
            b = Val(a.kind, sp.Integer(0))
        if a.kind != b.kind or a.kind not in ('int', 'real'):
            self.brk(fn, st, 'comparison of %s with %s' % (a.kind, b.kind))
        r = {'<': sp.Lt, '<=': sp.Le, '>': sp.Gt, '>=': sp.Ge, '==': sp.Eq, '!=': sp.Ne}[op](a.e, b.e)
        return r

    def rhs(self, fn, frame, state, st, text):
        # &v
        if text.startswith('&') and VAR_RE.match(text[1:]):
            return self.operand(fn, frame, state, st, text)
        # cast
        m = re.match(r'^\(([^()]+)\) (\S+)$', text)
        if m:
            return self.cast(fn, st, m.group(1).strip(), self.operand(fn, frame, state, st, m.group(2)))
        m = re.match(r'^(MIN_EXPR|MAX_EXPR) <(\S+), (\S+)>$', text)
        if m:
            a = self.operand(fn, frame, state, st, m.group(2))
            b = self.operand(fn, frame, state, st, m.group(3))
            if a.kind != b.kind or a.kind not in ('int', 'real'):
                self.brk(fn, st, 'MIN/MAX operand kinds')
            return Val(a.kind, (sp.Min if m.group(1) == 'MIN_EXPR' else sp.Max)(a.e, b.e))
        m = re.match(r'^ABS_EXPR <(\S+)>$', text)
        if m:
            a = self.operand(fn, frame, state, st, m.group(1))
            return Val(a.kind, sp.Abs(a.e))
        parts = text.split(' ')
        if len(parts) == 3 and parts[1] in BINOPS:
            a = self.operand(fn, frame, state, st, parts[0])
            b = self.operand(fn, frame, state, st, parts[2])
            return self.binop(fn, state, st, parts[1], a, b)
        if text.startswith('-') and VAR_RE.match(text[1:]):
            a = self.operand(fn, frame, state, st, text[1:])
            if a.kind not in ('int', 'real'):
                self.brk(fn, st, 'negation of a non-number')
            return Val(a.kind, -a.e)
        return self.operand(fn, frame, state, st, text)

    def cast(self, fn, st, typ, v):
        t = typ.replace('const ', '').strip()
        if t in ('double', 'float', 'long double'):
            if v.kind in ('int', 'real', 'zero'):
                return Val('real', v.e if v.kind != 'zero' else sp.Integer(0))
        if t.endswith('*') and v.kind == 'ptr':
            return v
        if t in ('uint64_t', 'long unsigned int', 'size_t', 'int', 'long int', 'unsigned int') and v.kind == 'int':
            return v        # value-preserving under the recorded no-wrap side conditions
        self.brk(fn, st, 'cast of %s to (%s)' % (v.kind, typ))

    def binop(self, fn, state, st, op, a, b):
        if op in ('<', '<=', '>', '>=', '==', '!='):
            self.brk(fn, st, 'comparison as a value (boolean temporaries not supported)')
        if a.kind == 'zero':
            a = Val(b.kind, sp.Integer(0))
        if b.kind == 'zero':
            b = Val(a.kind, sp.Integer(0))
        if a.kind != b.kind or a.kind not in ('int', 'real'):
            self.brk(fn, st, 'arithmetic on %s and %s' % (a.kind, b.kind))
        if a.kind == 'int':
            if op == '/':
                self.brk(fn, st, 'integer division')
            r = {'+': a.e + b.e, '-': a.e - b.e, '*': a.e * b.e}[op]
            state.side.append(('%s:%d %s' % (fn.name, st.line, st.text), r))
            return Val('int', r)
        if op == '/':
            state.divisors.append((b.e, fn.name, st.line, st.file))
            return Val('real', a.e / b.e)
        return Val('real', {'+': a.e + b.e, '-': a.e - b.e, '*': a.e * b.e}[op])

    def operand(self, fn, frame, state, st, text):
        text = text.strip()
        if text == '0B':
            return NULL
        if INT_RE.match(text):
            n = int(text)
            if n >= 2 ** 63:
                n -= TWO64          # unsigned literal read modulo 2^64
            return Val('int', sp.Integer(n))
        if FLT_RE.match(text):
            return Val('real', sp.Rational(text))
        if text.startswith('"') and text.endswith('"'):
            return Val('str', text[1:-1])
        if text == '&__func__':
            return Val('str', fn.name)
        if text.startswith('&') and VAR_RE.match(text[1:]):
            return vptr(self.local_obj(fn, frame, st, text[1:]))
        if VAR_RE.match(text):
            if text in frame:
                return frame[text]
            if '&' + text in frame:
                return Val('obj', frame['&' + text])
            self.brk(fn, st, 'read of unassigned variable %s' % text)
        oid, field = self.place(fn, frame, state, st, text)
        if field is None:
            return Val('obj', oid)
        return self.load_field(fn, state, st, oid, field)

    def place(self, fn, frame, state, st, text):
        """-> (object id, field or None for the whole object)."""
        m = MEM_RE.match(text) or ARROW_RE.match(text)
        if m:
            p = frame.get(m.group('base'))
            if p is None or p.kind != 'ptr':
                self.brk(fn, st, 'dereference of a non-pointer %s' % m.group('base'))
            if p.e is None:
                self.brk(fn, st, 'NULL dereference on a feasible path')
            return p.e, m.group('field')
        m = DEREF_RE.match(text)
        if m:
            p = frame.get(m.group('base'))
            if p is None or p.kind != 'ptr' or p.e is None:
                self.brk(fn, st, 'dereference of %s' % m.group('base'))
            return p.e, None
        m = DOT_RE.match(text)
        if m and ('&' + m.group('base')) in frame:
            return frame['&' + m.group('base')], m.group('field')
        if VAR_RE.match(text) and ('&' + text) in frame:
            return frame['&' + text], None
        self.brk(fn, st, 'unknown operand / place form %r' % text)

    def load_field(self, fn, state, st, oid, field):
        o = state.objs.get(oid)
        if o is None:
            self.brk(fn, st, 'access to unknown object %s' % oid)
        if '__dead__' in o:
            self.brk(fn, st, 'access to a clobbered object %s' % oid)
        if field in o:
            return o[field]
        if '__zero__' in o:
            return Val('zero', sp.Integer(0))
        self.brk(fn, st, 'read of uninitialised field %s.%s' % (oid, field))

    def store(self, fn, frame, state, st, lhs, v):
        if VAR_RE.match(lhs) and ('&' + lhs) not in frame:
            if v.kind == 'obj':
                self.brk(fn, st, 'aggregate assigned to a scalar')
            frame[lhs] = v
            if not lhs.startswith('_'):
                state.trace.append([lhs, short(v.e), fn.name, st.line])
            return
        oid, field = self.place(fn, frame, state, st, lhs)
        if field is None:
            if v.kind != 'obj':
                self.brk(fn, st, 'scalar stored into an aggregate')
            src = state.objs[v.e]
            if '__dead__' in src:
                self.brk(fn, st, 'copy of a clobbered object')
            state.objs[oid] = dict(src)       # whole-struct copy (flat record)
            state.trace.append([lhs, 'struct copy of ' + v.e.split('#')[0], fn.name, st.line])
            return
        if v.kind == 'obj':
            self.brk(fn, st, 'aggregate stored into a field')
        o = state.objs.get(oid)
        if o is None or '__dead__' in o:
            self.brk(fn, st, 'store to unknown/clobbered object %s' % oid)
        o.pop('__undef__', None)
        o[field] = v
        state.trace.append([lhs, short(v.e), fn.name, st.line])


def main(argv):
    """gsym.py <repo> <outdir> <src.c>... : extraction smoke test, lists functions and statement counts."""
    if len(argv) < 4:
        print(__doc__)
        return 1
    repo, outdir = argv[1], argv[2]
    try:
        dumps = [compile_gimple(repo, s, outdir)[0] for s in argv[3:]]
        table = load(dumps)
    except ExtractionBreak as e:
        print('EXTRACTION BREAK: %s' % e, file=sys.stderr)
        return 2
    for n, f in sorted(table.items()):
        print('%-32s %3d stmts  %s:%s' % (n, len(f.stmts), f.file, f.line))
    return 0


if __name__ == '__main__':
    sys.exit(main(sys.argv))
