#!/usr/local/bin/python3-vt
"""
o2_cbmc.py - C17 O2: CBMC (IEEE doubles) on h_c17.c, which #includes the working-tree
cmb_datasummary.c / cmb_wtdsummary.c. One group = one loop-free entry point.

    o2_cbmc.py <repo> <outdir> [group-id-substring]     prints {"groups":[...]}
"""
import json
import os
import subprocess
import sys
import time
from concurrent.futures import ThreadPoolExecutor

HERE = os.path.dirname(os.path.abspath(__file__))
HARNESS_DIR = os.environ.get('CMV_HARNESS_DIR', '/verif/harness')
TIMEOUT = int(os.environ.get('C17_CBMC_TIMEOUT', '300'))

FDIV = ['--float-div-by-zero-check']
#          id                          entry                 defines  extra flags  native replay on failure
O2 = [('C17.O2.ds_add', 'h_ds_add', [], [], 'concat'),
      ('C17.O2.wtd_zero', 'h_wtd_zero', [], [], 'concat'),
      ('C17.O2.wtd_add', 'h_wtd_add', [], FDIV, 'concat'),
      ('C17.O2.merge_basic', 'h_merge_basic', [], [], 'concat'),
      ('C17.O2.merge_empty1_right', 'h_merge_empty_right', [], FDIV, 'concat'),
      ('C17.O2.merge_empty1_left', 'h_merge_empty_left', [], FDIV, 'concat'),
      ('C17.O2.merge_empty2', 'h_merge_empty2', [], FDIV, 'empty2'),
      ('C17.O2.wtd_merge_empty2', 'h_wtd_merge_empty2', [], FDIV, 'empty2'),
      ('C17.O2.acc_variance', 'h_acc_variance', [], FDIV, 'concat'),
      ('C17.O2.acc_skew_kurt', 'h_acc_skew_kurt', [], FDIV, 'const')]
NATIVE_FOR = {g[0]: g[4] for g in O2}


def _run(cmd, timeout, stdout=None):
    t0 = time.time()
    try:
        r = subprocess.run(['timeout', '-k', '5', str(timeout)] + cmd, stdout=stdout or subprocess.PIPE,
                           stderr=subprocess.PIPE, universal_newlines=(stdout is None))
    except Exception as e:
        return 'error', str(e), time.time() - t0
    if r.returncode in (124, 137):
        return 'timeout', '', time.time() - t0
    out = r.stdout if stdout is None else ''
    err = r.stderr if isinstance(r.stderr, str) else r.stderr.decode('utf-8', 'replace')
    return r.returncode, (out or '') + err, time.time() - t0


def run_group(repo, outdir, spec, defines_extra=()):
    gid, entry, defines, flags, _ = spec
    t0 = time.time()
    wd = os.path.join(outdir, 'o2', gid)
    os.makedirs(wd, exist_ok=True)
    res = {'id': gid, 'status': 'ok', 'reason': '', 'seconds': 0, 'backend': 'cbmc', 'cmds': [], 'obligations': [],
           'traces': {}, 'native': {}}

    def fin():
        res['seconds'] = round(time.time() - t0, 2)
        return res

    gb = os.path.join(wd, 'a.gb')
    cmd = ['goto-cc', '-I' + HARNESS_DIR, '-I' + repo, '-I' + os.path.join(repo, 'include'), '-I' + os.path.join(repo, 'src'),
           '-D_POSIX_C_SOURCE=200809L'] + ['-D' + d for d in list(defines) + list(defines_extra)] + \
          ['--function', entry, os.path.join(HERE, 'h_c17.c'), '-o', gb]
    res['cmds'].append(' '.join(cmd))
    rc, out, dt = _run(cmd, 120)
    if rc != 0:
        res['status'] = 'error'
        res['reason'] = 'goto-cc failed (extraction break): ' + str(out)[-1500:]
        return fin()
    outjson = os.path.join(wd, 'out.json')
    cmd = ['cbmc', gb, '--json-ui', '--trace', '--drop-unused-functions', '--no-malloc-may-fail', '--slice-formula',
           '--bounds-check', '--pointer-check', '--div-by-zero-check'] + flags
    res['cmds'].append('timeout %d ' % TIMEOUT + ' '.join(cmd))
    with open(outjson, 'wb') as f:
        rc, err, dt = _run(cmd, TIMEOUT, stdout=f)
    if rc == 'timeout':
        res['status'] = 'undecided'
        res['reason'] = 'cbmc did not finish in %d s' % TIMEOUT
        return fin()
    try:
        data = json.load(open(outjson))
    except Exception as e:
        res['status'] = 'error'
        res['reason'] = 'cbmc output unparsable (rc=%s): %s %s' % (rc, e, err[-400:])
        return fin()
    results, msgs = None, []
    for o in data:
        if 'result' in o:
            results = o['result']
        if 'messageText' in o:
            msgs.append(o['messageText'])
    if results is None:
        res['status'] = 'error'
        res['reason'] = 'cbmc gave no result (rc=%s): %s' % (rc, '\n'.join(msgs)[-1200:])
        return fin()
    canaries = fired = 0
    folded = {}
    for r in results:
        sl = r.get('sourceLocation', {})
        desc = r['description']
        if desc.startswith('CANARY'):
            canaries += 1
            fired += r['status'] == 'FAILURE'
            continue
        named = desc.startswith('C17-')
        libassert = desc.startswith('cmb_assert') or desc.startswith('cmb_logger')
        cls = r['property'].split('.')[-2] if r['property'].count('.') >= 2 else 'check'
        if not named and not libassert and cls != 'float-division-by-zero' and r['status'] == 'SUCCESS':
            folded[cls] = folded.get(cls, 0) + 1          # pointer/bounds/... checks: one summary line per class
            continue
        if not named:
            desc = 'C17-O2 [%s]: %s' % ('library assertion' if libassert else 'built-in check', desc)
        ob = {'name': r['property'], 'desc': desc, 'status': r['status'],
              'file': sl.get('file', ''), 'line': sl.get('line', ''), 'func': sl.get('function', '')}
        res['obligations'].append(ob)
        if r['status'] == 'FAILURE':
            res['status'] = 'failed'
            tr = []
            for s in r.get('trace', []):
                if s.get('hidden'):
                    continue
                loc = s.get('sourceLocation', {})
                k = s.get('stepType')
                if k == 'assignment':
                    v = s.get('value', {})
                    val = v.get('data', v.get('name', '?')) if isinstance(v, dict) else str(v)
                    tr.append([s.get('lhs', ''), str(val), loc.get('function', ''), loc.get('line', '')])
                elif k == 'function-call':
                    tr.append(['call', s.get('function', {}).get('displayName', '?'), loc.get('function', ''), loc.get('line', '')])
                elif k == 'failure':
                    tr.append(['FAILED', s.get('reason', loc.get('comment', '')), loc.get('function', ''), loc.get('line', '')])
            res['traces'][ob['name']] = tr if len(tr) <= 90 else tr[:35] + [['...', '%d steps omitted' % (len(tr) - 90), '', '']] + tr[-55:]
        elif r['status'] != 'SUCCESS' and res['status'] == 'ok':
            res['status'] = 'undecided'
            res['reason'] = 'obligation %s has status %s' % (ob['name'], r['status'])
    for cls, n in sorted(folded.items()):
        res['obligations'].append({'name': '%s.%s.*' % (entry, cls), 'desc': 'C17-O2 [built-in check]: %d %s checks on the path' % (n, cls),
                                   'status': 'SUCCESS', 'file': '', 'line': '', 'func': entry})
    if canaries != 1 or fired != canaries:
        res['status'] = 'error'
        res['reason'] = 'vacuity guard: %d canaries, %d fired (assumptions contradictory or entry not reached)' % (canaries, fired)
    elif not res['reason']:
        res['reason'] = 'reachability canary fired as required'
    return fin()


def run_group_with_fallback(repo, outdir, spec):
    r = run_group(repo, outdir, spec)
    if spec[1] == 'h_acc_skew_kurt' and r['status'] == 'undecided':
        # CBMC's bit-level pow()/sqrt() models did not finish: retry with their sign/zero contracts
        r2 = run_group(repo, outdir, spec, defines_extra=['C17_ABSTRACT_POW'])
        r2['cmds'] = r['cmds'] + r2['cmds']
        r2['seconds'] += r['seconds']
        r2['reason'] = (r2['reason'] + '; ' if r2['reason'] else '') + \
            'exact pow/sqrt models timed out, result obtained with -DC17_ABSTRACT_POW (pow, sqrt replaced by sign/zero contracts)'
        return r2
    return r


def start(repo, outdir, only=None, workers=None):
    """-> (executor, [(spec, future)])"""
    specs = [s for s in O2 if not only or only in s[0]]
    ex = ThreadPoolExecutor(max_workers=workers or min(len(specs) or 1, max(2, (os.cpu_count() or 4) - 2)))
    return ex, [(s, ex.submit(run_group_with_fallback, repo, outdir, s)) for s in specs]


def collect(futs):
    out = []
    for s, f in futs:
        try:
            out.append(f.result())
        except Exception as e:
            out.append({'id': s[0], 'status': 'error', 'reason': 'internal error: %r' % e, 'seconds': 0, 'backend': 'cbmc',
                        'cmds': [], 'obligations': [], 'traces': {}, 'native': {}})
    return out


if __name__ == '__main__':
    ex, futs = start(sys.argv[1], sys.argv[2], sys.argv[3] if len(sys.argv) > 3 else None)
    groups = collect(futs)
    ex.shutdown()
    json.dump({'groups': groups}, sys.stdout, indent=1)
    print()
    sys.exit(0 if all(g['status'] == 'ok' for g in groups) else 1)
