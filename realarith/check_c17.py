#!/usr/local/bin/python3-vt
"""
check_c17.py - C17 obligations O1a..O1e over the reals, on the GIMPLE of the working tree.

    check_c17.py <repo> <outdir> [group-id-substring]      prints {"groups":[...]} (JSON)

The ORACLE below is written from the definitions, not from the code:

  multiset A with n values, mean mu:       M_k(A) = sum_{x in A} (x - mu)^k
  shift identity (binomial theorem):       sum_{x in A} (x - mu')^k
                                             = sum_j C(k,j) (mu - mu')^(k-j) M_j(A),  M_0 = n, M_1 = 0
  union A u B:  n = nA + nB,  mu = (nA muA + nB muB)/n,  M_k = shift_A(k, mu) + shift_B(k, mu)
  singleton {y}: n = 1, mu = y, M_k = 0 (k >= 2)
  weighted: the same with W = sum w in place of n and M_k = sum w (x - mu)^k
  sample variance  s^2 = M_2/(n-1)                                         (n >= 2)
  sample skewness  G1 = sqrt(n(n-1))/(n-2) * g1,  g1 = m3/m2^(3/2),  m_k = M_k/n   (n >= 3)
  sample excess kurtosis G2 = (n-1)/((n-2)(n-3)) * ((n+1) g2 + 6),  g2 = m4/m2^2 - 3   (n >= 4)
     (cmb_datasummary.h promises "the sample skewness" / "the sample excess kurtosis"; the
      finite-sample corrected (adjusted Fisher-Pearson) estimators G1/G2 are the ones the code
      comments name: "Correction for finite sample")

Exit status: 0 all groups ok, 1 some obligation failed, 2 extraction break, 3 internal error.
"""
import json
import os
import random
import sys
import time
import traceback

import sympy as sp

HERE = os.path.dirname(os.path.abspath(__file__))
sys.path.insert(0, HERE)
import gsym
from gsym import Val, vint, vreal, vptr, State, Executor, ExtractionBreak

DS_SRC = 'src/cmb_datasummary.c'
WS_SRC = 'src/cmb_wtdsummary.c'
FIELDS = ('count', 'min', 'max', 'm1', 'm2', 'm3', 'm4')
MOM = ('m1', 'm2', 'm3', 'm4')


# =========================================================================== oracle (definitions)
def shift(k, n, mu, M, mu2):
    """sum over the multiset (n, mu, M[2..4]) of (x - mu2)^k."""
    Mj = {0: n, 1: 0, 2: M[2], 3: M[3], 4: M[4]}
    return sum(sp.binomial(k, j) * (mu - mu2) ** (k - j) * Mj[j] for j in range(k + 1))


def union(A, B):
    """A, B: dict(n, mu, M={2:,3:,4:}) -> moments of the union (n is a count or a weight sum)."""
    n = A['n'] + B['n']
    mu = (A['n'] * A['mu'] + B['n'] * B['mu']) / n
    M = {k: shift(k, A['n'], A['mu'], A['M'], mu) + shift(k, B['n'], B['mu'], B['M'], mu) for k in (2, 3, 4)}
    return {'n': n, 'mu': mu, 'M': M}


def singleton(y, w=1):
    return {'n': sp.sympify(w), 'mu': y, 'M': {2: sp.Integer(0), 3: sp.Integer(0), 4: sp.Integer(0)}}


def brute(xs, ws=None):
    """The definitions applied to an explicit list (used to self-check the oracle on every run)."""
    ws = ws or [1] * len(xs)
    W = sum(ws)
    mu = sum(sp.Rational(w) * x for x, w in zip(xs, ws)) / W
    return {'n': sp.Rational(W), 'mu': mu,
            'M': {k: sum(sp.Rational(w) * (x - mu) ** k for x, w in zip(xs, ws)) for k in (2, 3, 4)}}


def def_variance(n, M2):
    return M2 / (n - 1)


def def_skewness(n, M2, M3):
    m2, m3 = M2 / n, M3 / n
    g1 = m3 / m2 ** sp.Rational(3, 2)
    return sp.sqrt(n * (n - 1)) / (n - 2) * g1


def def_kurtosis(n, M2, M4):
    m2, m4 = M2 / n, M4 / n
    g2 = m4 / m2 ** 2 - 3
    return (n - 1) / ((n - 2) * (n - 3)) * ((n + 1) * g2 + 6)


def oracle_selfcheck():
    A, B = [sp.Integer(v) for v in (1, 2, 6)], [sp.Integer(v) for v in (3, 10)]
    u, d = union(brute(A), brute(B)), brute(A + B)
    ok = u['n'] == d['n'] and sp.simplify(u['mu'] - d['mu']) == 0 and all(sp.simplify(u['M'][k] - d['M'][k]) == 0 for k in (2, 3, 4))
    wa, wb = [2, 1, 3], [sp.Rational(1, 2), 4]
    u, d = union(brute(A, wa), brute(B, wb)), brute(A + B, wa + wb)
    ok = ok and sp.simplify(u['mu'] - d['mu']) == 0 and all(sp.simplify(u['M'][k] - d['M'][k]) == 0 for k in (2, 3, 4))
    u, d = union(brute(A), singleton(sp.Integer(7))), brute(A + [sp.Integer(7)])
    ok = ok and all(sp.simplify(u['M'][k] - d['M'][k]) == 0 for k in (2, 3, 4))
    return bool(ok)


# =========================================================================== zero test
def sample_point(syms, rnd):
    pt = {}
    for s in syms:
        if s.is_integer:
            pt[s] = sp.Integer(rnd.randint(0 if s.is_positive is not True else 1, 7))
        elif s.is_positive or s.is_nonnegative:
            pt[s] = sp.Rational(rnd.randint(1, 40), rnd.randint(1, 7))
        else:
            pt[s] = sp.Rational(rnd.randint(-40, 40), rnd.randint(1, 7))
    return pt


def is_zero(e, seed=17):
    """-> (True, None) | (False, witness dict) | (None, reason)."""
    e = sp.sympify(e)
    if e == 0:
        return True, None
    try:
        r = sp.cancel(sp.together(e))
        if r == 0:
            return True, None
        r = sp.simplify(r)
        if r == 0:
            return True, None
    except Exception as ex:      # keep going numerically
        r = e
    rnd = random.Random(seed)
    syms = sorted(e.free_symbols, key=str)
    for _ in range(12):
        pt = sample_point(syms, rnd)
        try:
            v = sp.N(e.subs(pt), 40)
        except Exception:
            continue
        if v.is_number and v.is_finite and abs(v) > sp.Float('1e-25'):
            return False, {'point': {str(k): str(x) for k, x in pt.items()}, 'value': str(sp.N(v, 12)),
                           'residual': gsym.short(r, 400)}
    return None, 'residual not simplified to 0 but numerically 0 at 12 points: %s' % gsym.short(r, 300)


def implied_le(pc, a, b):
    """does some conjunct of the path condition say a <= b (syntactically, up to rearrangement)?"""
    if sp.simplify(a - b) == 0:
        return True
    for p in pc:
        if not isinstance(p, sp.core.relational.Relational):
            continue
        d = p.lhs - p.rhs
        if isinstance(p, (sp.Lt, sp.Le)) and sp.simplify(d - (a - b)) == 0:
            return True
        if isinstance(p, (sp.Gt, sp.Ge)) and sp.simplify(d + (a - b)) == 0:
            return True
    return False


# =========================================================================== bookkeeping
class Group(object):
    def __init__(self, gid, cmds, tag):
        self.id, self.cmds, self.tag = gid, list(cmds), tag
        self.obls, self.traces, self.native = [], {}, {}
        self.t0 = time.time()
        self.reason = ''
        self.n = 0
        self.error = None

    def ob(self, text, ok, fn=None, trace=None, detail=None, where=None):
        """ok: True/False/None(undecided)."""
        if ok is not None:
            ok = bool(ok)
        self.n += 1
        name = '%s.%02d' % (self.id, self.n)
        f = fn
        o = {'name': name, 'desc': '%s: %s' % (self.tag, text),
             'status': 'SUCCESS' if ok is True else ('FAILURE' if ok is False else 'UNDECIDED'),
             'file': (where[0] if where else (f.file if f else '')),
             'line': (where[1] if where else (f.line if f else 0)),
             'func': f.name if f else ''}
        self.obls.append(o)
        if ok is not True:
            tr = [list(map(str, t[:2])) + [t[2], t[3]] for t in (trace or [])][-60:]
            for k, v in (detail or {}).items():
                tr.append([k, v if isinstance(v, str) else json.dumps(v), f.name if f else '', 0])
            self.traces[name] = tr
        return o

    def done(self):
        st = 'ok'
        if any(o['status'] == 'FAILURE' for o in self.obls):
            st = 'failed'
        elif any(o['status'] == 'UNDECIDED' for o in self.obls):
            st = 'undecided'
        if self.error:
            st = 'error'
        return {'id': self.id, 'status': st, 'reason': self.error or self.reason,
                'seconds': round(time.time() - self.t0, 2), 'backend': 'sympy', 'cmds': self.cmds,
                'obligations': self.obls, 'traces': self.traces, 'native': self.native}


class Ctx(object):
    def __init__(self, repo, outdir):
        self.repo, self.outdir = repo, outdir
        d1, c1 = gsym.compile_gimple(repo, DS_SRC, outdir)
        d2, c2 = gsym.compile_gimple(repo, WS_SRC, outdir)
        self.cmds = [c1, c2]
        self.table = gsym.load([d1, d2])
        self.ex = Executor(self.table)
        self.uid = 0

    def fn(self, name):
        return self.table[name]

    # -- states built by the REAL initialisers
    def fresh(self, st, label, weighted=False):
        """an object initialised by the real cmb_[wtd|data]summary_initialize -> object id."""
        self.uid += 1
        oid = '%s#%d' % (label, self.uid)
        st.new_object(oid, {'__undef__': True})
        outs = self.ex.run('cmb_wtdsummary_initialize' if weighted else 'cmb_datasummary_initialize', [vptr(oid)], st)
        good = [o for o in outs if not o.aborted]
        if len(good) != 1:
            raise ExtractionBreak('initialize has %d non-aborting paths' % len(good))
        st.objs = good[0].state.objs
        return oid

    def summary(self, st, label, sfx, weighted=False, n=None, W=None):
        """a symbolic non-empty summary: cookie from the real initialiser, fields = exact moments."""
        oid = self.fresh(st, label, weighted)
        n = n if n is not None else sp.Symbol('n' + sfx, integer=True, positive=True)
        d = {'n': n, 'mu': sp.Symbol('mu' + sfx, real=True),
             'M': {2: sp.Symbol('M2' + sfx, positive=True), 3: sp.Symbol('M3' + sfx, real=True),
                   4: sp.Symbol('M4' + sfx, positive=True)},
             'min': sp.Symbol('min' + sfx, real=True), 'max': sp.Symbol('max' + sfx, real=True), 'count': n}
        o = st.objs[oid]
        o['count'] = vint(n)
        o['min'], o['max'] = vreal(d['min']), vreal(d['max'])
        o['m1'] = vreal(d['mu'])
        for k in (2, 3, 4):
            o['m%d' % k] = vreal(d['M'][k])
        if weighted:
            d['W'] = W if W is not None else sp.Symbol('W' + sfx, positive=True)
            o['wsum'] = vreal(d['W'])
        return oid, d

    def run(self, fname, args, st):
        outs = self.ex.run(fname, args, st)
        return [o for o in outs if not o.aborted], [o for o in outs if o.aborted]


def fld(o, oid, f):
    return o.state.objs[oid][f].e


def same_object(a, b):
    ka = {k for k in a if not k.startswith('__')}
    kb = {k for k in b if not k.startswith('__')}
    if ka != kb:
        return False
    return all(a[k].kind == b[k].kind and (a[k].e == b[k].e or sp.simplify(a[k].e - b[k].e) == 0) for k in ka)


def abort_list(bad):
    return '; '.join(sorted({'%s:%s "%s" [pc: %s]' % (o.state.abort[0], o.state.abort[2], o.state.abort[3],
                                                     ' & '.join(gsym.short(p, 60) for p in o.state.pc) or 'true') for o in bad}))


def check_divisors(g, outs, fn, text):
    """every real divisor on every path is provably non-zero under the symbol assumptions."""
    bad = None
    for o in outs:
        for (e, f, line, file) in o.state.divisors:
            nz = sp.sympify(e).is_nonzero
            if nz is not True:
                bad = (o, e, f, line, file, nz)
                break
        if bad:
            break
    if bad:
        o, e, f, line, file, nz = bad
        g.ob(text, False, fn, o.state.trace, {'divisor': gsym.short(e), 'is': 'identically 0' if sp.sympify(e) == 0 else 'not provably non-zero',
                                              'path-condition': ' & '.join(map(str, o.state.pc)) or 'true'}, where=(file, line))
    else:
        g.ob(text, True, fn)
    return bad is None


def check_nowrap(g, outs, fn):
    bad = None
    for o in outs:
        for (txt, e) in o.state.side:
            if sp.sympify(e).is_nonnegative is not True:
                bad = (o, txt, e)
    if bad:
        g.ob('no unsigned integer expression goes below zero on any path', False, fn, bad[0].state.trace,
             {'expression': '%s = %s' % (bad[1], bad[2])})
    else:
        g.ob('no unsigned integer expression goes below zero on any path (upper wrap excluded by the assumption count < 2^53)', True, fn)


def check_fields(g, text, outs, oid, expect, fn, fields=None):
    """result object `oid` equals `expect` (dict field -> expr) on every path; one obligation per field."""
    allok = True
    for f in (fields or sorted(expect)):
        verdict, info, path = True, None, None
        for o in outs:
            z, w = is_zero(fld(o, oid, f) - expect[f])
            if z is not True:
                verdict, info, path = (False if z is False else None), w, o
                break
        det = None
        if verdict is not True:
            allok = False
            det = {'field': f, 'expected': gsym.short(expect[f], 300),
                   'path-condition': ' & '.join(map(str, path.state.pc)) or 'true'}
            if isinstance(info, dict):
                det.update({'residual (code - definition)': info['residual'], 'counterexample': info['point'],
                            'residual value there': info['value']})
            else:
                det['note'] = str(info)
        g.ob('%s: %s' % (text, f), verdict, fn, path.state.trace if path else None, det)
    return allok


def exp_of(U):
    return {'m1': U['mu'], 'm2': U['M'][2], 'm3': U['M'][3], 'm4': U['M'][4]}


# =========================================================================== O1a
def g_o1a_merge(cx):
    g = Group('C17.O1a.merge', cx.cmds, 'C17-O1')
    fn = cx.fn('cmb_datasummary_merge')
    g.ob('oracle self-check: union()/shift identity reproduce the moments computed from the definition on explicit data',
         oracle_selfcheck())
    results = {}
    for alias in ('fresh', 'tgt==dsp1', 'tgt==dsp2'):
        st = State()
        a, A = cx.summary(st, 'A', 'A')
        b, B = cx.summary(st, 'B', 'B')
        t = {'fresh': None, 'tgt==dsp1': a, 'tgt==dsp2': b}[alias]
        if t is None:
            cx.uid += 1
            t = st.new_object('T#%d' % cx.uid, {'__undef__': True})
        before = {k: dict(v) for k, v in st.objs.items()}
        good, bad = cx.run('cmb_datasummary_merge', [vptr(t), vptr(a), vptr(b)], st)
        U = union(A, B)
        g.ob('merge(%s): no assertion can fail for initialised non-NULL operands (%d paths, %d aborting)' % (alias, len(good), len(bad)),
             len(good) > 0 and not bad, fn, bad[0].state.trace if bad else None, {'aborting': abort_list(bad)})
        check_fields(g, 'merge(A,B) [%s] = moments of the union, every path' % alias, good, t, exp_of(U), fn, MOM)
        ok = all(is_zero(fld(o, t, 'count') - (A['n'] + B['n']))[0] and is_zero(o.ret.e - (A['n'] + B['n']))[0] for o in good)
        g.ob('merge [%s]: count = nA + nB and the return value is the combined count' % alias, ok, fn, good[0].state.trace)
        ok = all(fld(o, t, 'min') in (A['min'], B['min']) and implied_le(o.state.pc, fld(o, t, 'min'), A['min'])
                 and implied_le(o.state.pc, fld(o, t, 'min'), B['min'])
                 and fld(o, t, 'max') in (A['max'], B['max']) and implied_le(o.state.pc, A['max'], fld(o, t, 'max'))
                 and implied_le(o.state.pc, B['max'], fld(o, t, 'max')) for o in good)
        g.ob('merge [%s]: min/max are the smaller min / larger max of the operands on every path' % alias, ok, fn, good[0].state.trace)
        others = [x for x in (a, b) if x != t]
        ok = all(same_object(o.state.objs[x], before[x]) for o in good for x in others)
        g.ob('merge [%s]: operands other than the target are unchanged' % alias, ok, fn)
        if alias == 'fresh':
            check_divisors(g, good, fn, 'merge: every divisor is non-zero when both operands are non-empty')
            check_nowrap(g, good, fn)
        results[alias] = (good, t)
    # symmetry: merge(B, A)
    st = State()
    a, A = cx.summary(st, 'A', 'A')
    b, B = cx.summary(st, 'B', 'B')
    cx.uid += 1
    t = st.new_object('T#%d' % cx.uid, {'__undef__': True})
    good2, _ = cx.run('cmb_datasummary_merge', [vptr(t), vptr(b), vptr(a)], st)
    good1, t1 = results['fresh']
    ok, det, z = True, None, True
    for f in MOM + ('count',):
        for o1 in good1:
            for o2 in good2:
                z, w = is_zero(fld(o1, t1, f) - fld(o2, t, f))
                if z is not True:
                    ok, det = (False if z is False else None), {'field': f, 'witness': w}
    g.ob('merge is symmetric: merge(A,B) and merge(B,A) give the same count and moments', ok, fn,
         good2[0].state.trace if det else None, det)
    return g.done()


def g_o1a_empty(cx, both):
    gid = 'C17.O1a.merge_empty2' if both else 'C17.O1a.merge_empty1'
    g = Group(gid, cx.cmds, 'C17-O1')
    fn = cx.fn('cmb_datasummary_merge')
    fnw = cx.fn('cmb_wtdsummary_merge')
    if not both:
        for weighted, name, f in ((False, 'cmb_datasummary_merge', fn), (True, 'cmb_wtdsummary_merge', fnw)):
            for order in ('A,empty', 'empty,A'):
                st = State()
                a, A = cx.summary(st, 'A', 'A', weighted)
                e = cx.fresh(st, 'E', weighted)
                cx.uid += 1
                t = st.new_object('T#%d' % cx.uid, {'__undef__': True})
                args = [vptr(t), vptr(a), vptr(e)] if order == 'A,empty' else [vptr(t), vptr(e), vptr(a)]
                good, bad = cx.run(name, args, st)
                exp = {'count': A['n'], 'm1': A['mu'], 'm2': A['M'][2], 'm3': A['M'][3], 'm4': A['M'][4]}
                if weighted:
                    exp['wsum'] = A['W']
                g.ob('%s(%s): no aborting path' % (name, order), bool(good) and not bad, f, None, {'aborting': abort_list(bad)})
                check_fields(g, '%s(%s) over the reals = the statistics of A (min/max: see O2, exact in IEEE)' % (name, order),
                             good, t, exp, f)
                check_divisors(g, good, f, '%s(%s): every divisor is non-zero' % (name, order))
    else:
        for weighted, name, f in ((False, 'cmb_datasummary_merge', fn), (True, 'cmb_wtdsummary_merge', fnw)):
            st = State()
            e1 = cx.fresh(st, 'E1', weighted)
            e2 = cx.fresh(st, 'E2', weighted)
            cx.uid += 1
            t = st.new_object('T#%d' % cx.uid, {'__undef__': True})
            good, bad = cx.run(name, [vptr(t), vptr(e1), vptr(e2)], st)
            g.ob('%s(empty, empty): no aborting path' % name, bool(good) and not bad, f, None, {'aborting': abort_list(bad)})
            check_divisors(g, good, f, '%s(empty, empty) is defined: every divisor is non-zero (the empty summary should result)' % name)
    return g.done()


# =========================================================================== O1b
def g_o1b_add(cx):
    g = Group('C17.O1b.add', cx.cmds, 'C17-O1')
    fn = cx.fn('cmb_datasummary_add')
    y = sp.Symbol('y', real=True)
    # initialize = moments of the empty multiset (O3 base)
    st = State()
    e = cx.fresh(st, 'E')
    o = st.objs[e]
    g.ob('initialize gives the moments of the empty multiset: count 0, m1..m4 0, min DBL_MAX, max -DBL_MAX',
         o['count'].e == 0 and all(o[m].e == 0 for m in MOM) and o['min'].e == -o['max'].e and o['min'].e > sp.Float('1e308'),
         cx.fn('cmb_datasummary_initialize'))
    # add on a symbolic exact summary = definition for n+1 values
    st = State()
    a, A = cx.summary(st, 'A', 'A')
    good, bad = cx.run('cmb_datasummary_add', [vptr(a), vreal(y)], st)
    g.ob('add: no assertion can fail for an initialised summary (%d paths, %d aborting)' % (len(good), len(bad)),
         bool(good) and not bad, fn, bad[0].state.trace if bad else None, {'aborting': abort_list(bad)})
    U = union(A, singleton(y))
    check_fields(g, 'add(y) on exact fields for n values = definition for the n+1 values, every path', good, a, exp_of(U), fn, MOM)
    ok = all(is_zero(fld(o, a, 'count') - (A['n'] + 1))[0] and is_zero(o.ret.e - (A['n'] + 1))[0] for o in good)
    g.ob('add: count = n + 1 and the return value is the new count', ok, fn, good[0].state.trace)
    ok = all(fld(o, a, 'min') in (A['min'], y) and implied_le(o.state.pc, fld(o, a, 'min'), A['min'])
             and implied_le(o.state.pc, fld(o, a, 'min'), y)
             and fld(o, a, 'max') in (A['max'], y) and implied_le(o.state.pc, A['max'], fld(o, a, 'max'))
             and implied_le(o.state.pc, y, fld(o, a, 'max')) for o in good)
    g.ob('add: min/max are min(old min, y) / max(old max, y) on every path', ok, fn, good[0].state.trace)
    check_divisors(g, good, fn, 'add: every divisor is non-zero')
    check_nowrap(g, good, fn)
    add_paths = good
    # the singleton built by the real code: initialize + add(y)
    st = State()
    s = cx.fresh(st, 'S')
    goodS, badS = cx.run('cmb_datasummary_add', [vptr(s), vreal(y)], st)
    S = singleton(y)
    expS = dict(exp_of(S), count=sp.Integer(1))
    check_fields(g, 'add(y) on the empty summary = the singleton {y}', goodS, s, expS, fn, MOM + ('count',))
    # add(A, y) == merge(A, S) == merge(S, A), S from the real code
    fm = cx.fn('cmb_datasummary_merge')
    for order in ('A,S', 'S,A'):
        verdict, det, tr = True, None, None
        for oS in goodS[:1]:
            st2 = oS.state.fork()
            st2.pc, st2.trace, st2.divisors, st2.side = [], [], [], []
            a2, A2 = cx.summary(st2, 'A', 'A')
            cx.uid += 1
            t = st2.new_object('T#%d' % cx.uid, {'__undef__': True})
            args = [vptr(t), vptr(a2), vptr(s)] if order == 'A,S' else [vptr(t), vptr(s), vptr(a2)]
            gm, bm = cx.run('cmb_datasummary_merge', args, st2)
            for om in gm:
                for oa in add_paths:
                    for f in MOM + ('count',):
                        z, w = is_zero(fld(om, t, f) - fld(oa, a, f))
                        if z is not True:
                            verdict, det, tr = (False if z is False else None), {'field': f, 'witness': w}, om.state.trace
        g.ob('add(y) = merge(%s) with S the singleton {y} built by initialize+add: same count and moments' % order,
             verdict, fm, tr, det)
    return g.done()


# =========================================================================== O1c
def acc_cases(cx, fname, minc, weighted=False):
    """case split on the count: 0..minc-1 concretely, k+minc symbolically (k >= 0) -> [(label, n, outs, bad, dict)]."""
    k = sp.Symbol('k', integer=True, nonnegative=True)
    res = []
    for n in list(range(minc)) + [k + minc]:
        st = State()
        a, A = cx.summary(st, 'A', 'A', weighted, n=sp.sympify(n))
        good, bad = cx.run(fname, [vptr(a)], st)
        res.append((('count = %s' % n) if n != k + minc else 'count = k + %d, k >= 0' % minc, sp.sympify(n), good, bad, A, a))
    return res


def g_o1c_accessors(cx):
    g = Group('C17.O1c.accessors', cx.cmds, 'C17-O1')
    specs = [('cmb_datasummary_variance', 2, lambda n, A: def_variance(n, A['M'][2]), 'sample variance M2/(n-1)'),
             ('cmb_datasummary_stddev', 2, lambda n, A: sp.sqrt(def_variance(n, A['M'][2])), 'sqrt of the sample variance'),
             ('cmb_datasummary_skewness', 3, lambda n, A: def_skewness(n, A['M'][2], A['M'][3]),
              'sample skewness sqrt(n(n-1))/(n-2) * m3/m2^1.5'),
             ('cmb_datasummary_kurtosis', 4, lambda n, A: def_kurtosis(n, A['M'][2], A['M'][4]),
              'sample excess kurtosis (n-1)/((n-2)(n-3)) * ((n+1)(m4/m2^2 - 3) + 6)')]
    for fname, minc, definition, text in specs:
        fn = cx.fn(fname)
        for label, n, good, bad, A, a in acc_cases(cx, fname, minc):
            below = n.is_number and n < minc
            exp = sp.Integer(0) if below else definition(n, A)
            verdict, det, tr = (True if good else False), None, None
            for o in good:
                z, w = is_zero(o.ret.e - exp)
                if z is not True:
                    verdict, tr = (False if z is False else None), o.state.trace
                    det = {'returned': gsym.short(o.ret.e, 300), 'expected (definition)': gsym.short(exp, 300)}
                    if isinstance(w, dict):
                        det.update({'residual (code - definition)': w['residual'], 'counterexample': w['point'], 'residual value there': w['value']})
                    else:
                        det['note'] = str(w)
            what = ('returns 0.0 below the minimum count %d (the header is silent; 0.0 is what the code pins)' % minc) if below \
                else 'equals the definition: ' + text
            g.ob('%s, %s: %s' % (fname.replace('cmb_datasummary_', ''), label, what), verdict, fn, tr, det)
            if bad:
                g.ob('%s, %s: no assertion can fail (M2 >= 0 as a sum of squares)' % (fname, label), False, fn,
                     bad[0].state.trace, {'aborting': abort_list(bad)})
        # frame: accessors do not write
    for fname, f in (('cmb_datasummary_mean', 'm1'), ('cmb_datasummary_min', 'min'), ('cmb_datasummary_max', 'max'),
                     ('cmb_datasummary_count', 'count')):
        st = State()
        a, A = cx.summary(st, 'A', 'A')
        good, bad = cx.run(fname, [vptr(a)], st)
        g.ob('%s returns the field %s and no assertion can fail' % (fname, f),
             bool(good) and not bad and all(o.ret.e == st.objs[a][f].e for o in good), cx.fn(fname))
    return g.done()


def g_o1c_defined(cx):
    g = Group('C17.O1c.defined', cx.cmds, 'C17-O1')
    M2 = sp.Symbol('M2A', nonnegative=True)          # a sum of squares: zero iff all samples are equal
    k = sp.Symbol('k', integer=True, nonnegative=True)
    for fname, minc in (('cmb_datasummary_variance', 2), ('cmb_datasummary_stddev', 2),
                        ('cmb_datasummary_skewness', 3), ('cmb_datasummary_kurtosis', 4)):
        st = State()
        a, A = cx.summary(st, 'A', 'A', n=k + minc)
        st.objs[a]['m2'] = vreal(M2)
        good, bad = cx.run(fname, [vptr(a)], st)
        check_divisors(g, good, cx.fn(fname),
                       '%s is defined for every summary reachable by add (count >= %d, M2 >= 0; M2 = 0 iff all samples are equal): every divisor non-zero'
                       % (fname, minc))
    return g.done()


# =========================================================================== aborting paths
def g_o1_abort(cx):
    """Which paths abort: every documented precondition violation ends in cmi_assert_failed on EVERY path."""
    g = Group('C17.O1.aborts', cx.cmds, 'C17-O1')
    y = sp.Symbol('y', real=True)

    def terminated(st, weighted=False):
        oid, _ = cx.summary(st, 'Z', 'Z', weighted)
        outs = cx.ex.run('cmb_datasummary_terminate', [vptr(oid)], st)
        st.objs = outs[0].state.objs
        return oid

    def expect_abort(fname, mk, cond, what):
        st = State()
        args = mk(st)
        good, bad = cx.run(fname, args, st)
        ok = not good and bool(bad) and all(o.state.abort[3] == cond for o in bad)
        g.ob('%s: %s -> every path aborts at the assertion "%s" (%d aborting, %d returning)' % (fname, what, cond, len(bad), len(good)),
             ok, cx.fn(fname), (good or bad)[0].state.trace if not ok else None,
             {'aborting': abort_list(bad)})

    def tgt(st):
        cx.uid += 1
        return st.new_object('T#%d' % cx.uid, {'__undef__': True})

    M = 'cmb_datasummary_merge'
    expect_abort(M, lambda st: [gsym.NULL, vptr(cx.summary(st, 'A', 'A')[0]), vptr(cx.summary(st, 'B', 'B')[0])], 'tgt != NULL', 'NULL target')
    expect_abort(M, lambda st: [vptr(tgt(st)), gsym.NULL, vptr(cx.summary(st, 'B', 'B')[0])], 'dsp1 != NULL', 'NULL first operand')
    expect_abort(M, lambda st: [vptr(tgt(st)), vptr(cx.summary(st, 'A', 'A')[0]), gsym.NULL], 'dsp2 != NULL', 'NULL second operand')
    expect_abort(M, lambda st: [vptr(tgt(st)), vptr(terminated(st)), vptr(cx.summary(st, 'B', 'B')[0])],
                 'dsp1->cookie == CMI_INITIALIZED', 'terminated (un-initialised) first operand')
    expect_abort(M, lambda st: [vptr(tgt(st)), vptr(cx.summary(st, 'A', 'A')[0]), vptr(terminated(st))],
                 'dsp2->cookie == CMI_INITIALIZED', 'terminated (un-initialised) second operand')
    A = 'cmb_datasummary_add'
    expect_abort(A, lambda st: [gsym.NULL, vreal(y)], 'dsp != NULL', 'NULL summary')
    expect_abort(A, lambda st: [vptr(terminated(st)), vreal(y)], 'dsp->cookie == CMI_INITIALIZED', 'terminated summary')
    W = 'cmb_wtdsummary_add'
    expect_abort(W, lambda st: [gsym.NULL, vreal(y), vreal(sp.Integer(1))], 'wsp != NULL', 'NULL summary')
    expect_abort(W, lambda st: [vptr(cx.summary(st, 'A', 'A', True)[0]), vreal(y), vreal(sp.Symbol('wneg', negative=True))], 'w >= 0.0', 'negative weight')

    def negm2(st):
        a, _ = cx.summary(st, 'A', 'A', n=sp.Symbol('k', integer=True, nonnegative=True) + 2)
        st.objs[a]['m2'] = vreal(sp.Symbol('M2neg', negative=True))
        return [vptr(a)]
    expect_abort('cmb_datasummary_variance', negm2, 'r >= 0.0', 'negative m2 (unreachable over the reals: m2 is a sum of squares; debug assertion)')
    return g.done()


# =========================================================================== O1d
def g_o1d_weighted(cx):
    g = Group('C17.O1d.weighted', cx.cmds, 'C17-O1')
    fa, fm = cx.fn('cmb_wtdsummary_add'), cx.fn('cmb_wtdsummary_merge')
    x = sp.Symbol('x', real=True)
    w = sp.Symbol('w', positive=True)
    WF = MOM + ('wsum',)

    def wexp(U):
        return dict(exp_of(U), wsum=U['n'])

    def wd(A):
        return {'n': A['W'], 'mu': A['mu'], 'M': A['M']}

    # add, non-empty
    st = State()
    a, A = cx.summary(st, 'A', 'A', True)
    good, bad = cx.run('cmb_wtdsummary_add', [vptr(a), vreal(x), vreal(w)], st)
    g.ob('wtd add (w > 0): no assertion can fail (%d paths, %d aborting)' % (len(good), len(bad)), bool(good) and not bad, fa,
         bad[0].state.trace if bad else None, {'aborting': abort_list(bad)})
    U = union(wd(A), singleton(x, w))
    check_fields(g, 'wtd add(x,w) on exact weighted fields = weighted definition with the new sample (m1 = exact weighted mean), every path',
                 good, a, wexp(U), fa, WF)
    g.ob('wtd add (w > 0): count = n + 1, returned', all(is_zero(fld(o, a, 'count') - (A['count'] + 1))[0] and is_zero(o.ret.e - (A['count'] + 1))[0] for o in good), fa)
    ok = all(fld(o, a, 'min') in (A['min'], x) and implied_le(o.state.pc, fld(o, a, 'min'), A['min']) and implied_le(o.state.pc, fld(o, a, 'min'), x)
             and fld(o, a, 'max') in (A['max'], x) and implied_le(o.state.pc, A['max'], fld(o, a, 'max')) and implied_le(o.state.pc, x, fld(o, a, 'max'))
             for o in good)
    g.ob('wtd add: min/max are min(old,x)/max(old,x) on every path', ok, fa)
    g.ob('wtd add keeps the invariant wsum > 0 for a non-empty summary', all(fld(o, a, 'wsum').is_positive for o in good), fa)
    check_divisors(g, good, fa, 'wtd add: every divisor is non-zero (wsum > 0 for a non-empty summary)')
    check_nowrap(g, good, fa)
    # add on empty
    st = State()
    e = cx.fresh(st, 'E', True)
    good, bad = cx.run('cmb_wtdsummary_add', [vptr(e), vreal(x), vreal(w)], st)
    S = singleton(x, w)
    check_fields(g, 'wtd add(x,w) on the empty summary = the weighted singleton {(x,w)}', good, e,
                 dict(wexp(S), count=sp.Integer(1), min=x, max=x), fa)
    # zero weight changes nothing (non-empty and empty)
    for label, weighted_empty in (('non-empty', False), ('empty', True)):
        st = State()
        if weighted_empty:
            a0 = cx.fresh(st, 'E', True)
            cnt = sp.Integer(0)
        else:
            a0, A0 = cx.summary(st, 'A', 'A', True)
            cnt = A0['count']
        before = dict(st.objs[a0])
        good, bad = cx.run('cmb_wtdsummary_add', [vptr(a0), vreal(x), vreal(sp.Integer(0))], st)
        g.ob('zero-weight sample on a %s summary changes no field and returns the old count' % label,
             bool(good) and not bad and all(same_object(o.state.objs[a0], before) and o.ret.e == cnt for o in good), fa)
    # negative weight: rejected
    st = State()
    a, A = cx.summary(st, 'A', 'A', True)
    good, bad = cx.run('cmb_wtdsummary_add', [vptr(a), vreal(x), vreal(sp.Symbol('wneg', negative=True))], st)
    g.ob('a negative weight is rejected: every path aborts at the assertion w >= 0.0',
         not good and all(o.state.abort[3] == 'w >= 0.0' for o in bad), fa)
    # merge
    res = {}
    for alias in ('fresh', 'tgt==ws1', 'tgt==ws2'):
        st = State()
        a, A = cx.summary(st, 'A', 'A', True)
        b, B = cx.summary(st, 'B', 'B', True)
        t = {'fresh': None, 'tgt==ws1': a, 'tgt==ws2': b}[alias]
        if t is None:
            cx.uid += 1
            t = st.new_object('T#%d' % cx.uid, {'__undef__': True})
        before = {k_: dict(v) for k_, v in st.objs.items()}
        good, bad = cx.run('cmb_wtdsummary_merge', [vptr(t), vptr(a), vptr(b)], st)
        g.ob('wtd merge [%s]: no assertion can fail (%d paths, %d aborting)' % (alias, len(good), len(bad)), bool(good) and not bad, fm,
             bad[0].state.trace if bad else None, {'aborting': abort_list(bad)})
        U = union(wd(A), wd(B))
        check_fields(g, 'wtd merge(A,B) [%s] = weighted moments of the union, every path' % alias, good, t, wexp(U), fm, WF)
        g.ob('wtd merge [%s]: count = nA + nB, returned' % alias,
             all(is_zero(fld(o, t, 'count') - (A['count'] + B['count']))[0] and is_zero(o.ret.e - (A['count'] + B['count']))[0] for o in good), fm)
        ok = all(fld(o, t, 'min') in (A['min'], B['min']) and implied_le(o.state.pc, fld(o, t, 'min'), A['min'])
                 and implied_le(o.state.pc, fld(o, t, 'min'), B['min'])
                 and fld(o, t, 'max') in (A['max'], B['max']) and implied_le(o.state.pc, A['max'], fld(o, t, 'max'))
                 and implied_le(o.state.pc, B['max'], fld(o, t, 'max')) for o in good)
        g.ob('wtd merge [%s]: min/max of the operands' % alias, ok, fm)
        others = [x_ for x_ in (a, b) if x_ != t]
        g.ob('wtd merge [%s]: operands other than the target are unchanged' % alias,
             all(same_object(o.state.objs[x_], before[x_]) for o in good for x_ in others), fm)
        if alias == 'fresh':
            check_divisors(g, good, fm, 'wtd merge: every divisor is non-zero when both operands are non-empty')
        res[alias] = (good, t)
    st = State()
    a, A = cx.summary(st, 'A', 'A', True)
    b, B = cx.summary(st, 'B', 'B', True)
    cx.uid += 1
    t = st.new_object('T#%d' % cx.uid, {'__undef__': True})
    good2, _ = cx.run('cmb_wtdsummary_merge', [vptr(t), vptr(b), vptr(a)], st)
    ok, det = True, None
    for f in WF + ('count',):
        for o1 in res['fresh'][0]:
            for o2 in good2:
                z, wv = is_zero(fld(o1, res['fresh'][1], f) - fld(o2, t, f))
                if z is not True:
                    ok, det = (False if z is False else None), {'field': f, 'witness': wv}
    g.ob('wtd merge is symmetric in its operands', ok, fm, good2[0].state.trace if det else None, det)
    # all weights one: identical to the unweighted code
    st = State()
    a, A = cx.summary(st, 'A', 'A', True, W=sp.Symbol('nA', integer=True, positive=True))
    gw, _ = cx.run('cmb_wtdsummary_add', [vptr(a), vreal(x), vreal(sp.Integer(1))], st)
    st = State()
    a2, A2 = cx.summary(st, 'A', 'A')
    gu, _ = cx.run('cmb_datasummary_add', [vptr(a2), vreal(x)], st)
    ok, det = bool(gw) and bool(gu), None
    for f in FIELDS:
        if f in ('min', 'max'):
            continue
        for o1 in gw:
            for o2 in gu:
                z, wv = is_zero(fld(o1, a, f) - fld(o2, a2, f))
                if z is not True:
                    ok, det = (False if z is False else None), {'field': f, 'witness': wv}
    g.ob('all weights one: wtd add(x, 1) on (fields, wsum = count) gives the same count and moments as the unweighted add(x)', ok, fa, None, det)
    g.ob('all weights one: wsum = count is preserved by wtd add(x, 1)', all(is_zero(fld(o, a, 'wsum') - fld(o, a, 'count'))[0] for o in gw), fa)
    st = State()
    e = cx.fresh(st, 'E', True)
    gw, _ = cx.run('cmb_wtdsummary_add', [vptr(e), vreal(x), vreal(sp.Integer(1))], st)
    st = State()
    e2 = cx.fresh(st, 'E')
    gu, _ = cx.run('cmb_datasummary_add', [vptr(e2), vreal(x)], st)
    ok = bool(gw) and bool(gu) and all(is_zero(fld(o1, e, f) - fld(o2, e2, f))[0] for o1 in gw for o2 in gu for f in MOM + ('count',)) \
        and all(fld(o1, e, 'wsum') == 1 and fld(o1, e, 'min') == x and fld(o1, e, 'max') == x for o1 in gw)
    g.ob('all weights one, first sample: wtd add(x, 1) on the empty summary = unweighted add(x) on the empty summary (moments, count), wsum = 1', ok, fa)
    st = State()
    a, A = cx.summary(st, 'A', 'A', True, W=sp.Symbol('nA', integer=True, positive=True))
    b, B = cx.summary(st, 'B', 'B', True, W=sp.Symbol('nB', integer=True, positive=True))
    cx.uid += 1
    t = st.new_object('T#%d' % cx.uid, {'__undef__': True})
    gw, _ = cx.run('cmb_wtdsummary_merge', [vptr(t), vptr(a), vptr(b)], st)
    st = State()
    a2, A2 = cx.summary(st, 'A', 'A')
    b2, B2 = cx.summary(st, 'B', 'B')
    cx.uid += 1
    t2 = st.new_object('T#%d' % cx.uid, {'__undef__': True})
    gu, _ = cx.run('cmb_datasummary_merge', [vptr(t2), vptr(a2), vptr(b2)], st)
    ok, det = bool(gw) and bool(gu), None
    for f in MOM + ('count',):
        for o1 in gw:
            for o2 in gu:
                z, wv = is_zero(fld(o1, t, f) - fld(o2, t2, f))
                if z is not True:
                    ok, det = (False if z is False else None), {'field': f, 'witness': wv}
    g.ob('all weights one: wtd merge on (wsum = count) operands gives the same count and moments as the unweighted merge, and wsum = count',
         ok and all(is_zero(fld(o, t, 'wsum') - fld(o, t, 'count'))[0] for o in gw), fm, None, det)
    # wrappers
    for wname, f in (('cmb_wtdsummary_mean', 'm1'), ('cmb_wtdsummary_min', 'min'), ('cmb_wtdsummary_max', 'max'), ('cmb_wtdsummary_count', 'count')):
        st = State()
        a, A = cx.summary(st, 'A', 'A', True)
        good, bad = cx.run(wname, [vptr(a)], st)
        g.ob('%s returns the field %s (m1 = the exact weighted mean by the add/merge obligations)' % (wname, f),
             bool(good) and not bad and all(o.ret.e == st.objs[a][f].e for o in good), cx.fn(wname))
    return g.done()


# =========================================================================== O1e
def scaled_pair(cx, st, c, n=None):
    """two weighted summaries of the same data, weights w_i and c*w_i. By the definitions
    (M_k = sum w (x-mu)^k, W = sum w, mu = sum w x / W): same count/mean/min/max, M_k and W times c."""
    a, A = cx.summary(st, 'A', 'A', True, n=n)
    s, S = cx.summary(st, 'S', 'A', True, n=n)
    o = st.objs[s]
    for k in (2, 3, 4):
        o['m%d' % k] = vreal(c * A['M'][k])
    o['wsum'] = vreal(c * A['W'])
    return a, A, s


def g_o1e_lemma(cx):
    g = Group('C17.O1e.scaling_lemma', cx.cmds, 'C17-O1')
    c = sp.Symbol('c', positive=True)
    x, w = sp.Symbol('x', real=True), sp.Symbol('w', positive=True)
    fa, fm = cx.fn('cmb_wtdsummary_add'), cx.fn('cmb_wtdsummary_merge')

    def scaled_ok(o1, id1, o2, id2):
        for f in ('count', 'm1', 'min', 'max'):
            z, wv = is_zero(fld(o1, id1, f) - fld(o2, id2, f))
            if z is not True and not (f in ('min', 'max')):
                return z, {'field': f, 'witness': wv}
        for f in ('m2', 'm3', 'm4', 'wsum'):
            z, wv = is_zero(c * fld(o1, id1, f) - fld(o2, id2, f))
            if z is not True:
                return z, {'field': f, 'witness': wv}
        return True, None

    st = State()
    a, A, s = scaled_pair(cx, st, c)
    g1, _ = cx.run('cmb_wtdsummary_add', [vptr(a), vreal(x), vreal(w)], st)
    g2, _ = cx.run('cmb_wtdsummary_add', [vptr(s), vreal(x), vreal(c * w)], st)
    ok, det = bool(g1) and bool(g2), None
    for o1 in g1:
        for o2 in g2:
            z, d = scaled_ok(o1, a, o2, s)
            if z is not True:
                ok, det = (False if z is False else None), d
    g.ob('scaling commutes with wtd add: add(x, c w) on the c-scaled summary = c-scaled result (count, m1 equal; m2..m4, wsum times c)', ok, fa, None, det)
    st = State()
    e1, e2 = cx.fresh(st, 'E', True), cx.fresh(st, 'F', True)
    g1, _ = cx.run('cmb_wtdsummary_add', [vptr(e1), vreal(x), vreal(w)], st)
    g2, _ = cx.run('cmb_wtdsummary_add', [vptr(e2), vreal(x), vreal(c * w)], st)
    ok = bool(g1) and bool(g2) and all(scaled_ok(o1, e1, o2, e2)[0] is True for o1 in g1 for o2 in g2)
    g.ob('scaling commutes with the first wtd add on an empty summary', ok, fa)
    st = State()
    a, A, s = scaled_pair(cx, st, c)
    b, B = cx.summary(st, 'B', 'B', True)
    sb, SB = cx.summary(st, 'SB', 'B', True)
    for k in (2, 3, 4):
        st.objs[sb]['m%d' % k] = vreal(c * B['M'][k])
    st.objs[sb]['wsum'] = vreal(c * B['W'])
    cx.uid += 1
    t1 = st.new_object('T#%d' % cx.uid, {'__undef__': True})
    cx.uid += 1
    t2 = st.new_object('T#%d' % cx.uid, {'__undef__': True})
    g1, _ = cx.run('cmb_wtdsummary_merge', [vptr(t1), vptr(a), vptr(b)], st)
    g2, _ = cx.run('cmb_wtdsummary_merge', [vptr(t2), vptr(s), vptr(sb)], st)
    ok, det = bool(g1) and bool(g2), None
    for o1 in g1:
        for o2 in g2:
            z, d = scaled_ok(o1, t1, o2, t2)
            if z is not True:
                ok, det = (False if z is False else None), d
    g.ob('scaling commutes with wtd merge', ok, fm, None, det)
    return g.done()


def g_o1e_scaling(cx):
    g = Group('C17.O1e.scaling', cx.cmds, 'C17-O1')
    c = sp.Symbol('c', positive=True)
    k = sp.Symbol('k', integer=True, nonnegative=True)
    for wname, minc in (('cmb_wtdsummary_mean', 1), ('cmb_wtdsummary_variance', 2), ('cmb_wtdsummary_stddev', 2),
                        ('cmb_wtdsummary_skewness', 3), ('cmb_wtdsummary_kurtosis', 4)):
        fn = cx.fn(wname)
        st = State()
        a, A, s = scaled_pair(cx, st, c, n=k + minc)
        g1, b1 = cx.run(wname, [vptr(a)], st)
        g2, b2 = cx.run(wname, [vptr(s)], st)
        verdict, det, tr = (bool(g1) and bool(g2) and not b1 and not b2), None, None
        for o1 in g1:
            for o2 in g2:
                z, wv = is_zero(o2.ret.e - o1.ret.e)
                if z is not True:
                    verdict = False if z is False else None
                    tr = o2.state.trace
                    det = {'value for weights w': gsym.short(o1.ret.e, 300), 'value for weights c*w': gsym.short(o2.ret.e, 300)}
                    if isinstance(wv, dict):
                        det.update({'residual (scaled - unscaled)': wv['residual'], 'counterexample': wv['point'], 'residual value there': wv['value']})
                    else:
                        det['note'] = str(wv)
        g.ob('%s is unchanged when every weight is multiplied by c > 0 (count = k + %d)' % (wname, minc), verdict, fn, tr, det)
    return g.done()


GROUPS = [('C17.O1.aborts', g_o1_abort),
          ('C17.O1a.merge', g_o1a_merge),
          ('C17.O1a.merge_empty1', lambda cx: g_o1a_empty(cx, False)),
          ('C17.O1a.merge_empty2', lambda cx: g_o1a_empty(cx, True)),
          ('C17.O1b.add', g_o1b_add),
          ('C17.O1c.accessors', g_o1c_accessors),
          ('C17.O1c.defined', g_o1c_defined),
          ('C17.O1d.weighted', g_o1d_weighted),
          ('C17.O1e.scaling_lemma', g_o1e_lemma),
          ('C17.O1e.scaling', g_o1e_scaling)]


def run_groups(repo, outdir, only=None):
    """-> (list of group dicts, exit status)"""
    t0 = time.time()
    try:
        cx = Ctx(repo, outdir)
    except ExtractionBreak as e:
        return [{'id': gid, 'status': 'error', 'reason': 'EXTRACTION BREAK: %s' % e, 'seconds': 0, 'backend': 'sympy',
                 'cmds': [], 'obligations': [], 'traces': {}, 'native': {}} for gid, _ in GROUPS if not only or only in gid], 2
    out, status = [], 0
    for gid, f in GROUPS:
        if only and only not in gid:
            continue
        t1 = time.time()
        try:
            out.append(f(cx))
        except ExtractionBreak as e:
            out.append({'id': gid, 'status': 'error', 'reason': 'EXTRACTION BREAK: %s' % e, 'seconds': round(time.time() - t1, 2),
                        'backend': 'sympy', 'cmds': cx.cmds, 'obligations': [], 'traces': {}, 'native': {}})
            status = 2
        except Exception as e:
            out.append({'id': gid, 'status': 'error', 'reason': 'internal error: %s' % traceback.format_exc()[-1500:],
                        'seconds': round(time.time() - t1, 2), 'backend': 'sympy', 'cmds': cx.cmds, 'obligations': [],
                        'traces': {}, 'native': {}})
            status = max(status, 3)
    if status == 0 and any(g['status'] != 'ok' for g in out):
        status = 1
    return out, status


if __name__ == '__main__':
    if len(sys.argv) < 3:
        print(__doc__)
        sys.exit(3)
    groups, status = run_groups(sys.argv[1], sys.argv[2], sys.argv[3] if len(sys.argv) > 3 else None)
    json.dump({'groups': groups}, sys.stdout, indent=1)
    print()
    sys.exit(status)
