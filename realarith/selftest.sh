#!/bin/bash
# selftest.sh [repo] - teeth of the C17 checker: every mutation of a scratch COPY of the sources
# must make a NAMED obligation fail (and the unmutated copy must pass the same groups).
# Nothing under the repository is modified. Exit status 0 iff every mutant is killed.
REPO=${1:-/repo}
HERE=$(cd "$(dirname "$0")" && pwd)
PY=/usr/local/bin/python3-vt
WORK=$(mktemp -d /tmp/c17-selftest.XXXXXX)
trap 'rm -rf "$WORK"' EXIT
fail=0

fresh_copy() {    # $1 = name -> $WORK/$1 with include/ and src/
    mkdir -p "$WORK/$1"
    cp -r "$REPO/include" "$REPO/src" "$WORK/$1/"
}

mutate() {        # $1 = copy, $2 = file, $3 = exact old text, $4 = new text (must occur exactly once)
    $PY - "$WORK/$1/$2" "$3" "$4" <<'EOF'
import sys
p, old, new = sys.argv[1:4]
s = open(p).read()
if s.count(old) != 1:
    sys.exit('mutation site %r occurs %d times in %s' % (old, s.count(old), p))
open(p, 'w').write(s.replace(old, new))
EOF
}

# expect <copy> <run.py options> <group id> <regex over failing obligation descriptions> <want native: yes|no|any>
expect() {
    local name=$1 opts=$2 gid=$3 rx=$4 native=$5
    $PY "$HERE/run.py" "$WORK/$name" "$WORK/$name.out" $opts > "$WORK/$name.json" 2> "$WORK/$name.err"
    local rc=$?
    $PY - "$WORK/$name.json" "$gid" "$rx" "$native" "$name" "$rc" <<'EOF'
import json, re, sys
path, gid, rx, native, name, rc = sys.argv[1:7]
d = json.load(open(path))
g = [x for x in d['groups'] if x['id'] == gid]
if not g:
    print('%-22s SURVIVED  group %s not in the output' % (name, gid)); sys.exit(1)
g = g[0]
if rx == 'OK':
    ok = g['status'] == 'ok'
    print('%-22s %-8s  %s: status %s, %d obligations' % (name, 'ok' if ok else 'BROKEN', gid, g['status'], len(g['obligations'])))
    sys.exit(0 if ok else 1)
if rx == 'BREAK':
    ok = g['status'] == 'error' and 'EXTRACTION BREAK' in g['reason'] and rc == '2'
    print('%-22s %-8s  %s: %s (exit %s)' % (name, 'killed' if ok else 'SURVIVED', gid, g['reason'][:150].replace('\n', ' '), rc))
    sys.exit(0 if ok else 1)
hits = [o for o in g['obligations'] if o['status'] == 'FAILURE' and re.search(rx, o['desc'])]
nat = [g['native'].get(o['name'], {}).get('reproduced') for o in hits]
ok = bool(hits) and (native == 'any' or all(n == (native == 'yes') for n in nat))
print('%-22s %-8s  %s' % (name, 'killed' if ok else 'SURVIVED', gid))
for o in hits[:3]:
    res = [t for t in g['traces'].get(o['name'], []) if t[0].startswith('residual') or t[0] in ('counterexample', 'FAILED')]
    print('      FAILURE %s  "%s"  native reproduced: %s' % (o['name'], o['desc'][:110], g['native'].get(o['name'], {}).get('reproduced')))
    for t in res[:2]:
        print('              %s = %s' % (t[0], str(t[1])[:140]))
sys.exit(0 if ok else 1)
EOF
    [ $? -eq 0 ] || fail=1
}

echo "== baseline: unmutated scratch copy"
fresh_copy base
expect base "--no-cbmc --only C17.O1a.merge" C17.O1a.merge OK any
expect base "--no-cbmc --only C17.O1b.add" C17.O1b.add OK any
expect base "--no-cbmc --only C17.O1c.accessors" C17.O1c.accessors OK any
expect base "--no-cbmc --only C17.O1d.weighted" C17.O1d.weighted OK any

echo "== mutants"
fresh_copy m1
mutate m1 src/cmb_datasummary.c "- 6.0 * d_n_2 * dsp->m2" "- 4.0 * d_n_2 * dsp->m2"
expect m1 "--no-cbmc --only C17.O1b.add" C17.O1b.add 'add\(y\) on exact fields.*: m4' yes

fresh_copy m1b
mutate m1b src/cmb_datasummary.c "+ 6.0 * (n1 * n1 * dsp2->m2" "+ 4.0 * (n1 * n1 * dsp2->m2"
expect m1b "--no-cbmc --only C17.O1a.merge" C17.O1a.merge 'moments of the union.*: m4' yes

fresh_copy m2
mutate m2 src/cmb_datasummary.c "n1 * n2 * (n1 - n2) * d21 * d21_n_2" "n1 * n2 * (n2 - n1) * d21 * d21_n_2"
expect m2 "--no-cbmc --only C17.O1a.merge" C17.O1a.merge 'moments of the union.*: m3' yes

fresh_copy m3
mutate m3 include/cmb_datasummary.h "r = dsp->m2 / (double)(dsp->count - 1u);" "r = dsp->m2 / (double)(dsp->count);"
expect m3 "--no-cbmc --only C17.O1c.accessors" C17.O1c.accessors 'variance, count = k \+ 2.*definition' yes

fresh_copy m3b
mutate m3b src/cmb_datasummary.c "r = sqrt(dn * (dn - 1.0)) * g / (dn - 2.0);" "r = sqrt(dn * dn) * g / (dn - 2.0);"
expect m3b "--no-cbmc --only C17.O1c.accessors" C17.O1c.accessors 'skewness, count = k \+ 3.*definition' yes

fresh_copy m4
mutate m4 src/cmb_wtdsummary.c "- 3.0 * w2 * dsp->m2 * d21_w;" "+ 3.0 * w2 * dsp->m2 * d21_w;"
expect m4 "--no-cbmc --only C17.O1d.weighted" C17.O1d.weighted 'wtd add\(x,w\).*: m3' yes

fresh_copy m5
mutate m5 src/cmb_wtdsummary.c "    if (w == 0.0) {
        return dsp->count;
    }" "    if (w == 0.0) {
        dsp->count++;
        return dsp->count;
    }"
expect m5 "--no-cbmc --only C17.O1d.weighted" C17.O1d.weighted 'zero-weight sample' any

fresh_copy m6
mutate m6 src/cmb_datasummary.c "dsp->min = (y < dsp->min) ? y : dsp->min;" "dsp->min = (y > dsp->min) ? y : dsp->min;"
expect m6 "--no-sympy --only C17.O2.ds_add" C17.O2.ds_add 'min is the exact minimum' any

# extraction breaks: a statement form / a loop the executor does not know must stop the run (exit 2), never be skipped
fresh_copy m7
mutate m7 src/cmb_datasummary.c "    const double d = y - dsp->m1;" "    dsp->count |= 1u;
    const double d = y - dsp->m1;"
expect m7 "--no-cbmc --only C17.O1b.add" C17.O1b.add BREAK any

fresh_copy m8
mutate m8 src/cmb_datasummary.c "    const double d = y - dsp->m1;" "    for (int i = 0; i < 2; i++) { dsp->m1 += 0.5; }
    const double d = y - dsp->m1;"
expect m8 "--no-cbmc --only C17.O1b.add" C17.O1b.add BREAK any

if [ $fail -eq 0 ]; then echo "SELFTEST PASSED: every mutant killed by a named obligation"; else echo "SELFTEST FAILED"; fi
exit $fail
