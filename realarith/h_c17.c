/*
 * h_c17.c - C17 O2: bit-precise (IEEE double, CBMC) obligations on the REAL cmb_datasummary.c and
 * cmb_wtdsummary.c of the working tree. Every entry point is loop-free.
 *
 *   goto-cc -I/verif/harness -I<repo> -I<repo>/include -I<repo>/src --function h_<x> h_c17.c
 *
 * cmv_common.h turns every cmb_assert_release/_debug of the library into an obligation
 * followed by an assumption. Substituted library functions: none, except with -DC17_ABSTRACT_POW
 * (entry h_acc_skew_kurt only): pow() is replaced by its sign/zero contract (see below).
 * Every entry ends in a CANARY that must FAIL (reachability / non-vacuity).
 */
#include "cmv_common.h"
#include <float.h>
#include "src/cmb_datasummary.c"
#include "src/cmb_wtdsummary.c"

#define T "C17-O2"
#define FIN(x) (!isnan(x) && !isinf(x))     /* CBMC has no body for __builtin_isfinite */

static int same_bits(double a, double b)
{
    union { double d; uint64_t u; } x, y;
    x.d = a; y.d = b;
    return x.u == y.u;
}

static int ds_same_bits(const struct cmb_datasummary *a, const struct cmb_datasummary *b)
{
    return a->cookie == b->cookie && a->count == b->count && same_bits(a->min, b->min)
        && same_bits(a->max, b->max) && same_bits(a->m1, b->m1) && same_bits(a->m2, b->m2)
        && same_bits(a->m3, b->m3) && same_bits(a->m4, b->m4);
}

/* an arbitrary initialised summary: the cookie comes from the real initialiser */
static void any_ds(struct cmb_datasummary *d)
{
    cmb_datasummary_initialize(d);
    d->count = nondet_u64();
    d->min = nondet_double(); d->max = nondet_double();
    d->m1 = nondet_double(); d->m2 = nondet_double(); d->m3 = nondet_double(); d->m4 = nondet_double();
}

static void any_ws(struct cmb_wtdsummary *w)
{
    cmb_wtdsummary_initialize(w);
    any_ds(&w->ds);
    w->wsum = nondet_double();
}

#define IS_MIN(r, a, b) ((r) <= (a) && (r) <= (b) && ((r) == (a) || (r) == (b)))
#define IS_MAX(r, a, b) ((r) >= (a) && (r) >= (b) && ((r) == (a) || (r) == (b)))

/* ---------------------------------------------------------------- add: count, min, max */
void h_ds_add(void)
{
    struct cmb_datasummary s;
    any_ds(&s);
    ASSUME(!isnan(s.min) && !isnan(s.max));
    ASSUME(s.count < UINT64_MAX);
    const double y = nondet_double();
    ASSUME(!isnan(y));
    const struct cmb_datasummary o = s;
    const uint64_t r = cmb_datasummary_add(&s, y);
    OBT(T, s.count == o.count + 1u, "add: count increments by exactly 1");
    OBT(T, r == s.count, "add: returns the updated count");
    OBT(T, IS_MIN(s.min, o.min, y), "add: min is the exact minimum of the old min and y (non-NaN)");
    OBT(T, IS_MAX(s.max, o.max, y), "add: max is the exact maximum of the old max and y (non-NaN)");
    OBT(T, s.cookie == o.cookie, "add: the summary stays initialised");
    CANARY("h_ds_add end");
}

/* ---------------------------------------------------------------- zero weight: nothing changes */
void h_wtd_zero(void)
{
    struct cmb_wtdsummary s;
    any_ws(&s);                             /* any field values, NaN included */
    const double x = nondet_double();
    struct cmb_wtdsummary o = s;
    uint64_t r = cmb_wtdsummary_add(&s, x, 0.0);
    OBT(T, ds_same_bits(&s.ds, &o.ds) && same_bits(s.wsum, o.wsum), "zero-weight sample (w = +0.0) changes no bit of the summary");
    OBT(T, r == o.ds.count, "zero-weight sample (w = +0.0): returns the unchanged count");
    r = cmb_wtdsummary_add(&s, x, -0.0);
    OBT(T, ds_same_bits(&s.ds, &o.ds) && same_bits(s.wsum, o.wsum), "zero-weight sample (w = -0.0) changes no bit of the summary");
    OBT(T, r == o.ds.count, "zero-weight sample (w = -0.0): returns the unchanged count");
    CANARY("h_wtd_zero end");
}

/* ---------------------------------------------------------------- weighted add: count, min, max */
void h_wtd_add(void)
{
    struct cmb_wtdsummary s;
    any_ws(&s);
    ASSUME(!isnan(s.ds.min) && !isnan(s.ds.max));
    ASSUME(s.ds.count < UINT64_MAX);
    const double x = nondet_double(), w = nondet_double();
    ASSUME(!isnan(x));
    ASSUME(w > 0.0 && !isinf(w));
    /* invariant of the weighted summary (O1d): a non-empty summary has wsum > 0 */
    ASSUME(s.ds.count == 0u || (s.wsum > 0.0 && !isinf(s.wsum)));
    const struct cmb_wtdsummary o = s;
    const uint64_t r = cmb_wtdsummary_add(&s, x, w);
    OBT(T, s.ds.count == o.ds.count + 1u, "wtd add (w > 0): count increments by exactly 1");
    OBT(T, r == s.ds.count, "wtd add (w > 0): returns the updated count");
    if (o.ds.count == 0u) {
        OBT(T, s.ds.min == x && s.ds.max == x, "wtd add, first sample: min = max = x");
        OBT(T, s.ds.m1 == x && s.wsum == w && s.ds.m2 == 0.0 && s.ds.m3 == 0.0 && s.ds.m4 == 0.0,
            "wtd add, first sample: mean = x, wsum = w, m2 = m3 = m4 = 0 exactly");
    } else {
        OBT(T, IS_MIN(s.ds.min, o.ds.min, x), "wtd add: min is the exact minimum of the old min and x (non-NaN)");
        OBT(T, IS_MAX(s.ds.max, o.ds.max, x), "wtd add: max is the exact maximum of the old max and x (non-NaN)");
    }
    CANARY("h_wtd_add end");
}

/* ---------------------------------------------------------------- merge: count, min, max, aliasing */
void h_merge_basic(void)
{
    struct cmb_datasummary a, b, t;
    any_ds(&a); any_ds(&b);
    ASSUME(!isnan(a.min) && !isnan(a.max) && !isnan(b.min) && !isnan(b.max));
    ASSUME(a.count <= UINT64_MAX - b.count);
    /* representation invariant of a valid summary: an empty one has the extrema that initialize sets
     * (add is the only other writer of min/max) */
    ASSUME(a.count != 0u || (a.min == DBL_MAX && a.max == -DBL_MAX));
    ASSUME(b.count != 0u || (b.min == DBL_MAX && b.max == -DBL_MAX));
    const struct cmb_datasummary oa = a, ob = b;
    const _Bool into_a = nondet_bool(), into_b = nondet_bool();
    struct cmb_datasummary *tgt = into_a ? &a : (into_b ? &b : &t);
    const uint64_t r = cmb_datasummary_merge(tgt, &a, &b);
    OBT(T, tgt->count == oa.count + ob.count && r == tgt->count, "merge (target fresh / = dsp1 / = dsp2): count is the sum, returned");
    OBT(T, IS_MIN(tgt->min, oa.min, ob.min), "merge: min is the exact minimum of the operands' minima");
    OBT(T, IS_MAX(tgt->max, oa.max, ob.max), "merge: max is the exact maximum of the operands' maxima");
    OBT(T, tgt == &a || ds_same_bits(&a, &oa), "merge: dsp1 is not written unless it is the target");
    OBT(T, tgt == &b || ds_same_bits(&b, &ob), "merge: dsp2 is not written unless it is the target");
    CANARY("h_merge_basic end");
}

/* ---------------------------------------------------------------- merge with ONE empty operand */
#ifndef C17_M1_BOUND
#define C17_M1_BOUND 1.0e100
#endif
static void nonempty_finite(struct cmb_datasummary *a)
{
    any_ds(a);
    ASSUME(a->count >= 1u);
    ASSUME(FIN(a->min) && FIN(a->max) && FIN(a->m2) && FIN(a->m3) && FIN(a->m4));
    /* |mean| <= 1e100: beyond |mean|/n > 5.6e102 the cube (d21/n)^3 overflows and 0*inf = NaN */
    ASSUME(a->m1 >= -C17_M1_BOUND && a->m1 <= C17_M1_BOUND);
}

void h_merge_empty_right(void)
{
    struct cmb_datasummary a, e, t;
    nonempty_finite(&a);
    cmb_datasummary_initialize(&e);
    const uint64_t r = cmb_datasummary_merge(&t, &a, &e);
    OBT(T, t.count == a.count && r == a.count, "merge(A, empty): count of A");
    OBT(T, t.min == a.min && t.max == a.max, "merge(A, empty): min and max of A");
    OBT(T, t.m1 == a.m1, "merge(A, empty): mean of A, exactly");
    OBT(T, t.m2 == a.m2, "merge(A, empty): m2 of A, exactly");
    OBT(T, t.m3 == a.m3, "merge(A, empty): m3 of A, exactly");
    OBT(T, t.m4 == a.m4, "merge(A, empty): m4 of A, exactly");
    CANARY("h_merge_empty_right end");
}

void h_merge_empty_left(void)
{
    struct cmb_datasummary a, e, t;
    nonempty_finite(&a);
    cmb_datasummary_initialize(&e);
    const uint64_t r = cmb_datasummary_merge(&t, &e, &a);
    OBT(T, t.count == a.count && r == a.count, "merge(empty, A): count of A");
    OBT(T, t.min == a.min && t.max == a.max, "merge(empty, A): min and max of A");
    OBT(T, !isnan(t.m1), "merge(empty, A): mean is not NaN (it is n*(mean/n): equal to A's mean only up to rounding, exact over the reals by O1a)");
    OBT(T, t.m2 == a.m2, "merge(empty, A): m2 of A, exactly");
    OBT(T, t.m3 == a.m3, "merge(empty, A): m3 of A, exactly");
    OBT(T, t.m4 == a.m4, "merge(empty, A): m4 of A, exactly");
    CANARY("h_merge_empty_left end");
}

/* ---------------------------------------------------------------- merge of TWO empty summaries */
void h_merge_empty2(void)
{
    struct cmb_datasummary a, b, t;
    cmb_datasummary_initialize(&a);
    cmb_datasummary_initialize(&b);
    const uint64_t r = cmb_datasummary_merge(&t, &a, &b);
    OBT(T, t.count == 0u && r == 0u, "merge(empty, empty): count 0");
    OBT(T, t.min == DBL_MAX && t.max == -DBL_MAX, "merge(empty, empty): min/max sentinels of the empty summary");
    OBT(T, !isnan(t.m1), "merge(empty, empty): mean is not NaN");
    OBT(T, !isnan(t.m2) && !isnan(t.m3) && !isnan(t.m4), "merge(empty, empty): m2, m3, m4 are not NaN");
    OBT(T, ds_same_bits(&t, &a), "merge(empty, empty) is the empty summary");
    CANARY("h_merge_empty2 end");
}

void h_wtd_merge_empty2(void)
{
    struct cmb_wtdsummary a, b, t;
    cmb_wtdsummary_initialize(&a);
    cmb_wtdsummary_initialize(&b);
    const uint64_t r = cmb_wtdsummary_merge(&t, &a, &b);
    OBT(T, t.ds.count == 0u && r == 0u && t.wsum == 0.0, "wtd merge(empty, empty): count 0, wsum 0");
    OBT(T, !isnan(t.ds.m1), "wtd merge(empty, empty): mean is not NaN");
    OBT(T, !isnan(t.ds.m2) && !isnan(t.ds.m3) && !isnan(t.ds.m4), "wtd merge(empty, empty): m2, m3, m4 are not NaN");
    CANARY("h_wtd_merge_empty2 end");
}

/* ---------------------------------------------------------------- accessors on 0..4 samples */
/* A summary of 0..4 samples as add leaves it: m2 is a sum of squares (>= 0, and exactly 0 for
 * fewer than two samples: d*(d - d/1) = d*0). The float-div-by-zero check of CBMC turns every
 * division in the accessors into an obligation. */
static void small_ds(struct cmb_datasummary *d)
{
    any_ds(d);
    ASSUME(d->count <= 4u);
    ASSUME(d->m2 >= 0.0 && FIN(d->m2) && FIN(d->m3) && FIN(d->m4) && d->m4 >= 0.0);
    /* m2 = 0 iff all samples are equal (always so below two samples), and then m3 = m4 = 0 */
    if (d->count < 2u) { ASSUME(d->m2 == 0.0); }
    if (d->m2 == 0.0) { ASSUME(d->m3 == 0.0 && d->m4 == 0.0); }
}

void h_acc_variance(void)
{
    struct cmb_datasummary s;
    small_ds(&s);
    const double v = cmb_datasummary_variance(&s);
    OBT(T, s.count >= 2u || v == 0.0, "variance of fewer than 2 samples is 0.0");
    OBT(T, v >= 0.0, "variance is non-negative and not NaN");
    CANARY("h_acc_variance end");
}

#ifdef C17_ABSTRACT_POW
/* Contract of pow(x, 1.5) used instead of the bit-level model: NaN for x < 0, 0 for x = 0,
 * a non-negative number otherwise (it may underflow to 0 for tiny x). */
double pow(double x, double y)
{
    __CPROVER_assert(y == 1.5, "abstract pow: only the exponent 1.5 is modelled");
    if (isnan(x) || x < 0.0) return NAN;
    if (x == 0.0) return 0.0;
    double r = nondet_double();
    ASSUME(r >= 0.0);
    return r;
}
double sqrt(double x)
{
    if (isnan(x) || x < 0.0) return NAN;
    if (x == 0.0) return x;
    double r = nondet_double();
    ASSUME(r > 0.0);
    return r;
}
#endif

void h_acc_skew_kurt(void)
{
    struct cmb_datasummary s;
    small_ds(&s);
    const double sk = cmb_datasummary_skewness(&s);
    const double ku = cmb_datasummary_kurtosis(&s);
    OBT(T, s.count >= 3u || sk == 0.0, "skewness of fewer than 3 samples is 0.0");
    OBT(T, s.count >= 4u || ku == 0.0, "kurtosis of fewer than 4 samples is 0.0");
    CANARY("h_acc_skew_kurt end");
}
