/*
 * procs.c - the blocking calls of the process layer under contract (C04, C06-O2/O3, C08-O3, C09).
 *
 * Real code: src/cmb_process.c, src/cmb_event.c, src/cmb_resourceguard.c (working tree), on top of
 * the hashheap contract stub (hhstub.h).  The coroutine layer is replaced by the WAKER MODEL:
 *
 *   cmi_coroutine_yield()   = the dispatcher: the REAL cmb_event_execute_next() runs the REAL
 *                             pending wake-up actions (wakeup_event_time / _process / _event /
 *                             _resource / _interrupt, resume_event) in the order the real event
 *                             queue gives them, until one of them resumes the calling process;
 *   cmi_coroutine_resume(p) = records that p is resumed and with which signal.
 *
 * The pre-state of every scenario is built with the real API (arming user timers, posting
 * interrupts / resumes, other processes queued at the guard or waiting for the same target, the
 * awaited process ending, the guard being signalled), with ARBITRARY times, priorities and
 * signals - so every coincidence on the same simulated instant and every firing order is covered.
 * Bounded-shape: at most 2 foreign causes per scenario.
 */
#include "cmv_common.h"
#include "cmi_mempool.h"
#include "gqstub.h"            /* contract stub of the hashheap for the guard queues */
#include "cmb_process.h"
#include "cmi_process.h"
#include "cmb_resourceguard.h"
#include "cmi_resourcebase.h"
#include "cmi_holdable.h"
#include "evstub.h"            /* contract stub of the event queue (established by the C01 groups) */

/* tag pools: cmi_mempool_alloc / _free are redirected (goto-instrument --replace-calls) to plain
 * allocation - the contract C20 establishes: an object distinct from every live one, given back on
 * free - which also turns any use of a freed tag into a reported error */
void cmi_mempool_expand(struct cmi_mempool *mp) { __CPROVER_assert(0, "harness: pool alloc is redirected"); }
void *cmv_pool_alloc(struct cmi_mempool *mp) { __CPROVER_assert(mp != NULL, "mempool alloc: pool non-NULL"); return malloc(mp->obj_sz); }
void cmv_pool_free(struct cmi_mempool *mp, void *op) { __CPROVER_assert(mp != NULL && op != NULL, "mempool free: arguments non-NULL"); free(op); }

/* ---- coroutine layer: waker model ----------------------------------------------------------- */
CMB_THREAD_LOCAL struct cmi_coroutine *coroutine_main;
CMB_THREAD_LOCAL struct cmi_coroutine *coroutine_current;
static struct cmb_process *P, *Q, *W;          /* caller, another process, a third one */
static _Bool cmv_p_resumed; static int64_t cmv_p_sig; static unsigned cmv_p_nresumes;
static unsigned cmv_q_nresumes, cmv_w_nresumes; static int64_t cmv_q_sig, cmv_w_sig;
static double cmv_resume_time;
static _Bool cmv_in_yield, cmv_left_suspended;
static unsigned cmv_nyields;

extern double cmb_time(void);

void *cmi_coroutine_resume(struct cmi_coroutine *cp, void *arg)
{
    __CPROVER_assert(cp != NULL && cp->status == CMI_COROUTINE_RUNNING, "cmi_coroutine_resume precondition (release assert in the real code): target is RUNNING");
    __CPROVER_assume(cp->status == CMI_COROUTINE_RUNNING);
    if (cp == (struct cmi_coroutine *)P) {
        OBT("C04-O4", cmv_in_yield, "the calling process is resumed only while it is suspended in a blocking call");
        OBT("C04-O4", !cmv_p_resumed, "a suspended process is resumed once per suspension");
        cmv_p_resumed = 1; cmv_p_sig = (int64_t)arg; cmv_resume_time = cmb_time();
        if (cmv_p_nresumes < 3u) cmv_p_nresumes++;
    } else if (cp == (struct cmi_coroutine *)Q) { if (cmv_q_nresumes < 3u) cmv_q_nresumes++; cmv_q_sig = (int64_t)arg; }
    else if (cp == (struct cmi_coroutine *)W) { if (cmv_w_nresumes < 3u) cmv_w_nresumes++; cmv_w_sig = (int64_t)arg; }
    return NULL;
}
/* forward declarations of the real wakers (static functions of the included files) */
static void wakeup_event_time(void *vp, void *arg);
static void wakeup_event_process(void *vp, void *arg);
static void wakeup_event_interrupt(void *vp, void *arg);
static void resume_event(void *vp, void *arg);
static void wakeup_event_event(void *vp, void *arg);
static void wakeup_event_resource(void *vp, void *arg);
static void cmv_env(void);                      /* scenario-specific environment step */

void *cmi_coroutine_yield(void *msg)
{
    __CPROVER_assert(coroutine_current == (struct cmi_coroutine *)P, "harness: only the calling process yields");
    if (cmv_nyields < 3u) cmv_nyields++;
    cmv_in_yield = 1; cmv_p_resumed = 0;
    coroutine_current = coroutine_main;
    /* (1) the environment acts (other processes, other events), through the real API */
    cmv_env();
    /* (2) the dispatcher reaches the FIRST pending event addressed to the caller (first in the real
     *     event order among the caller's events); events of other subjects that come before it are
     *     the environment step above.  The real execute_next is emulated for that one event: it is
     *     taken out of the queue into slot 0, the clock advances to its time, its REAL action runs
     *     (called directly: no function-pointer fan-out). */
    int k = -1;
    for (int c = CMV_NEV - 1; c >= 0; c--)
        if (EV[c].live && EV[c].subject == (void *)P && (k < 0 || cmv_ev_before(c, k))) k = c;
    if (k < 0) {
        /* nothing pending for the caller: it stays suspended */
        cmv_left_suspended = 1;
        coroutine_current = (struct cmi_coroutine *)P; cmv_in_yield = 0;
        __CPROVER_assume(0);
    }
    struct cmv_ev ev;
    for (int c = 0; c < CMV_NEV; c++) if (c == k) { ev = EV[c]; EV[c].live = 0; }
    __CPROVER_assert(ev.t >= cmv_now, "I-EVT: pending times are never before the clock");
    cmv_now = ev.t; cmv_current = ev.h;
    if (ev.waiters.next != NULL) { struct cmi_slist_head w = ev.waiters; cmv_wake_event_waiters(&w, CMB_PROCESS_SUCCESS); }
    void *act = (void *)ev.action;
    if (act == (void *)wakeup_event_time) wakeup_event_time(ev.subject, ev.object);
    else if (act == (void *)wakeup_event_interrupt) wakeup_event_interrupt(ev.subject, ev.object);
    else if (act == (void *)resume_event) resume_event(ev.subject, ev.object);
    else if (act == (void *)wakeup_event_process) wakeup_event_process(ev.subject, ev.object);
    else if (act == (void *)wakeup_event_event) wakeup_event_event(ev.subject, ev.object);
    else if (act == (void *)wakeup_event_resource) wakeup_event_resource(ev.subject, ev.object);
    else __CPROVER_assert(0, "harness: unknown action addressed to the caller");
    coroutine_current = (struct cmi_coroutine *)P;
    cmv_in_yield = 0;
    OBT("C04-O4", cmv_p_resumed, "a wake-up action addressed to a suspended, running process resumes it");
    __CPROVER_assume(cmv_p_resumed);
    return (void *)cmv_p_sig;
}
static unsigned cmv_nexit, cmv_nstop; static void *cmv_exit_val;
static void cmv_at_exit(void);           /* scenario-specific obligations at the point of no return */
void cmi_coroutine_exit(void *retval)
{
    if (cmv_nexit < 2u) cmv_nexit++; cmv_exit_val = retval;
    coroutine_current->exit_value = retval; coroutine_current->status = CMI_COROUTINE_FINISHED;
    /* the real function transfers to the parent and never comes back: whatever has not been
     * cleaned up by now never will be */
    cmv_at_exit();
    __CPROVER_assume(0);
}
void cmi_coroutine_stop(struct cmi_coroutine *cp, void *retval)
{
    __CPROVER_assert(cp != NULL && cp->status == CMI_COROUTINE_RUNNING, "cmi_coroutine_stop precondition (release assert in the real code): target is RUNNING");
    if (cmv_nstop < 2u) cmv_nstop++;
    if (cp == coroutine_current) { cmi_coroutine_exit(retval); }
    else { cp->exit_value = retval; cp->status = CMI_COROUTINE_FINISHED; }
}
void *cmi_coroutine_start(struct cmi_coroutine *cp, void *msg) { cp->status = CMI_COROUTINE_RUNNING; return NULL; }
void cmi_coroutine_initialize(struct cmi_coroutine *cp, cmi_coroutine_func *f, void *ctx, cmi_coroutine_exit_func *e, size_t sz) { cp->status = CMI_COROUTINE_CREATED; }
void cmi_coroutine_terminate(struct cmi_coroutine *cp) { }

#include "src/cmb_process.c"
#include "src/cmb_resourceguard.c"
#include "extract/wakeup_event_event.inc"   /* the one process-layer waker that lives in cmb_event.c, extracted verbatim */

/* ---- helpers ------------------------------------------------------------------------------ */
static struct cmb_process *mkproc(void)
{
    struct cmb_process *x = malloc(sizeof *x);
    x->core.status = CMI_COROUTINE_RUNNING; x->core.exit_value = NULL; x->core.parent = NULL; x->core.caller = NULL;
    x->priority = nondet_i64();
    x->awaits.next = NULL; x->waiters.next = NULL; x->resources.next = NULL;
    x->name[0] = 'p'; x->name[1] = 0;
    return x;
}
static void pool_init(struct cmi_mempool *mp, size_t sz)
{
    mp->cookie = CMI_INITIALIZED; mp->obj_sz = sz; mp->incr_num = 128u; mp->incr_sz = 0; mp->chunk_list_len = 0; mp->chunk_list_cnt = 0; mp->chunk_list = NULL; mp->next_obj = NULL;
}
static struct cmb_resourceguard *G1;
static struct cmi_resourcebase *RB;
static _Bool cmv_demand_now;            /* what the demand function of the caller's entry returns */
static unsigned cmv_ndemand;
static bool cmv_demand(const struct cmi_resourcebase *rbp, const struct cmb_process *pp, const void *ctx) { if (cmv_ndemand < 3u) cmv_ndemand++; return cmv_demand_now; }

static void setup(void)
{
    cmv_gq_n = 0; cmv_p_resumed = 0; cmv_p_nresumes = 0; cmv_q_nresumes = 0; cmv_w_nresumes = 0; cmv_in_yield = 0; cmv_nyields = 0;
    cmv_nexit = 0; cmv_nstop = 0; cmv_ndemand = 0;
    pool_init(&cmi_process_awaitabletags, sizeof(struct cmi_process_awaitable));
    pool_init(&cmi_process_holdabletags, sizeof(struct cmi_process_holdable));
    pool_init(&cmi_process_waitertags, sizeof(struct cmi_process_waiter));
    pool_init(&observer_tagpool, sizeof(struct observer_tag));
#ifdef CMV_T0_SYMBOLIC
    double t0 = nondet_double(); ASSUME(t0 == t0 && t0 > -1e300 && t0 < 1e300);
#else
    double t0 = 0.0;      /* quick tier: the clock at the call is 0 (floating-point additions with a symbolic clock make the queries intractable); thorough tier: symbolic */
#endif
    cmv_now = t0; cmv_current = nondet_u64();
    cmv_counter = nondet_u64(); ASSUME(cmv_counter < UINT64_MAX - 16u);
    for (int i = 0; i < CMV_NEV; i++) EV[i].live = 0;
    P = mkproc(); Q = mkproc(); W = mkproc();
    coroutine_main = (struct cmi_coroutine *)mkproc();
    coroutine_current = (struct cmi_coroutine *)P;
    RB = malloc(sizeof *RB); RB->cookie = CMI_INITIALIZED; RB->name[0] = 'r'; RB->name[1] = 0;
    G1 = malloc(sizeof *G1); G1->priority_queue.heap = NULL; G1->priority_queue.hash_map = NULL;
    cmb_resourceguard_initialize(G1, RB);
}
static double later(void) { double t = nondet_double(); ASSUME(t >= cmb_time() && t < 1e300); return t; }
static double dur(void) { double d = nondet_double(); ASSUME(d >= 0.0 && d <= 1e6); return d; }
static int64_t usersig(void) { int64_t s = nondet_i64(); ASSUME(s != CMB_PROCESS_SUCCESS); return s; }   /* listed assumption: user signals are not 0 */

/* one arbitrary foreign cause addressed to the caller, posted through the real API */
static uint64_t cmv_timer_h[2]; static int64_t cmv_timer_sig[2]; static unsigned cmv_ntimers;
static unsigned cmv_ninterrupts, cmv_nuresumes;
static void foreign_cause(void)
{
#ifdef CMV_KIND
    const int kind = CMV_KIND;
#else
    const int kind = nondet_int(); ASSUME(kind >= 0 && kind <= 3);
#endif
    if (kind == 1 && cmv_ntimers < 2u) {            /* a user timer armed earlier */
        cmv_timer_sig[cmv_ntimers] = usersig();
        cmv_timer_h[cmv_ntimers] = cmb_process_timer_add(P, dur(), cmv_timer_sig[cmv_ntimers]);
        cmv_ntimers++;
    } else if (kind == 2) {                          /* somebody interrupts the caller */
        cmb_process_interrupt(P, usersig(), nondet_i64()); cmv_ninterrupts++;
    } else if (kind == 3) {                          /* somebody resumes the caller (a yielded process' wake-up) */
        cmb_process_resume(P, usersig()); cmv_nuresumes++;
    }
}
/* does the process x still appear anywhere a finished blocking call could have left it */
static bool in_waiters(const struct cmb_process *of, const struct cmb_process *x)
{
    const struct cmi_slist_head *e = of->waiters.next;
    for (unsigned i = 0; i < 3u && e != NULL; i++) { if (cmi_container_of(e, struct cmi_process_waiter, listhead)->proc == x) return true; e = e->next; }
    return false;
}
static unsigned count_awaits(const struct cmb_process *x, int type)
{
    unsigned n = 0; const struct cmi_slist_head *e = x->awaits.next;
    for (unsigned i = 0; i < 4u && e != NULL; i++) { if ((int)cmi_container_of(e, struct cmi_process_awaitable, listhead)->type == type) n++; e = e->next; }
    return n;
}
static bool has_timer_entry(const struct cmb_process *x, uint64_t h)
{
    const struct cmi_slist_head *e = x->awaits.next;
    for (unsigned i = 0; i < 4u && e != NULL; i++) { const struct cmi_process_awaitable *a = cmi_container_of(e, struct cmi_process_awaitable, listhead);
        if (a->type == CMI_PROCESS_AWAITABLE_TIME && a->handle == h) return true; e = e->next; }
    return false;
}
#define TIMER_INTACT(k) (cmb_event_is_scheduled(cmv_timer_h[k]) && has_timer_entry(P, cmv_timer_h[k]))
#define TIMER_GONE(k) (!cmb_event_is_scheduled(cmv_timer_h[k]) && !has_timer_entry(P, cmv_timer_h[k]))

#ifdef H_HOLD
static void cmv_at_exit(void) { __CPROVER_assert(0, "harness: no process exits in this scenario"); }
static void cmv_env(void) { if (nondet_bool()) foreign_cause(); }      /* a cause posted while the caller is suspended */
void h_hold(void)
{
    setup();
    cmv_ntimers = 0; cmv_ninterrupts = 0; cmv_nuresumes = 0;
    foreign_cause();
    const double t_call = cmb_time();
    const double d = dur();
    const uint64_t ctr0 = cmv_counter;
    const int64_t sig = cmb_process_hold(d);
    const uint64_t hh = ctr0 + 1u;                      /* the hold's own timer handle */
    OBT("C04-O1", cmv_p_resumed && !cmv_left_suspended, "a holding process is never left suspended: its own timer is pending whatever else is in the queue");
    OBT("C04-O1", sig != CMB_PROCESS_SUCCESS || cmb_time() == t_call + d, "hold returning SUCCESS returns at exactly start + d");
    OBT("C04-O1", sig == cmv_p_sig && cmb_time() == cmv_resume_time && cmv_p_nresumes == 1, "hold returns the value of exactly one delivered wake-up, at the time of that wake-up");
    OBT("C04-O1", !cmb_event_is_scheduled(hh) && !has_timer_entry(P, hh), "after hold returns (whatever the signal) its own timer is neither pending nor registered: it cannot fire later");
    OBT("C04-O1", sig == CMB_PROCESS_SUCCESS || cmb_time() <= t_call + d, "another cause can only end the hold at or before its due time");
    /* user timers: still armed unless they fired or the process was interrupted */
    if (cmv_ntimers >= 1 && cmv_ninterrupts == 0)
        OBT("C04-O1", TIMER_INTACT(0) || (TIMER_GONE(0) && sig == cmv_timer_sig[0]) , "a user timer armed before the hold is still armed afterwards, or it is the cause that ended the hold");
    if (cmv_ntimers >= 2 && cmv_ninterrupts == 0)
        OBT("C04-O1", TIMER_INTACT(1) || (TIMER_GONE(1) && sig == cmv_timer_sig[1]), "second user timer likewise");
    CANARY("process hold: end reachable");
    if (sig != CMB_PROCESS_SUCCESS) CANARY("process hold: ended by another cause reachable");
}
#endif

#ifdef H_TIMERS
static void cmv_at_exit(void) { __CPROVER_assert(0, "harness: no process exits in this scenario"); }
static void cmv_env(void) { }
void h_timers(void)
{
    setup();
    cmv_ntimers = 0; cmv_ninterrupts = 0; cmv_nuresumes = 0;
    /* two timers and an unrelated awaited process registration */
    cmv_timer_sig[0] = usersig(); cmv_timer_h[0] = cmb_process_timer_add(P, dur(), cmv_timer_sig[0]);
    cmv_timer_sig[1] = usersig(); cmv_timer_h[1] = cmb_process_timer_add(P, dur(), cmv_timer_sig[1]);
    OBT("C04-O2", cmb_event_queue_count() == 2u && count_awaits(P, CMI_PROCESS_AWAITABLE_TIME) == 2u && TIMER_INTACT(0) && TIMER_INTACT(1)
                  && cmb_event_time(cmv_timer_h[0]) >= cmb_time() && cmb_event_priority(cmv_timer_h[0]) == P->priority,
        "timer_add adds exactly one pending event (at now + duration, the process's priority) and one TIME entry");
    cmi_process_add_awaitable(P, CMI_PROCESS_AWAITABLE_PROCESS, Q);
    const int op = nondet_int(); ASSUME(op >= 0 && op <= 1);
    if (op == 0) {
        const int k = nondet_bool() ? 1 : 0;
        const bool r = cmb_process_timer_cancel(P, cmv_timer_h[k]);
        OBT("C04-O2", r && TIMER_GONE(k) && TIMER_INTACT(1 - k) && cmb_event_queue_count() == 1u, "timer_cancel removes exactly that timer (event and entry) and nothing else");
        OBT("C04-O2", !cmb_process_timer_cancel(P, cmv_timer_h[k]), "cancelling it again reports false");
    } else {
        cmb_process_timers_clear(P);
        OBT("C04-O2", TIMER_GONE(0) && TIMER_GONE(1) && cmb_event_queue_count() == 0u, "timers_clear removes all timers of the process");
    }
    OBT("C04-O2", count_awaits(P, CMI_PROCESS_AWAITABLE_PROCESS) == 1u, "timer operations do not touch non-TIME registrations");
    CANARY("process timers: end reachable");
}
#endif

#ifdef H_WAITPROC
static void cmv_at_exit(void) { __CPROVER_assert(0, "harness: no process exits in this scenario"); }
static int cmv_qend;
static _Bool cmv_q_freed;
static void cmv_env(void)
{
    /* the awaited process ends while the caller is suspended: stopped by a third party (real
     * cmb_process_stop run from the dispatcher), or not at all */
    if (cmv_qend == 1 && !cmv_q_freed && cmb_process_status(Q) == CMB_PROCESS_RUNNING) {
        cmb_process_stop(Q, (void *)0x5);
        /* C10: once it has finished, its owner (e.g. a higher-priority waiter resumed first) may dispose of the
         * process object before the caller runs again: any later access to it is a use after free */
        if (nondet_bool()) { cmv_q_freed = 1; free(Q); }
    }
    if (nondet_bool()) foreign_cause();
}
void h_waitproc(void)
{
    setup();
    cmv_ntimers = 0; cmv_ninterrupts = 0; cmv_nuresumes = 0; cmv_left_suspended = 0;
    foreign_cause();
    cmv_q_freed = 0;
    cmv_qend = nondet_int(); ASSUME(cmv_qend >= 0 && cmv_qend <= 2);
    if (cmv_qend == 2) { Q->core.status = CMI_COROUTINE_FINISHED; }          /* already finished */
    /* a second waiter on Q, registered before us */
    if (nondet_bool() && cmv_qend != 2) { cmi_process_add_awaitable(W, CMI_PROCESS_AWAITABLE_PROCESS, Q); add_waiter_tag(&Q->waiters, W); }
    const int64_t sig = cmb_process_wait_process(Q);
    if (cmv_qend == 2) OBT("C04-O3", sig == CMB_PROCESS_SUCCESS && cmv_nyields == 0, "waiting for a finished process returns SUCCESS at once");
    if (cmv_nyields > 0) {
        OBT("C04-O3", (cmv_q_freed || !in_waiters(Q, P)) && count_awaits(P, CMI_PROCESS_AWAITABLE_PROCESS) == 0u,
            "after wait_process returns (whatever the signal) the caller is no longer registered with the awaited process, on either side");
        OBT("C04-O3", sig == cmv_p_sig && cmv_p_nresumes == 1, "the return value is the signal of exactly one delivered wake-up");
        OBT("C04-O3", cmb_event_pattern_count(wakeup_event_process, P, CMB_ANY_OBJECT) == 0u, "no process wake-up for the caller is left pending after the call returned");
    }
    CANARY("process wait_process: end reachable");
    if (sig == CMB_PROCESS_STOPPED) CANARY("process wait_process: STOPPED reachable");
}
/* a waiter of a process that ends is never left suspended: from the state in which the caller
 * waits for Q (and nothing else is pending for it), Q's end schedules its wake-up */
void h_waitproc_live(void)
{
    setup();
    cmv_left_suspended = 0; cmv_qend = 1; cmv_q_freed = 0;
    (void)cmb_process_wait_process(Q);
    OBT("C04-O5", 0, "unreachable marker (never evaluated when the caller is left suspended)");
}
#endif

#ifdef H_WAITEVENT
static void cmv_at_exit(void) { __CPROVER_assert(0, "harness: no process exits in this scenario"); }
static unsigned cmv_nev;
static uint64_t cmv_target;
static int cmv_fate;          /* 0: nothing happens to the awaited event yet, 1: it executes, 2: it is cancelled */
static void cmv_env(void)
{
    if (cmv_fate == 1 && cmb_event_is_scheduled(cmv_target)) {
        /* the dispatcher executes the awaited event: exactly what cmb_event_execute_next does for it */
        for (int i = 0; i < CMV_NEV; i++) if (EV[i].live && EV[i].h == cmv_target) {
            EV[i].live = 0; cmv_now = EV[i].t; cmv_current = EV[i].h;
            struct cmi_slist_head w = EV[i].waiters;
            if (w.next != NULL) cmv_wake_event_waiters(&w, CMB_PROCESS_SUCCESS);
        }
        if (cmv_nev < 2u) cmv_nev++;
    } else if (cmv_fate == 2) {
        (void)cmb_event_cancel(cmv_target);
    }
    if (nondet_bool()) foreign_cause();
}
static void cmv_ev_action(void *s, void *o) { }
void h_waitevent(void)
{
    setup();
    cmv_ntimers = 0; cmv_ninterrupts = 0; cmv_nuresumes = 0; cmv_nev = 0; cmv_left_suspended = 0;
#ifndef CMV_ONE_CAUSE
    foreign_cause();                      /* a cause posted before the call (quick tier: only the one posted during the wait) */
#endif
    /* the awaited event is the earliest thing in the queue when it executes (cmv_fate == 1) */
#ifdef CMV_FATE
    cmv_fate = CMV_FATE;                  /* split by case: each fate of the awaited event is its own group */
#else
    cmv_fate = nondet_int(); ASSUME(cmv_fate >= 0 && cmv_fate <= 2);
#endif
    cmv_target = cmb_event_schedule(cmv_ev_action, NULL, NULL, cmv_fate == 1 ? cmb_time() : later(), nondet_i64());
    const int64_t sig = cmb_process_wait_event(cmv_target);
    OBT("C04-O3", count_awaits(P, CMI_PROCESS_AWAITABLE_EVENT) == 0u, "after wait_event returns (whatever the signal) the caller has no EVENT registration left");
    for (int i = 0; i < CMV_NEV; i++) if (EV[i].live && EV[i].h == cmv_target)
        OBT("C04-O3", EV[i].waiters.next == NULL, "after wait_event returns early the caller is no longer in the waiter list of the (still pending) event");
    OBT("C04-O3", sig != CMB_PROCESS_SUCCESS || cmv_nev == 1, "SUCCESS is only reported when the awaited event has executed");
    OBT("C04-O3", sig == cmv_p_sig && cmv_p_nresumes == 1, "the return value is the signal of exactly one delivered wake-up");
    OBT("C04-O3", cmb_event_pattern_count(wakeup_event_event, P, CMB_ANY_OBJECT) == 0u, "no event wake-up for the caller is left pending after the call returned");
    CANARY("process wait_event: end reachable");
#if !defined(CMV_FATE) || CMV_FATE == 1
    if (sig == CMB_PROCESS_SUCCESS) CANARY("process wait_event: SUCCESS reachable");
#endif
}
#endif

#ifdef H_GUARDWAIT
static void cmv_at_exit(void) { __CPROVER_assert(0, "harness: no process exits in this scenario"); }
static _Bool cmv_will_signal; static unsigned cmv_nsignals;
static void cmv_env(void)
{
    /* the guard is signalled (a release / put / get by somebody else) with the demand then true or false */
    if (cmv_will_signal) { cmv_demand_now = nondet_bool(); (void)cmb_resourceguard_signal(G1); if (cmv_nsignals < 2u) cmv_nsignals++; }
#ifdef CMV_KIND
    foreign_cause();
#else
    if (nondet_bool()) foreign_cause();
#endif
}
void h_guardwait(void)
{
    setup();
    cmv_ntimers = 0; cmv_ninterrupts = 0; cmv_nuresumes = 0; cmv_left_suspended = 0; cmv_nsignals = 0;
#ifndef CMV_LITE
    foreign_cause();
#endif
    /* another process may already be queued at the guard */
#ifdef CMV_LITE
    const bool other = true;
#else
    const bool other = nondet_bool();
#endif
    if (other) {
        (void)cmi_hashheap_enqueue(&G1->priority_queue, W, (void *)cmv_demand, NULL, NULL, (uint64_t)W, cmb_time(), W->priority);
        cmi_process_add_awaitable(W, CMI_PROCESS_AWAITABLE_RESOURCE, G1);
    }
#ifdef CMV_LITE
    cmv_will_signal = true;
#else
    cmv_will_signal = nondet_bool();
#endif
    const int64_t sig = cmb_resourceguard_wait(G1, cmv_demand, NULL);
    OBT("C04-O3", !cmi_hashheap_is_enqueued(&G1->priority_queue, (uint64_t)P) && count_awaits(P, CMI_PROCESS_AWAITABLE_RESOURCE) == 0u,
        "after the guard wait returns (whatever the signal) the caller is neither queued at the guard nor registered as waiting for it");
    OBT("C04-O3", cmb_event_pattern_count(wakeup_event_resource, P, CMB_ANY_OBJECT) == 0u,
        "after the guard wait returns no grant or cancellation for the caller is left pending: a grant that arrives too late cannot resume it");
    OBT("C04-O3", sig == cmv_p_sig && cmv_p_nresumes == 1, "the return value is the signal of exactly one delivered wake-up");
    /* C08-O3: a grant made to a waiter that leaves for another reason is passed on.  The caller was
     * granted iff the signal found it at the front with a true demand and dequeued it. */
    const bool w_served = !cmi_hashheap_is_enqueued(&G1->priority_queue, (uint64_t)W);
    if (sig != CMB_PROCESS_SUCCESS && other && cmv_nsignals == 1 && cmv_demand_now)
        OBT("C08-O3", w_served && cmb_event_pattern_count(wakeup_event_resource, W, (void *)CMB_PROCESS_SUCCESS) == 1u,
            "the guard was signalled with a satisfiable demand and the caller left its wait for another reason in that instant: the grant went (or was passed on) to the next waiter");
    CANARY("guard wait: end reachable");
#if !defined(CMV_KIND) || CMV_KIND != 0
    if (sig != CMB_PROCESS_SUCCESS && cmv_nsignals == 1 && cmv_demand_now && other) CANARY("guard wait: granted-then-left reachable");
#endif
}
#endif

#ifdef H_GUARDSIGNAL
static void cmv_at_exit(void) { __CPROVER_assert(0, "harness: no process exits in this scenario"); }
static void cmv_env(void) { }
/* cmb_resourceguard_signal / _cancel / _remove: C06-O2, C13-O3 */
static struct cmb_resourceguard *G2;
void h_guardsignal(void)
{
    setup();
    /* two waiters with arbitrary priorities and entry times; the real comparison orders them */
    const double e1 = later(), e2 = later();
    (void)cmi_hashheap_enqueue(&G1->priority_queue, Q, (void *)cmv_demand, NULL, NULL, (uint64_t)Q, e1, Q->priority);
    const bool two = nondet_bool();
    if (two) (void)cmi_hashheap_enqueue(&G1->priority_queue, W, (void *)cmv_demand, NULL, NULL, (uint64_t)W, e2, W->priority);
    /* who must be served first according to the property text */
    const bool q_first = !two || Q->priority > W->priority || (Q->priority == W->priority && (e1 < e2 || (e1 == e2 && (uint64_t)Q < (uint64_t)W)));
    struct cmb_process *front = q_first ? Q : W, *back = q_first ? W : Q;
    /* an observer guard with one waiter of its own */
    G2 = malloc(sizeof *G2); G2->priority_queue.heap = NULL; G2->priority_queue.hash_map = NULL; cmb_resourceguard_initialize(G2, RB);
    const bool observed = nondet_bool();
    if (observed) cmb_resourceguard_register(G1, G2);
    (void)cmi_hashheap_enqueue(&G2->priority_queue, P, (void *)cmv_demand, NULL, NULL, (uint64_t)P, later(), P->priority);
    const int op = nondet_int(); ASSUME(op >= 0 && op <= 2);
    cmv_demand_now = nondet_bool();
    if (op == 0) {
        const bool r = cmb_resourceguard_signal(G1);
        OBT("C06-O2", r == cmv_demand_now, "signal reports whether it woke somebody");
        if (cmv_demand_now) {
            OBT("C06-O2", !cmi_hashheap_is_enqueued(&G1->priority_queue, (uint64_t)front) && cmb_event_pattern_count(wakeup_event_resource, front, (void *)CMB_PROCESS_SUCCESS) == 1u,
                "signal grants to the waiter with the highest priority, then the earliest entry time: it is dequeued and gets exactly one SUCCESS wake-up");
            OBT("C06-O2", !two || (cmi_hashheap_is_enqueued(&G1->priority_queue, (uint64_t)back) && cmb_event_pattern_count(wakeup_event_resource, back, CMB_ANY_OBJECT) == 0u),
                "a waiter of lower rank is not served ahead: it stays queued, untouched");
            const uint64_t h = cmb_event_pattern_find(wakeup_event_resource, front, CMB_ANY_OBJECT);
            OBT("C06-O2", cmb_event_time(h) == cmb_time() && cmb_event_priority(h) == front->priority, "the grant is scheduled at the current time with the waiter's current priority");
        } else {
            OBT("C06-O2", cmi_hashheap_count(&G1->priority_queue) == (two ? 2u : 1u) && cmb_event_pattern_count(wakeup_event_resource, Q, CMB_ANY_OBJECT) + cmb_event_pattern_count(wakeup_event_resource, W, CMB_ANY_OBJECT) == 0u,
                "an unsatisfied front waiter stays queued and nobody behind it is served");
        }
        OBT("C13-O2", cmb_event_pattern_count(wakeup_event_resource, P, (void *)CMB_PROCESS_SUCCESS) == ((observed && cmv_demand_now) ? 1u : 0u),
            "a signal is forwarded to every registered observer guard (whether or not the signalled guard woke one of its own waiters), and to nobody else");
    } else {
        const bool r = (op == 1) ? cmb_resourceguard_cancel(G1, back) : cmb_resourceguard_remove(G1, back);
        OBT("C13-O3", r == (two || back == Q), "cancel / remove report whether the named process was queued");
        OBT("C13-O3", !cmi_hashheap_is_enqueued(&G1->priority_queue, (uint64_t)back) && (!two || cmi_hashheap_is_enqueued(&G1->priority_queue, (uint64_t)front)), "exactly the named process is taken out of the queue");
        OBT("C13-O3", cmb_event_pattern_count(wakeup_event_resource, back, (void *)CMB_PROCESS_CANCELLED) == ((op == 1 && r) ? 1u : 0u) && cmb_event_queue_count() == ((op == 1 && r) ? 1u : 0u),
            "cancel resumes it with CANCELLED (one wake-up at the current time), remove resumes nobody");
    }
    CANARY("guard signal: end reachable");
}
#endif

#ifdef H_PRIOSET
static void cmv_at_exit(void) { __CPROVER_assert(0, "harness: no process exits in this scenario"); }
static void cmv_env(void) { }
/* cmb_process_priority_set: C06-O3 */
static unsigned cmv_nreprio; static int64_t cmv_reprio_pri; static const struct cmb_process *cmv_reprio_p;
static void cmv_reprio(struct cmi_holdable *h, const struct cmb_process *pp, int64_t pri) { if (cmv_nreprio < 3u) cmv_nreprio++; cmv_reprio_pri = pri; cmv_reprio_p = pp; }
static void cmv_drop(struct cmi_holdable *h, const struct cmb_process *pp) { }
void h_prioset(void)
{
    setup();
    cmv_nreprio = 0;
    /* Q waits at the guard behind/in front of W, has a timer armed, and holds a pool-like holdable */
    const double eq = later(), ew = later();
    (void)cmi_hashheap_enqueue(&G1->priority_queue, Q, (void *)cmv_demand, NULL, NULL, (uint64_t)Q, eq, Q->priority);
    cmi_process_add_awaitable(Q, CMI_PROCESS_AWAITABLE_RESOURCE, G1);
    (void)cmi_hashheap_enqueue(&G1->priority_queue, W, (void *)cmv_demand, NULL, NULL, (uint64_t)W, ew, W->priority);
    const uint64_t th = cmb_process_timer_add(Q, dur(), usersig());
    const double tt = cmb_event_time(th);
    struct cmi_holdable *H = malloc(sizeof *H); H->base.cookie = CMI_INITIALIZED; H->drop = cmv_drop; H->reprio = nondet_bool() ? cmv_reprio : NULL;
    struct cmi_process_holdable *ph = malloc(sizeof *ph); ph->res = H; ph->listhead.next = NULL; Q->resources.next = &ph->listhead;
    const int64_t np = nondet_i64();
    cmb_process_priority_set(Q, np);
    OBT("C06-O3", Q->priority == np, "priority_set sets the process priority");
    OBT("C06-O3", cmi_hashheap_ikey(&G1->priority_queue, (uint64_t)Q) == np && cmi_hashheap_dkey(&G1->priority_queue, (uint64_t)Q) == eq,
        "the waiting-list entry takes the new priority and keeps its entry time");
    const bool q_first = np > W->priority || (np == W->priority && (eq < ew || (eq == ew && (uint64_t)Q < (uint64_t)W)));
    OBT("C06-O3", ((struct cmb_process *)cmi_hashheap_peek_item(&G1->priority_queue)[0] == Q) == q_first, "the process is repositioned: the front of the waiting list is the highest priority, then the earliest arrival");
    OBT("C06-O3", cmb_event_priority(th) == np && cmb_event_time(th) == tt, "its armed timer takes the new priority and keeps its time");
    OBT("C06-O3", H->reprio == NULL ? cmv_nreprio == 0 : (cmv_nreprio == 1 && cmv_reprio_pri == np && cmv_reprio_p == Q), "every held object with a holder list is told the new priority");
    OBT("C06-O3", cmi_hashheap_ikey(&G1->priority_queue, (uint64_t)W) == W->priority && cmi_hashheap_dkey(&G1->priority_queue, (uint64_t)W) == ew, "other waiters are untouched");
    CANARY("priority_set: end reachable");
}
#endif

#ifdef H_END
/* C09: exit / stop-by-other / stop-self.  The obligations are checked at the point of no return
 * (inside cmi_coroutine_exit for exit / return / stop-self; after cmb_process_stop for stop-by-other). */
static void cmv_env(void) { }
static unsigned cmv_ndrop; static const struct cmb_process *cmv_drop_p;
static void cmv_drop2(struct cmi_holdable *h, const struct cmb_process *pp) { if (cmv_ndrop < 3u) cmv_ndrop++; cmv_drop_p = pp; }
static struct cmb_process *T, *w1, *w2, *cmv_next; static _Bool cmv_granted; static int cmv_route; static _Bool cmv_holds, cmv_timer, cmv_queued; static uint64_t cmv_th; static unsigned cmv_nw; static void *cmv_val;
static void cmv_check_end(void)
{
    const int64_t want = (cmv_route == 0) ? CMB_PROCESS_SUCCESS : CMB_PROCESS_STOPPED;
    OBT("C09-O2", cmb_process_status(T) == CMB_PROCESS_FINISHED && cmb_process_exit_value(T) == cmv_val, "the process is finished and its exit value is what it exited / was stopped with");
    OBT("C09-O2", cmb_event_pattern_count(wakeup_event_process, w1, (void *)want) == (cmv_nw >= 1 ? 1u : 0u) && cmb_event_pattern_count(wakeup_event_process, w2, (void *)want) == (cmv_nw >= 2 ? 1u : 0u),
        "every waiter gets exactly one wake-up, SUCCESS for a normal end, STOPPED for a stop (also when the process stops itself)");
    OBT("C09-O2", T->waiters.next == NULL, "the waiter list is emptied");
    OBT("C09-O2", !cmv_holds || (cmv_ndrop == 1 && cmv_drop_p == T), "everything it held is dropped (offered to the next waiter by the object's drop function)");
    OBT("C09-O2", T->resources.next == NULL && T->awaits.next == NULL, "it holds nothing and awaits nothing afterwards");
    OBT("C09-O2", !cmv_queued || !cmi_hashheap_is_enqueued(&G1->priority_queue, (uint64_t)T), "it is removed from every waiting list");
    OBT("C09-O2", cmb_event_pattern_count(CMB_ANY_ACTION, T, CMB_ANY_OBJECT) == 0u && (!cmv_timer || !cmb_event_is_scheduled(cmv_th)), "none of its timers or pending wake-ups remains");
    if (cmv_granted)
        OBT("C08-O3", !cmi_hashheap_is_enqueued(&G1->priority_queue, (uint64_t)cmv_next) && cmb_event_pattern_count(wakeup_event_resource, cmv_next, (void *)CMB_PROCESS_SUCCESS) == 1u,
            "a process that is stopped after it was granted its turn at a guard, before it could take it: the turn is passed on to the next waiter whose demand is satisfiable");
    if (cmv_nw >= 1) { const uint64_t h = cmb_event_pattern_find(wakeup_event_process, w1, CMB_ANY_OBJECT);
        OBT("C09-O2", h != 0u && cmb_event_time(h) == cmb_time() && cmb_event_priority(h) == w1->priority, "waiters are resumed at that instant with their own priority"); }
    CANARY("process end: point of no return reachable");
}
static void cmv_at_exit(void)
{
    OBT("C09-O1", cmv_route != 1, "only a process that exits or stops itself reaches the coroutine exit");
    cmv_check_end();
}
void h_end(void)
{
    setup();
    cmv_ndrop = 0;
    T = Q;
#ifdef CMV_ROUTE
    cmv_route = CMV_ROUTE;
#else
    cmv_route = nondet_int(); ASSUME(cmv_route >= 0 && cmv_route <= 2);      /* 0 exit (also: return), 1 stopped by the caller, 2 stops itself */
#endif
    if (cmv_route != 1) { struct cmb_process *tmp = P; P = Q; Q = tmp; T = P; coroutine_current = (struct cmi_coroutine *)P; }
    struct cmi_holdable *H = malloc(sizeof *H); H->base.cookie = CMI_INITIALIZED; H->drop = cmv_drop2; H->reprio = NULL;
    cmv_holds = nondet_bool();
    if (cmv_holds) { struct cmi_process_holdable *ph = malloc(sizeof *ph); ph->res = H; ph->listhead.next = NULL; T->resources.next = &ph->listhead; }
    cmv_timer = nondet_bool();
    cmv_th = 0; if (cmv_timer) cmv_th = cmb_process_timer_add(T, dur(), usersig());
    cmv_queued = (cmv_route == 1) && nondet_bool();
    if (cmv_queued) { (void)cmi_hashheap_enqueue(&G1->priority_queue, T, (void *)cmv_demand, NULL, NULL, (uint64_t)T, cmb_time(), T->priority); cmi_process_add_awaitable(T, CMI_PROCESS_AWAITABLE_RESOURCE, G1); }
    /* C08-O3: the process may have been GRANTED its turn at the guard (dequeued, SUCCESS wake-up on its way) and be
     * stopped before that wake-up runs; somebody else is queued behind it with a demand that is satisfiable now */
    cmv_granted = (cmv_route == 1) && !cmv_queued && nondet_bool();
    if (cmv_granted) {
        cmi_process_add_awaitable(T, CMI_PROCESS_AWAITABLE_RESOURCE, G1);
        (void)cmb_event_schedule(wakeup_event_resource, T, (void *)CMB_PROCESS_SUCCESS, cmb_time(), T->priority);
        cmv_next = mkproc();
        (void)cmi_hashheap_enqueue(&G1->priority_queue, cmv_next, (void *)cmv_demand, NULL, NULL, (uint64_t)cmv_next, cmb_time(), cmv_next->priority);
        cmi_process_add_awaitable(cmv_next, CMI_PROCESS_AWAITABLE_RESOURCE, G1);
        cmv_demand_now = true;
    }
    if (nondet_bool()) cmb_process_resume(T, usersig());
    w1 = W; w2 = (cmv_route == 1) ? mkproc() : Q;
    cmv_nw = nondet_u8(); ASSUME(cmv_nw <= 2);
    if (cmv_nw >= 1) { cmi_process_add_awaitable(w1, CMI_PROCESS_AWAITABLE_PROCESS, T); add_waiter_tag(&T->waiters, w1); }
    if (cmv_nw >= 2) { cmi_process_add_awaitable(w2, CMI_PROCESS_AWAITABLE_PROCESS, T); add_waiter_tag(&T->waiters, w2); }
    cmv_val = &cmv_ndrop;
    if (cmv_route == 0) cmb_process_exit(cmv_val); else cmb_process_stop(T, cmv_val);
    OBT("C09-O1", cmv_route == 1, "exit / stop-self never return to the caller");
    cmv_check_end();
}
#endif
