/*
 * event.c - src/cmb_event.c under contract (C01 O2/O3; C10-O1/O3 for the event queue).
 * Real code: src/cmb_event.c on top of the hashheap contract stub (hhstub.h: sorted small array,
 * may MOVE on every enqueue as the real structure does when it doubles).
 *
 * Pre-state: an arbitrary pending set of <= 3 events (arbitrary times >= clock incl. ties, arbitrary
 * int64 priorities, arbitrary handles), arbitrary "current" slot, arbitrary clock.  Inductive in the
 * history; bounded in the number of pending events.
 */
#include "cmv_common.h"
#include "cmi_mempool.h"
#define CMV_HH_CAP 4
/* the array may move at most once per run (which enqueue it is, is arbitrary) */
static _Bool cmv_moved;
#define CMV_HH_MAY_MOVE() (!cmv_moved && nondet_bool() ? (cmv_moved = 1) : 0)
#include "hhstub_sorted.h"   /* the layout C01 was validated with: heap[1..n] sorted */
#include "cmb_process.h"
#include "cmi_process.h"

/* tag pools / process bits that cmb_event.c refers to */
CMB_THREAD_LOCAL struct cmi_mempool cmi_process_waitertags = CMI_MEMPOOL_STATIC_INIT(sizeof(struct cmi_process_waiter), 256u);
CMB_THREAD_LOCAL struct cmi_mempool cmi_process_awaitabletags = CMI_MEMPOOL_STATIC_INIT(sizeof(struct cmi_process_awaitable), 128u);
void cmi_mempool_expand(struct cmi_mempool *mp)
{
    void **o = malloc(mp->obj_sz); *o = NULL; mp->next_obj = o; mp->cookie = CMI_INITIALIZED;
}
static unsigned cmv_nremaw;
bool cmi_process_remove_awaitable(struct cmb_process *pp, enum cmi_process_awaitable_type type, const void *awaitable) { if (cmv_nremaw < 3u) cmv_nremaw++; return true; }
static unsigned cmv_nresume;
void *cmi_coroutine_resume(struct cmi_coroutine *cp, void *arg) { if (cmv_nresume < 3u) cmv_nresume++; return NULL; }

#include "src/cmb_event.c"

/* ---- specification of the order, from the property text --------------------------------- */
static bool spec_before(double t1, int64_t p1, uint64_t h1, double t2, int64_t p2, uint64_t h2)
{
    if (t1 < t2) return true; if (t1 > t2) return false;
    if (p1 > p2) return true; if (p1 < p2) return false;
    return h1 < h2;
}

/* ---- ghost copy of the pending set ---------------------------------------------------------- */
#define NP 3
static struct { uint64_t h; double t; int64_t p; void *s, *o; int act; _Bool live; } GH[NP];
static unsigned cmv_n0;
static char cmv_objs[4];

/* actions: recording stubs; what an action DOES is decided by the harness (cmv_do) */
static int cmv_ran = -1, cmv_nran;
static double cmv_time_in_action;
static uint64_t cmv_current_in_action, cmv_current_after_nested;
static _Bool cmv_still_queued_in_action;
static void *cmv_subj_seen, *cmv_obj_seen;
static int cmv_nested_op;      /* -1: none */
static uint64_t cmv_nested_h;
static void cmv_action_body(int which, void *subject, void *object)
{
    cmv_nran++;
    cmv_ran = which;
    cmv_time_in_action = cmb_time();
    cmv_current_in_action = cmb_event_current();
    cmv_still_queued_in_action = cmb_event_is_scheduled(cmv_current_in_action);
    cmv_subj_seen = subject; cmv_obj_seen = object;
    /* an action may issue any API call; one arbitrary call is made here (induction covers more) */
    if (cmv_nested_op == 0) {
        double t = nondet_double(); ASSUME(t >= cmb_time() && t < 1e300);
        (void)cmb_event_schedule(NULL, NULL, NULL, t, nondet_i64());      /* may move the array */
    } else if (cmv_nested_op == 1 && cmb_event_queue_count() > 0u) {
        (void)cmb_event_cancel(cmv_nested_h);
    } else if (cmv_nested_op == 2 && cmb_event_is_scheduled(cmv_nested_h)) {
        cmb_event_reprioritize(cmv_nested_h, nondet_i64());
    } else if (cmv_nested_op == 3 && cmb_event_is_scheduled(cmv_nested_h)) {
        double t = nondet_double(); ASSUME(t >= cmb_time() && t < 1e300);
        cmb_event_reschedule(cmv_nested_h, t);
    } else if (cmv_nested_op == 4) {
        cmb_event_queue_clear();
    }
    cmv_current_after_nested = cmb_event_current();
}
static void act0(void *s, void *o) { cmv_action_body(0, s, o); }
static void act1(void *s, void *o) { cmv_action_body(1, s, o); }
static void act2(void *s, void *o) { cmv_action_body(2, s, o); }
static cmb_event_func *const ACTS[3] = { act0, act1, act2 };

static void setup(unsigned nmax)
{
    cmv_nremaw = 0; cmv_nresume = 0; cmv_ran = -1; cmv_nran = 0; cmv_nested_op = -1; cmv_moved = 0;
    cmi_process_waitertags.cookie = CMI_INITIALIZED; cmi_process_waitertags.obj_sz = sizeof(struct cmi_process_waiter); cmi_process_waitertags.next_obj = NULL;
    double t0 = nondet_double(); ASSUME(t0 == t0 && t0 > -1e300 && t0 < 1e300);      /* negative start times included */
    cmb_event_queue_initialize(t0);
    event_queue->item_counter = nondet_u64(); ASSUME(event_queue->item_counter < UINT64_MAX - 8u && event_queue->item_counter >= 3u);
    event_queue->heap[0].key = nondet_u64(); ASSUME(event_queue->heap[0].key <= event_queue->item_counter);
    cmv_n0 = nondet_u8(); ASSUME(cmv_n0 <= nmax);
    /* the pending set is written directly in the layout the hashheap contract guarantees (any
     * order-respecting layout; here: sorted), with arbitrary distinct handles <= the counter,
     * arbitrary times >= clock (ties included) and arbitrary priorities */
    for (unsigned i = 0; i < NP; i++) {
        GH[i].live = (i < cmv_n0);
        if (!GH[i].live) continue;
        GH[i].t = nondet_double(); ASSUME(GH[i].t >= t0 && GH[i].t < 1e300);
        GH[i].p = nondet_i64();
        GH[i].h = nondet_u64(); ASSUME(GH[i].h != 0u && GH[i].h <= event_queue->item_counter);
        GH[i].act = (int)i;
        GH[i].s = nondet_bool() ? NULL : &cmv_objs[nondet_u8() % 4];
        GH[i].o = nondet_bool() ? NULL : &cmv_objs[nondet_u8() % 4];
        struct cmi_heap_tag *e = &event_queue->heap[i + 1u];
        e->key = GH[i].h; e->item[0] = (void *)ACTS[i]; e->item[1] = GH[i].s; e->item[2] = GH[i].o; e->item[3] = NULL;
        e->dsortkey = GH[i].t; e->isortkey = GH[i].p; e->hash_index = 0u;
    }
    event_queue->heap_count = cmv_n0;
    ASSUME(cmv_n0 < 2 || (GH[0].h != GH[1].h && !heap_order_check(&event_queue->heap[2], &event_queue->heap[1])));
    ASSUME(cmv_n0 < 3 || (GH[0].h != GH[2].h && GH[1].h != GH[2].h && !heap_order_check(&event_queue->heap[3], &event_queue->heap[2])));
}
static int spec_min(void)
{
    int b = -1;
    for (int i = 0; i < NP; i++) if (GH[i].live && (b < 0 || spec_before(GH[i].t, GH[i].p, GH[i].h, GH[b].t, GH[b].p, GH[b].h))) b = i;
    return b;
}
static unsigned nlive(void) { unsigned n = 0; for (int i = 0; i < NP; i++) if (GH[i].live) n++; return n; }
/* the queries agree with the ghost set */
#define AGREES() (cmb_event_queue_count() == nlive() \
    && (!GH[0].live || (cmb_event_is_scheduled(GH[0].h) && cmb_event_time(GH[0].h) == GH[0].t && cmb_event_priority(GH[0].h) == GH[0].p)) \
    && (!GH[1].live || (cmb_event_is_scheduled(GH[1].h) && cmb_event_time(GH[1].h) == GH[1].t && cmb_event_priority(GH[1].h) == GH[1].p)) \
    && (!GH[2].live || (cmb_event_is_scheduled(GH[2].h) && cmb_event_time(GH[2].h) == GH[2].t && cmb_event_priority(GH[2].h) == GH[2].p)) \
    && (GH[0].live || cmv_n0 < 1 || !cmb_event_is_scheduled(GH[0].h)) && (GH[1].live || cmv_n0 < 2 || !cmb_event_is_scheduled(GH[1].h)) \
    && (GH[2].live || cmv_n0 < 3 || !cmb_event_is_scheduled(GH[2].h)))

#ifdef H_EXECUTE
void h_execute(void)
{
    setup(3);
    const double clock0 = cmb_time();
    const int m = spec_min();
#ifdef CMV_NESTED
    cmv_nested_op = CMV_NESTED;
#else
    cmv_nested_op = nondet_int(); ASSUME(cmv_nested_op >= -1 && cmv_nested_op <= 4);
#endif
    const int victim = nondet_int(); ASSUME(victim >= 0 && victim < NP);
    cmv_nested_h = GH[victim].live ? GH[victim].h : nondet_u64();   /* a pending event or any stale handle */
    ASSUME(cmv_nested_h != 0u);
    const bool r = cmb_event_execute_next();
    if (cmv_n0 == 0) {
        OBT("C01-O2", !r && cmv_nran == 0 && cmb_time() == clock0, "execute_next on an empty queue does nothing and returns false");
    } else {
        OBT("C01-O2", r && cmv_nran == 1, "execute_next runs exactly one action");
        OBT("C01-O2", cmv_ran == m, "the action that runs is the minimum of the pending set under (time asc, priority desc, handle asc)");
        OBT("C01-O2", cmv_time_in_action == GH[m].t && cmv_time_in_action >= clock0, "while the action runs the clock equals its scheduled time; the clock never decreases");
        OBT("C01-O2", cmv_current_in_action == GH[m].h, "while the action runs the current-event query names it");
        OBT("C01-O2", !cmv_still_queued_in_action, "the running event is no longer pending (it cannot run twice)");
        OBT("C01-O2", cmv_subj_seen == GH[m].s && cmv_obj_seen == GH[m].o, "the action receives its own subject and object");
        OBT("C01-O2", cmv_nested_op == 4 || cmv_current_after_nested == GH[m].h, "the current-event query still names the running event after it scheduled / cancelled / rescheduled / reprioritised another event");
    }
    CANARY("event execute: end reachable");
}
#endif

#ifdef H_API
void h_api(void)
{
#ifdef CMV_API_N
    setup(CMV_API_N);
#else
    setup(3);
#endif
    const int k = nondet_int(); ASSUME(k >= 0 && k < NP);
#ifdef CMV_OP
    const int op = CMV_OP;
#else
    const int op = nondet_int(); ASSUME(op >= 0 && op <= 6);
#endif
    const uint64_t ctr0 = event_queue->item_counter;
    const uint64_t cur0 = cmb_event_current();
    OBT("C01-O3", AGREES(), "is_scheduled / time / priority / count agree with the pending set (pre-state)");
    if (op == 0) {                         /* schedule */
        const double t = nondet_double(); ASSUME(t >= cmb_time() && t < 1e300);
        const int64_t p = nondet_i64();
        ASSUME(cmv_n0 < NP);
        const uint64_t h = cmb_event_schedule(ACTS[cmv_n0], NULL, NULL, t, p);
        OBT("C01-O3", h == ctr0 + 1u && h != 0u, "schedule returns the incremented counter: handles are issued in increasing order and never reissued");
        GH[cmv_n0].live = 1; GH[cmv_n0].h = h; GH[cmv_n0].t = t; GH[cmv_n0].p = p; cmv_n0++;
    } else if (op == 1) {                  /* cancel: any handle, any queue population incl. empty */
        const uint64_t h = nondet_bool() ? GH[k].h : nondet_u64(); ASSUME(h != 0u);
        bool was = false; for (int i = 0; i < NP; i++) if (GH[i].live && GH[i].h == h) was = true;
        const bool r = cmb_event_cancel(h);
        OBT("C01-O3", r == was, "cancel reports whether the event was pending");
        for (int i = 0; i < NP; i++) if (GH[i].live && GH[i].h == h) GH[i].live = 0;
    } else if (op == 2 && GH[k].live) {    /* reschedule */
        GH[k].t = nondet_double(); ASSUME(GH[k].t >= cmb_time() && GH[k].t < 1e300);
        cmb_event_reschedule(GH[k].h, GH[k].t);
    } else if (op == 3 && GH[k].live) {    /* reprioritize */
        GH[k].p = nondet_i64(); cmb_event_reprioritize(GH[k].h, GH[k].p);
    } else if (op == 4) {                  /* pattern find / count */
        cmb_event_func *a = nondet_bool() ? CMB_ANY_ACTION : ACTS[k];
        void *s = nondet_bool() ? CMB_ANY_SUBJECT : GH[k].s, *o = nondet_bool() ? CMB_ANY_OBJECT : GH[k].o;
        uint64_t n = 0;
        for (int i = 0; i < NP; i++) if (GH[i].live && (a == CMB_ANY_ACTION || a == ACTS[GH[i].act]) && (s == CMB_ANY_SUBJECT || s == GH[i].s) && (o == CMB_ANY_OBJECT || o == GH[i].o)) n++;
        OBT("C01-O3", cmb_event_pattern_count(a, s, o) == n, "pattern_count is the number of matching pending events");
        const uint64_t f = cmb_event_pattern_find(a, s, o);
        bool fm = false; for (int i = 0; i < NP; i++) if (GH[i].live && GH[i].h == f && (a == CMB_ANY_ACTION || a == ACTS[GH[i].act]) && (s == CMB_ANY_SUBJECT || s == GH[i].s) && (o == CMB_ANY_OBJECT || o == GH[i].o)) fm = true;
        OBT("C01-O3", n == 0 ? f == 0u : fm, "pattern_find returns a matching pending handle, or 0 iff none matches");
    } else if (op == 5) {                  /* pattern cancel */
        cmb_event_func *a = nondet_bool() ? CMB_ANY_ACTION : ACTS[k];
        void *s = nondet_bool() ? CMB_ANY_SUBJECT : GH[k].s, *o = nondet_bool() ? CMB_ANY_OBJECT : GH[k].o;
        uint64_t n = 0;
        for (int i = 0; i < NP; i++) if (GH[i].live && (a == CMB_ANY_ACTION || a == ACTS[GH[i].act]) && (s == CMB_ANY_SUBJECT || s == GH[i].s) && (o == CMB_ANY_OBJECT || o == GH[i].o)) { n++; GH[i].live = 0; }
        OBT("C01-O3", cmb_event_pattern_cancel(a, s, o) == n, "pattern_cancel cancels exactly the matching events and returns their number");
    } else if (op == 6) {                  /* clear */
        cmb_event_queue_clear();
        for (int i = 0; i < NP; i++) GH[i].live = 0;
        OBT("C01-O3", cmb_event_queue_is_empty(), "clear empties the queue");
    }
    OBT("C01-O3", AGREES(), "is_scheduled / time / priority / count agree with the pending set after the operation: exactly the named event changed, only its time or only its priority");
    OBT("C01-O3", op == 6 || cmb_event_current() == cur0, "operations issued from outside the dispatcher (or from inside an action) do not change which event is current");
    CANARY("event api: end reachable");
}
#endif

#ifdef H_WAITERS
/* events with registered waiters: execute / cancel wake every waiter exactly once with the right
 * signal at the current time, while the wake-ups themselves may make the queue grow (move) */
void h_waiters(void)
{
#ifdef CMV_WLEAVE
    setup(1);                               /* the leave case: one pending event, one waiter (the pattern cancel is the cost) */
#else
    setup(2);
#endif
    ASSUME(cmv_n0 >= 1);
    struct cmb_process *w1 = malloc(sizeof *w1), *w2 = malloc(sizeof *w2);
    w1->priority = nondet_i64(); w2->priority = nondet_i64(); w1->awaits.next = NULL; w2->awaits.next = NULL;
    w1->core.status = CMI_COROUTINE_RUNNING; w2->core.status = CMI_COROUTINE_RUNNING; w1->name[0] = 0; w2->name[0] = 0;
    const int tgt = spec_min();
#ifdef CMV_WLEAVE
    const unsigned nw = 1;
#else
    const unsigned nw = nondet_u8(); ASSUME(nw <= 2);
#endif
    if (nw >= 1) cmi_event_add_waiter(GH[tgt].h, w1);
    if (nw >= 2) cmi_event_add_waiter(GH[tgt].h, w2);
    const uint64_t cnt0 = cmb_event_queue_count();
#ifdef CMV_WCANCEL
    const bool do_cancel = CMV_WCANCEL;      /* split by case: each half is its own group */
#else
    const bool do_cancel = nondet_bool();
#endif
    if (do_cancel) {
        OBT("C04-O5", cmb_event_cancel(GH[tgt].h), "cancel of a pending event succeeds");
    } else {
        (void)cmb_event_execute_next();
        OBT("C01-O2", cmv_ran == tgt, "the minimum ran");
    }
    const int64_t want = do_cancel ? CMB_PROCESS_CANCELLED : CMB_PROCESS_SUCCESS;
    OBT("C04-O5", cmb_event_pattern_count(wakeup_event_event, w1, (void *)want) == (nw >= 1 ? 1u : 0u), "first waiter gets exactly one wake-up with SUCCESS (executed) / CANCELLED (cancelled)");
    OBT("C04-O5", cmb_event_pattern_count(wakeup_event_event, w2, (void *)want) == (nw >= 2 ? 1u : 0u), "second waiter likewise");
    OBT("C04-O5", cmb_event_pattern_count(wakeup_event_event, CMB_ANY_SUBJECT, CMB_ANY_OBJECT) == nw && cmb_event_queue_count() == cnt0 - 1u + nw, "nobody else is woken, nothing else is scheduled");
    const uint64_t hw = cmb_event_pattern_find(wakeup_event_event, w1, CMB_ANY_OBJECT);
    OBT("C04-O5", nw == 0 || (cmb_event_time(hw) == cmb_time() && cmb_event_priority(hw) == w1->priority), "the wake-up is scheduled at the current time with the waiter's priority");
    /* a waiter that leaves after the event is gone: its wake-up is stopped, nobody else's
     * (own thorough group: the pattern cancel inside remove_waiter is as costly as C01.O3.api.pattern_cancel) */
#ifdef CMV_WLEAVE
    if (nw >= 1) {
        OBT("C04-O5", !cmi_event_remove_waiter(GH[tgt].h, w1) && cmb_event_pattern_count(wakeup_event_event, w1, CMB_ANY_OBJECT) == 0u
                      && cmb_event_pattern_count(wakeup_event_event, w2, (void *)want) == (nw >= 2 ? 1u : 0u),
            "remove_waiter for an event that has already executed / been cancelled stops the wake-up on its way to that process and nothing else");
    }
#endif
    CANARY("event waiters: end reachable");
}
#endif
