/*
 * mempool.c - src/cmi_mempool.c and the alloc/free inlines of src/cmi_mempool.h under contract (C20).
 * Port layer (cmi_pagesize / cmi_aligned_alloc / _free) replaced by contract stubs; the page size is
 * 64 here so that chunks stay small (any power of two > 8 satisfies the port contract).
 */
#include "cmv_common.h"
#include "cmi_mempool.h"
size_t cmi_pagesize(void) { return 64u; }
static void *cmv_last_chunk; static size_t cmv_last_chunk_sz;
void *cmi_aligned_alloc(size_t align, size_t sz)
{
    __CPROVER_assert(align > 8u && (align & (align - 1u)) == 0u && sz > 8u && sz % align == 0u, "cmi_aligned_alloc precondition (port layer asserts it)");
    void *p = malloc(sz);
    cmv_last_chunk = p; cmv_last_chunk_sz = sz;
    return p;
}
void cmi_aligned_free(void *p) { __CPROVER_assert(p != NULL, "cmi_aligned_free precondition"); free(p); }

#include "src/cmi_mempool.c"

static struct cmi_mempool MP;
#define MAXOBJ 8u

/* an initialised pool in an arbitrary state of its chunk list: cnt chunks recorded in a list of len */
static void setup(uint64_t cnt, uint64_t len)
{
#ifndef OSZ
#define OSZ 24u
#define ONUM 3u
#endif
    const size_t osz = OSZ;            /* one group per (object size, requested number): symbolic divisions are too expensive */
    const uint64_t onum = ONUM;
    static_pools.next = NULL;
    MP.cookie = CMI_UNINITIALIZED;
    cmi_mempool_initialize(&MP, osz, onum);
    OBT("C20-O1", MP.obj_sz == osz && MP.incr_sz % 64u == 0u && MP.incr_num >= onum && MP.incr_num * MP.obj_sz <= MP.incr_sz && MP.chunk_list != NULL && MP.next_obj == NULL && MP.chunk_list_cnt == 0u,
        "initialize: chunk size is a page multiple holding at least the requested number of objects; empty free list");
    ASSUME(MP.incr_num <= MAXOBJ);
    if (len != MP.chunk_list_len) { free(MP.chunk_list); MP.chunk_list = malloc(len * sizeof(void *)); MP.chunk_list_len = len; }
    MP.chunk_list_cnt = cnt;
}
/* walk the free list: length, and check every node */
static unsigned walk(const void *chunk, size_t chunk_sz, _Bool *ok)
{
    unsigned n = 0; *ok = 1;
    const char *prev = NULL;
    for (void *o = MP.next_obj; o != NULL && n <= MAXOBJ; o = *(void **)o) {
        const char *c = (const char *)o;
        if (((uintptr_t)c & 7u) != 0u) *ok = 0;                                           /* 8-byte aligned */
        if (!(c >= (const char *)chunk && c + MP.obj_sz <= (const char *)chunk + chunk_sz)) *ok = 0;   /* inside the chunk, full size */
        if ((size_t)(c - (const char *)chunk) % MP.obj_sz != 0u) *ok = 0;                 /* on the object grid: objects are disjoint */
        if (prev != NULL && c != prev + MP.obj_sz) *ok = 0;                               /* address order, stride = object size */
        prev = c; n++;
    }
    return n;
}

#ifdef H_EXPAND
void h_expand(void)
{
    /* any population of the chunk list, incl. the point where the list itself must grow */
    const int where = nondet_int(); ASSUME(where >= 0 && where <= 2);
    const uint64_t len = 64u;
    const uint64_t cnt = where == 0 ? 0u : where == 1 ? (uint64_t)(1u + nondet_u8() % 61u) : 63u;
    setup(cnt, len);
    void *sentinel = &MP; if (cnt > 0u) MP.chunk_list[0] = sentinel;
    cmi_mempool_expand(&MP);
    OBT("C20-O1", MP.chunk_list_cnt == cnt + 1u && MP.chunk_list_cnt < MP.chunk_list_len, "expand: one more chunk recorded, the list is never full afterwards");
    OBT("C20-O1", __CPROVER_r_ok(MP.chunk_list, MP.chunk_list_len * sizeof(void *)), "expand: the chunk list is valid for chunk_list_len pointers (also right after it had to grow)");
    OBT("C20-O1", MP.chunk_list[cnt] == cmv_last_chunk && (cnt == 0u || MP.chunk_list[0] == sentinel), "expand: the new chunk is recorded in the next slot, earlier records survive (also across growth of the list)");
    _Bool ok; const unsigned n = walk(cmv_last_chunk, cmv_last_chunk_sz, &ok);
    OBT("C20-O1", n == MP.incr_num && ok && MP.next_obj == cmv_last_chunk, "expand: the free list is exactly the incr_num object slots of the new chunk, in address order, 8-byte aligned, each of object size, NULL-terminated");
    CANARY("mempool expand: end reachable");
    if (where == 2) CANARY("mempool expand: chunk-list growth reachable");
}
#endif

#ifdef H_STATIC
/* statically initialised thread-local pool: first allocation initialises and registers it once */
static CMB_THREAD_LOCAL struct cmi_mempool SP = CMI_MEMPOOL_STATIC_INIT(24u, 3u);
void h_static(void)
{
    static_pools.next = NULL;
    SP.cookie = CMI_THREAD_STATIC; SP.obj_sz = 24u; SP.incr_num = 3u; SP.next_obj = NULL; SP.chunk_list = NULL; SP.chunk_list_cnt = 0; SP.chunk_list_len = 0; SP.incr_sz = 0;
    void *a = cmi_mempool_alloc(&SP);
    OBT("C20-O1", SP.cookie == CMI_INITIALIZED && static_pools.next != NULL && static_pools.next->next == NULL
                  && cmi_container_of(static_pools.next, struct static_pools_tag, head)->pool == &SP, "a static pool is initialised on first use and registered exactly once for clean-up");
    void *b = cmi_mempool_alloc(&SP);
    OBT("C20-O2", a != NULL && b != NULL && a != b && ((uintptr_t)a & 7u) == 0u && ((uintptr_t)b & 7u) == 0u
                  && ((char *)b >= (char *)a + 24u || (char *)a >= (char *)b + 24u), "objects from a static pool are aligned and disjoint");
    OBT("C20-O1", static_pools.next->next == NULL, "later allocations do not register the pool again");
    cmi_mempool_cleanup(NULL);
    OBT("C20-O1", static_pools.next == NULL && SP.chunk_list == NULL, "clean-up releases every registered pool");
    CANARY("mempool static: end reachable");
}
#endif

#ifdef H_ALLOCFREE
void h_allocfree(void)
{
    setup(0u, 64u);
    cmi_mempool_expand(&MP);
    ASSUME(MP.incr_num >= 3u);
    /* arbitrary history: k allocations and frees so far are summarised by an arbitrary free list that is
     * a chain through DISTINCT grid slots of the chunk (invariant of alloc/free); here: the state after
     * taking out an arbitrary pair and returning them in arbitrary order */
    void *x = cmi_mempool_alloc(&MP), *y = cmi_mempool_alloc(&MP);
    OBT("C20-O2", x != y && ((uintptr_t)x & 7u) == 0u && ((uintptr_t)y & 7u) == 0u, "two live objects are distinct and 8-byte aligned");
    OBT("C20-O2", (char *)y >= (char *)x + MP.obj_sz || (char *)x >= (char *)y + MP.obj_sz, "two live objects do not overlap");
    OBT("C20-O2", __CPROVER_w_ok(x, MP.obj_sz) && __CPROVER_w_ok(y, MP.obj_sz), "each object is writable for the full object size");
    /* contents are stable while allocated: EVERY live object is filled with its own pattern and re-read after
     * every later pool operation - the neighbours on both sides of the object being allocated / freed, whichever
     * way the free list is threaded (a write one word past a freed or allocated 8-byte object lands in a live
     * neighbour: seeded C20-m3, which the first version, filling x only, let through) */
#define FILL(p, tag) do { for (size_t i_ = 0; i_ < 32u; i_++) if (i_ < MP.obj_sz) ((unsigned char *)(p))[i_] = (unsigned char)((tag) + i_); } while (0)
#define KEPT(p, tag, ok) do { for (size_t i_ = 0; i_ < 32u; i_++) if (i_ < MP.obj_sz && ((unsigned char *)(p))[i_] != (unsigned char)((tag) + i_)) (ok) = false; } while (0)
    bool same = true;
    FILL(x, 0xA0u); FILL(y, 0x40u);
    void *z = cmi_mempool_alloc(&MP);
    KEPT(x, 0xA0u, same); KEPT(y, 0x40u, same);
    FILL(z, 0x10u);
    KEPT(x, 0xA0u, same); KEPT(y, 0x40u, same);
    cmi_mempool_free(&MP, y);
    KEPT(x, 0xA0u, same); KEPT(z, 0x10u, same);
    void *y2 = cmi_mempool_alloc(&MP);
    OBT("C20-O2", z != x && z != y && y2 == y, "a further allocation is distinct from the live ones; a freed object is the next one handed out (LIFO), never a live one");
    KEPT(x, 0xA0u, same); KEPT(z, 0x10u, same);
    FILL(y2, 0x70u);
    KEPT(x, 0xA0u, same); KEPT(z, 0x10u, same);
    OBT("C20-O2", same, "every allocated object keeps its contents while other objects are allocated, written and freed");
    /* returning an object must not touch its live neighbours either (x is the lower neighbour of y2 when the
     * free list is threaded upwards: a word written past the freed 8-byte object is y2's first word) */
    bool same2 = true;
    cmi_mempool_free(&MP, x);
    KEPT(y2, 0x70u, same2); KEPT(z, 0x10u, same2);
    cmi_mempool_free(&MP, z);
    KEPT(y2, 0x70u, same2);
    OBT("C20-O2", same2, "returning an object leaves every object that is still allocated untouched");
    OBT("C20-O2", cmi_mempool_alloc(&MP) == z && cmi_mempool_alloc(&MP) == x, "returned objects are handed out again in LIFO order");
    CANARY("mempool alloc/free: end reachable");
}
#endif
