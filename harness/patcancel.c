/*
 * patcancel.c - cmi_hashheap_pattern_cancel (src/cmi_hashheap.c) verified MODULARLY against the CONTRACT of
 * cmi_hashheap_remove, not against its body (C02 layer L2).
 *
 * cmi_hashheap_remove is replaced at its call sites (goto-instrument --replace-calls) by a contract stub:
 *   requires  hp well-formed (here: the heap array spells the view)
 *   ensures   returns whether the key was enqueued; the view is the old view minus that key; every other
 *             entry keeps key / payload / sort keys; NOTHING is promised about where the remaining entries
 *             are afterwards (the stub lays them out in an arbitrary order).
 * That postcondition is what C02.L3.remove establishes on the real body (view change + representation
 * invariant).  A caller that is correct only for the particular reshuffling the real sift performs - e.g. a
 * single pass over the heap that removes matches in place (seeded C02-m3 / C01-m3: needs >= 6 entries to go
 * wrong on the real heap, out of reach of the capacity-2 groups) - fails here with three entries.
 * The layout being arbitrary is an over-approximation of the real callee: sound for a caller that does not
 * rely on the heap order between calls, which pattern_cancel does not (it reads the order nowhere).
 */
#include "cmv_common.h"
#include "cmi_hashheap.h"
#include "cmi_memutils.h"

#ifndef NS
#define NS 4u
#endif

#include "src/cmi_hashheap.c"

static struct cmi_hashheap HP;
static struct cmi_heap_tag HEAP[NS + 2u];
static struct cmi_hash_tag HASH[2u * NS];
static char cmv_pool[3];
static void *cmv_payload(void) { unsigned i = nondet_u8(); ASSUME(i <= 3u); return i == 3u ? NULL : (void *)&cmv_pool[i]; }
static bool cmv_false(const struct cmi_heap_tag *a, const struct cmi_heap_tag *b) { return false; }

static unsigned cmv_nremove;

/* contract stub of cmi_hashheap_remove */
bool cmv_remove_contract(struct cmi_hashheap *hp, uint64_t key)
{
    __CPROVER_assert(hp == &HP && hp->heap == HEAP && hp->heap_count <= NS, "precondition of cmi_hashheap_remove: a valid hashheap");
    if (cmv_nremove < 100u) cmv_nremove++;
    unsigned at = 0;
    for (unsigned i = 1; i <= NS; i++) if (i <= hp->heap_count && HEAP[i].key == key) at = i;
    if (key == 0u || at == 0u) return false;
    /* the remaining entries, in an arbitrary new order */
    struct cmi_heap_tag rest[NS + 1u]; unsigned m = 0;
    for (unsigned i = 1; i <= NS; i++) if (i <= hp->heap_count && i != at) { m++; rest[m] = HEAP[i]; }
    unsigned perm[NS + 1u];
    for (unsigned i = 1; i <= NS; i++) { perm[i] = nondet_u8(); if (i <= m) ASSUME(perm[i] >= 1u && perm[i] <= m); }
    for (unsigned i = 1; i <= NS; i++) for (unsigned j = i + 1u; j <= NS; j++) if (j <= m) ASSUME(perm[i] != perm[j]);
    for (unsigned i = 1; i <= NS; i++) if (i <= m)
        for (unsigned c = 1; c <= NS; c++) if (perm[i] == c) HEAP[i] = rest[c];
    hp->heap_count = m;
    return true;
}

static bool cmv_match(const struct cmi_heap_tag *t, const void *v1, const void *v2, const void *v3, const void *v4)
{
    return (v1 == CMI_ANY_ITEM || v1 == t->item[0]) && (v2 == CMI_ANY_ITEM || v2 == t->item[1])
        && (v3 == CMI_ANY_ITEM || v3 == t->item[2]) && (v4 == CMI_ANY_ITEM || v4 == t->item[3]);
}

#define T "C02-L2"
void h_patcancel(void)
{
    cmv_nremove = 0;
    HP.heap = HEAP; HP.hash_map = HASH; HP.heap_compare = cmv_false;
    HP.heap_exp_init = 1u; HP.heap_exp_cur = 2u; HP.heap_size = NS; HP.hash_size = 2u * NS;
    HP.heap_count = nondet_u64(); ASSUME(HP.heap_count <= NS);
    HP.item_counter = nondet_u64();
    for (unsigned i = 0; i < NS + 2u; i++) {
        HEAP[i].key = nondet_u64(); HEAP[i].hash_index = nondet_u64();
        HEAP[i].item[0] = cmv_payload(); HEAP[i].item[1] = cmv_payload(); HEAP[i].item[2] = cmv_payload(); HEAP[i].item[3] = cmv_payload();
        HEAP[i].dsortkey = nondet_double(); HEAP[i].isortkey = nondet_i64();
    }
    for (unsigned i = 1; i <= NS; i++) if (i <= HP.heap_count) {
        ASSUME(HEAP[i].key != 0u);
        for (unsigned j = i + 1u; j <= NS; j++) if (j <= HP.heap_count) ASSUME(HEAP[i].key != HEAP[j].key);
    }
    const void *v1 = nondet_bool() ? CMI_ANY_ITEM : cmv_payload(), *v2 = nondet_bool() ? CMI_ANY_ITEM : cmv_payload();
    const void *v3 = nondet_bool() ? CMI_ANY_ITEM : cmv_payload(), *v4 = nondet_bool() ? CMI_ANY_ITEM : cmv_payload();
    uint64_t nmatch = 0;
    for (unsigned i = 1; i <= NS; i++) if (i <= HP.heap_count && cmv_match(&HEAP[i], v1, v2, v3, v4)) nmatch++;
    /* ghost entry: an arbitrary member of the view */
    const uint64_t count0 = HP.heap_count;
    unsigned gi = nondet_u8(); struct cmi_heap_tag g0; bool have_g = false;
    for (unsigned i = 1; i <= NS; i++) if (i == gi && i <= HP.heap_count) { g0 = HEAP[i]; have_g = true; }
    const bool g_matches = have_g && cmv_match(&g0, v1, v2, v3, v4);
    const struct cmi_heap_tag slot0 = HEAP[0];

    const uint64_t c = cmi_hashheap_pattern_cancel(&HP, v1, v2, v3, v4);

    OBT(T, c == nmatch, "pattern_cancel reports the number of entries that matched");
    OBT(T, HP.heap_count == count0 - nmatch, "pattern_cancel removes as many entries as match");
    OBT(T, cmv_nremove == nmatch, "every matching entry is removed through cmi_hashheap_remove exactly once, nothing else is");
    if (have_g) {
        unsigned found = 0, at = 0;
        for (unsigned i = 1; i <= NS; i++) if (i <= HP.heap_count && HEAP[i].key == g0.key) { found++; at = i; }
        OBT(T, g_matches ? found == 0u : found == 1u, "pattern_cancel removes exactly the matching entries: a matching entry is gone, any other is still enqueued");
        bool same = true;
        for (unsigned i = 1; i <= NS; i++) if (i == at && found == 1u)
            same = HEAP[i].item[0] == g0.item[0] && HEAP[i].item[1] == g0.item[1] && HEAP[i].item[2] == g0.item[2] && HEAP[i].item[3] == g0.item[3] && HEAP[i].isortkey == g0.isortkey;
        OBT(T, same, "a surviving entry keeps its payload and sort key");
    }
    bool none = true;
    for (unsigned i = 1; i <= NS; i++) if (i <= HP.heap_count && cmv_match(&HEAP[i], v1, v2, v3, v4)) none = false;
    OBT(T, none, "after pattern_cancel no enqueued entry matches the pattern");
    OBT(T, HEAP[0].key == slot0.key && HEAP[0].item[0] == slot0.item[0], "slot 0 (the current item) is not touched");
    CANARY("pattern_cancel (remove contract): end reachable");
    if (nmatch >= 2u && count0 == NS) CANARY("pattern_cancel (remove contract): two matches in a full heap reachable");
}
