/*
 * evstub.h - contract stub of src/cmb_event.c for the process layer (C04, C06, C08, C09, C13).
 *
 * What C01 establishes for the real event queue - a set of pending events (handle, action, subject,
 * object, time >= clock, priority) with schedule / cancel / reschedule / reprioritize / pattern
 * operations that agree with that set, handles issued in increasing order, waiters of an event woken
 * when it executes or is cancelled - is implemented here over CMV_NEV fixed slots with scalar fields
 * (no heap tags, no overlay structs), so that the queries of the process layer stay small.
 * The order in which pending events fire is the specification order (time asc, priority desc,
 * handle asc) proved for heap_order_check in C01.O1.
 */
#ifndef CMV_EVSTUB_H
#define CMV_EVSTUB_H
#include "cmb_event.h"
#include "cmi_slist.h"
#ifndef CMV_NEV
#define CMV_NEV 4
#endif
struct cmv_ev { _Bool live; uint64_t h; cmb_event_func *action; void *subject, *object; double t; int64_t p; struct cmi_slist_head waiters; };
static struct cmv_ev EV[CMV_NEV];
static double cmv_now;
static uint64_t cmv_counter, cmv_current;

double cmb_time(void) { return cmv_now; }
uint64_t cmb_event_current(void) { return cmv_current; }
bool cmb_event_queue_is_empty(void) { for (unsigned i = 0; i < CMV_NEV; i++) if (EV[i].live) return false; return true; }
uint64_t cmb_event_queue_count(void) { uint64_t n = 0; for (unsigned i = 0; i < CMV_NEV; i++) if (EV[i].live) n++; return n; }

uint64_t cmb_event_schedule(cmb_event_func *action, void *subject, void *object, double time, int64_t priority)
{
    __CPROVER_assert(time >= cmv_now, "cmb_event_schedule precondition (release assert in the real code): time >= clock");
    int k = -1;
    for (int i = CMV_NEV - 1; i >= 0; i--) if (!EV[i].live) k = i;
    __CPROVER_assert(k >= 0, "harness bound: more pending events than the modelled event-queue slots");
    __CPROVER_assume(k >= 0);
    cmv_counter++;
    for (int i = 0; i < CMV_NEV; i++) if (i == k) {
        EV[i].live = 1; EV[i].h = cmv_counter; EV[i].action = action; EV[i].subject = subject; EV[i].object = object;
        EV[i].t = time; EV[i].p = priority; EV[i].waiters.next = NULL;
    }
    return cmv_counter;
}
static int cmv_ev_slot(uint64_t h) { int k = -1; for (int i = 0; i < CMV_NEV; i++) if (EV[i].live && EV[i].h == h) k = i; return k; }
bool cmb_event_is_scheduled(uint64_t h) { return cmv_ev_slot(h) >= 0; }
double cmb_event_time(uint64_t h) { double r = 0.0; __CPROVER_assert(cmv_ev_slot(h) >= 0, "cmb_event_time precondition: the event is scheduled"); for (int i = 0; i < CMV_NEV; i++) if (EV[i].live && EV[i].h == h) r = EV[i].t; return r; }
int64_t cmb_event_priority(uint64_t h) { int64_t r = 0; __CPROVER_assert(cmv_ev_slot(h) >= 0, "cmb_event_priority precondition: the event is scheduled"); for (int i = 0; i < CMV_NEV; i++) if (EV[i].live && EV[i].h == h) r = EV[i].p; return r; }

/* waking the waiters of an event: the contract of wake_event_waiters (C01.O2.event_waiters) */
static void wakeup_event_event(void *vp, void *arg);
extern CMB_THREAD_LOCAL struct cmi_mempool cmi_process_waitertags;
static void cmv_wake_event_waiters(struct cmi_slist_head *w, int64_t signal)
{
    for (unsigned n = 0; n < 3u && w->next != NULL; n++) {
        struct cmi_slist_head *head = cmi_slist_pop(w);
        struct cmi_process_waiter *pw = cmi_container_of(head, struct cmi_process_waiter, listhead);
        (void)cmb_event_schedule(wakeup_event_event, pw->proc, (void *)signal, cmv_now, pw->proc->priority);
        cmi_mempool_free(&cmi_process_waitertags, pw);
    }
}
bool cmb_event_cancel(uint64_t h)
{
    bool r = false;
    for (int i = 0; i < CMV_NEV; i++) if (EV[i].live && EV[i].h == h) {
        EV[i].live = 0; r = true;
        struct cmi_slist_head w = EV[i].waiters;
        if (w.next != NULL) cmv_wake_event_waiters(&w, CMB_PROCESS_CANCELLED);
    }
    return r;
}
void cmb_event_reschedule(uint64_t h, double time)
{
    __CPROVER_assert(time >= cmv_now && cmv_ev_slot(h) >= 0, "cmb_event_reschedule precondition: scheduled event, time >= clock");
    for (int i = 0; i < CMV_NEV; i++) if (EV[i].live && EV[i].h == h) EV[i].t = time;
}
void cmb_event_reprioritize(uint64_t h, int64_t priority)
{
    __CPROVER_assert(cmv_ev_slot(h) >= 0, "cmb_event_reprioritize precondition (release assert in the real code): the event is scheduled");
    for (int i = 0; i < CMV_NEV; i++) if (EV[i].live && EV[i].h == h) EV[i].p = priority;
}
#define CMV_EV_MATCH(i, a, s, o) (EV[i].live && ((a) == CMB_ANY_ACTION || (a) == EV[i].action) && ((s) == CMB_ANY_SUBJECT || (s) == EV[i].subject) && ((o) == CMB_ANY_OBJECT || (o) == EV[i].object))
uint64_t cmb_event_pattern_find(cmb_event_func *a, const void *s, const void *o) { uint64_t r = 0; for (int i = CMV_NEV - 1; i >= 0; i--) if (CMV_EV_MATCH(i, a, s, o)) r = EV[i].h; return r; }
uint64_t cmb_event_pattern_count(cmb_event_func *a, const void *s, const void *o) { uint64_t n = 0; for (int i = 0; i < CMV_NEV; i++) if (CMV_EV_MATCH(i, a, s, o)) n++; return n; }
uint64_t cmb_event_pattern_cancel(cmb_event_func *a, const void *s, const void *o)
{
    uint64_t n = 0;
    for (int i = 0; i < CMV_NEV; i++) if (CMV_EV_MATCH(i, a, s, o)) { n++; (void)cmb_event_cancel(EV[i].h); }
    return n;
}
void cmi_event_add_waiter(uint64_t key, struct cmb_process *pp)
{
    __CPROVER_assert(cmv_ev_slot(key) >= 0, "cmi_event_add_waiter precondition (release assert in the real code): the event is scheduled");
    struct cmi_process_waiter *tag = cmi_mempool_alloc(&cmi_process_waitertags);
    tag->proc = pp;
    for (int i = 0; i < CMV_NEV; i++) if (EV[i].live && EV[i].h == key) cmi_slist_push(&EV[i].waiters, &tag->listhead);
}
bool cmi_event_remove_waiter(uint64_t key, const struct cmb_process *pp)
{
    bool r = false;
    /* contract (C01.O2.event_waiters): for an event that is no longer pending, a wake-up already on
     * its way to pp is stopped */
    if (cmv_ev_slot(key) < 0) { (void)cmb_event_pattern_cancel(wakeup_event_event, pp, CMB_ANY_OBJECT); return false; }
    for (int i = 0; i < CMV_NEV; i++) if (EV[i].live && EV[i].h == key) {
        struct cmi_slist_head *whead = &EV[i].waiters;
        for (unsigned n = 0; n < 3u && whead->next != NULL && !r; n++) {
            struct cmi_process_waiter *pw = cmi_container_of(whead->next, struct cmi_process_waiter, listhead);
            if (pw->proc == pp) { cmi_slist_pop(whead); cmi_mempool_free(&cmi_process_waitertags, pw); r = true; }
            else whead = whead->next;
        }
    }
    return r;
}
/* specification order of the event queue */
static bool cmv_ev_before(int a, int b)
{
    if (EV[a].t < EV[b].t) return true; if (EV[a].t > EV[b].t) return false;
    if (EV[a].p > EV[b].p) return true; if (EV[a].p < EV[b].p) return false;
    return EV[a].h < EV[b].h;
}
#endif
