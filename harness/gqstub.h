/*
 * gqstub.h - contract stub of src/cmi_hashheap.c for RESOURCE-GUARD queues in the process-layer
 * harness: at most CMV_GQ_CAP waiting entries per guard in flat scalar slots; the front entry (the
 * minimum under the guard order: priority descending, entry time ascending, key ascending - proved
 * equal to guard_queue_check in C06.O1) is mirrored into hp->heap[1] and the count into
 * hp->heap_count after every mutation, so that the header inlines (peek_item, is_empty, count,
 * is_enqueued, cancel) of the real cmi_hashheap.h work unchanged.  Up to CMV_GQ_NQ guards.
 */
#ifndef CMV_GQSTUB_H
#define CMV_GQSTUB_H
#include "cmi_hashheap.h"
#ifndef CMV_GQ_CAP
#define CMV_GQ_CAP 3
#endif
#ifndef CMV_GQ_NQ
#define CMV_GQ_NQ 2
#endif
struct cmv_gq_slot { _Bool live; uint64_t key; void *item[4]; double d; int64_t i; };
static struct { struct cmi_hashheap *hp; struct cmv_gq_slot s[CMV_GQ_CAP]; struct cmi_heap_tag mirror[2]; } GQ[CMV_GQ_NQ];
static unsigned cmv_gq_n;
/* every access to GQ uses a CONSTANT queue index (loop over the queues with the test inside): a
 * symbolic index into this array of large structs made the formula 30 times bigger */
#define FORQ(hp) for (int q = 0; q < CMV_GQ_NQ; q++) if (GQ[q].hp == (hp))
static int cmv_gq_of(const struct cmi_hashheap *hp) { int q = -1; for (int k = 0; k < CMV_GQ_NQ; k++) if (GQ[k].hp == hp) q = k; __CPROVER_assert(q >= 0, "harness: unknown guard queue"); __CPROVER_assume(q >= 0); return q; }
#define GQ_BEFORE(a, b) ((a).i > (b).i || ((a).i == (b).i && ((a).d < (b).d || ((a).d == (b).d && (a).key < (b).key))))
static void cmv_gq_sync(int q)
{
    int m = -1; uint64_t n = 0;
    for (int c = 0; c < CMV_GQ_CAP; c++) if (GQ[q].s[c].live) { n++; if (m < 0 || GQ_BEFORE(GQ[q].s[c], GQ[q].s[m])) m = c; }
    GQ[q].hp->heap_count = n;
    for (int c = 0; c < CMV_GQ_CAP; c++) if (c == m) {
        struct cmi_heap_tag *t = &GQ[q].mirror[1];
        t->key = GQ[q].s[c].key; t->item[0] = GQ[q].s[c].item[0]; t->item[1] = GQ[q].s[c].item[1]; t->item[2] = GQ[q].s[c].item[2]; t->item[3] = GQ[q].s[c].item[3];
        t->dsortkey = GQ[q].s[c].d; t->isortkey = GQ[q].s[c].i; t->hash_index = 0u;
    }
}
void cmi_hashheap_initialize(struct cmi_hashheap *hp, uint16_t hexp, cmi_heap_compare_func *cmp)
{
    __CPROVER_assert(hp != NULL && hexp > 0u && cmv_gq_n < CMV_GQ_NQ, "guard queue stub: initialize");
    const int q = (int)cmv_gq_n++;
    for (int k = 0; k < CMV_GQ_NQ; k++) if (k == q) { GQ[k].hp = hp; for (int c = 0; c < CMV_GQ_CAP; c++) GQ[k].s[c].live = 0; hp->heap = GQ[k].mirror; }
    hp->heap_exp_init = hexp; hp->heap_exp_cur = hexp; hp->heap_size = CMV_GQ_CAP; hp->hash_size = 2u * CMV_GQ_CAP; hp->heap_count = 0u; hp->heap_compare = cmp; hp->hash_map = NULL; hp->item_counter = 0u;
}
void cmi_hashheap_terminate(struct cmi_hashheap *hp) { hp->heap = NULL; }
uint64_t cmi_hash_find_index(const struct cmi_hashheap *hp, uint64_t key)
{
    uint64_t r = 0u;
    FORQ(hp) for (int c = 0; c < CMV_GQ_CAP; c++) if (GQ[q].s[c].live && GQ[q].s[c].key == key) r = (uint64_t)c + 1u;     /* non-zero iff enqueued; not an array index for callers */
    return r;
}
uint64_t cmi_hashheap_enqueue(struct cmi_hashheap *hp, void *p1, void *p2, void *p3, void *p4, uint64_t key, double d, int64_t i)
{
    hp->item_counter++; if (key == 0u) key = hp->item_counter;
    __CPROVER_assert(cmi_hash_find_index(hp, key) == 0u, "hashheap contract: the key (process) is not already enqueued at this guard");
    _Bool done = 0;
    FORQ(hp) {
        int k = -1;
        for (int c = CMV_GQ_CAP - 1; c >= 0; c--) if (!GQ[q].s[c].live) k = c;
        __CPROVER_assert(k >= 0, "harness bound: more waiters than the modelled guard-queue slots"); __CPROVER_assume(k >= 0);
        for (int c = 0; c < CMV_GQ_CAP; c++) if (c == k) { GQ[q].s[c].live = 1; GQ[q].s[c].key = key; GQ[q].s[c].item[0] = p1; GQ[q].s[c].item[1] = p2; GQ[q].s[c].item[2] = p3; GQ[q].s[c].item[3] = p4; GQ[q].s[c].d = d; GQ[q].s[c].i = i; }
        cmv_gq_sync(q); done = 1;
    }
    __CPROVER_assert(done, "harness: unknown guard queue");
    return key;
}
void **cmi_hashheap_dequeue(struct cmi_hashheap *hp)
{
    void **r = NULL;
    if (hp->heap_count == 0u) return NULL;
    FORQ(hp) {
        GQ[q].mirror[0] = GQ[q].mirror[1];
        for (int c = 0; c < CMV_GQ_CAP; c++) if (GQ[q].s[c].live && GQ[q].s[c].key == GQ[q].mirror[0].key) GQ[q].s[c].live = 0;
        cmv_gq_sync(q);
        r = GQ[q].mirror[0].item;
    }
    return r;
}
bool cmi_hashheap_remove(struct cmi_hashheap *hp, uint64_t key)
{
    __CPROVER_assert(key != 0u, "hashheap contract: remove precondition (non-zero key)");
    bool r = false;
    FORQ(hp) {
        for (int c = 0; c < CMV_GQ_CAP; c++) if (GQ[q].s[c].live && GQ[q].s[c].key == key) { GQ[q].s[c].live = 0; r = true; }
        cmv_gq_sync(q);
    }
    return r;
}
double cmi_hashheap_dkey(const struct cmi_hashheap *hp, uint64_t key)
{
    double r = 0.0;
    __CPROVER_assert(cmi_hash_find_index(hp, key) != 0u, "hashheap contract (release assert in the real code): dkey() of a key that is not enqueued");
    FORQ(hp) for (int c = 0; c < CMV_GQ_CAP; c++) if (GQ[q].s[c].live && GQ[q].s[c].key == key) r = GQ[q].s[c].d;
    return r;
}
int64_t cmi_hashheap_ikey(const struct cmi_hashheap *hp, uint64_t key)
{
    int64_t r = 0;
    __CPROVER_assert(cmi_hash_find_index(hp, key) != 0u, "hashheap contract (release assert in the real code): ikey() of a key that is not enqueued");
    FORQ(hp) for (int c = 0; c < CMV_GQ_CAP; c++) if (GQ[q].s[c].live && GQ[q].s[c].key == key) r = GQ[q].s[c].i;
    return r;
}
void cmi_hashheap_reprioritize(const struct cmi_hashheap *hp, uint64_t key, double d, int64_t i)
{
    __CPROVER_assert(cmi_hash_find_index(hp, key) != 0u, "hashheap contract (release assert in the real code): reprioritize() of a key that is not enqueued");
    FORQ(hp) {
        for (int c = 0; c < CMV_GQ_CAP; c++) if (GQ[q].s[c].live && GQ[q].s[c].key == key) { GQ[q].s[c].d = d; GQ[q].s[c].i = i; }
        cmv_gq_sync(q);
    }
}
#endif
