/*
 * experiment.c - src/cimba.c under contract (C19): worker_thread_func and cimba_run_experiment.
 * Sequential contracts only: the dispenser is the real __atomic_fetch_add on the real counter; what
 * OTHER workers do is modelled by the trial-function stub advancing the counter by an arbitrary
 * amount while "our" trial runs (they draw, and run, those indices).  No interleaving is explored.
 * Bounded-unwind: <= 4 trials, <= 3 worker threads.
 */
#include "cmv_common.h"
#include <pthread.h>
void __pthread_register_cancel(__pthread_unwind_buf_t *b) { (void)b; }
void __pthread_unregister_cancel(__pthread_unwind_buf_t *b) { (void)b; }
void __pthread_unwind_next(__pthread_unwind_buf_t *b) { (void)b; }
int __sigsetjmp(struct __jmp_buf_tag *env, int savemask) { (void)env; (void)savemask; return 0; }
static unsigned cmv_ncleanup;
void cmi_mempool_cleanup(void *arg) { if (cmv_ncleanup < 9u) cmv_ncleanup++; }
static uint32_t cmv_ncores;
uint32_t cmi_cpu_cores(void) { return cmv_ncores; }
CMB_THREAD_LOCAL uint64_t cmi_logger_trial_idx;

#define NT 4u
struct trial { uint64_t payload[3]; };
static struct trial ARR[NT];
static unsigned cmv_ran[NT];                 /* how often each element was run (by anybody we model) */
static uint64_t cmv_total; static unsigned cmv_bad_ptr, cmv_ncalls;
static uint64_t cmv_others_drew;             /* indices drawn by other workers meanwhile */
static uint64_t cmv_last_idx; static _Bool cmv_have_last;
extern uint64_t cmv_counter_peek(void);
static uint64_t cmg_next_trial_idx;   /* tentative definition, completed by the included file */
static void trial_stub(void *t)
{
    cmv_ncalls++;
    const char *p = (const char *)t;
    const _Bool inside = p >= (const char *)ARR && p < (const char *)ARR + cmv_total * sizeof(struct trial) && (size_t)(p - (const char *)ARR) % sizeof(struct trial) == 0u;
    if (!inside) { cmv_bad_ptr++; return; }
    const uint64_t idx = (uint64_t)(p - (const char *)ARR) / sizeof(struct trial);
    OBT("C19-O1", cmi_logger_trial_idx == idx, "the trial index visible to the logger is the index of the element being run");
    OBT("C19-O1", !cmv_have_last || idx > cmv_last_idx, "a worker runs the indices it draws in increasing order, never one twice");
    cmv_have_last = 1; cmv_last_idx = idx;
    for (unsigned k = 0; k < NT; k++) if (k == idx) cmv_ran[k]++;
    ((struct trial *)t)->payload[0] ^= 1u;          /* the trial may write its own element */
}
/* Interference at the granularity of the atomic operations (the only accesses to shared mutable
 * state): before every atomic operation of "our" worker, other workers may complete up to 2 draws of
 * their own (and run what they drew).  The operation itself is the real builtin. */
static void cmv_others_draw(void)
{
#ifdef H_WORKER
    uint64_t k = nondet_u8(); ASSUME(k <= 2u);
    for (uint64_t j = 0; j < 2u; j++) if (j < k) { const uint64_t o = __atomic_fetch_add(&cmg_next_trial_idx, 1, __ATOMIC_SEQ_CST); for (unsigned q = 0; q < NT; q++) if (q == o && o < cmv_total) cmv_ran[q]++; }
#endif
}
static uint64_t cmv_fetch_add(uint64_t *p, uint64_t v) { cmv_others_draw(); return __atomic_fetch_add(p, v, __ATOMIC_SEQ_CST); }
static uint64_t cmv_load(uint64_t *p) { cmv_others_draw(); return __atomic_load_n(p, __ATOMIC_SEQ_CST); }
#define __atomic_fetch_add(p, v, m) cmv_fetch_add((p), (v))
#define __atomic_load_n(p, m) cmv_load(p)

/* threads: created = run to completion at once (one legal schedule); joined at most once each */
static unsigned cmv_ncreated, cmv_njoined; static _Bool cmv_join_ok = 1;
int pthread_create(pthread_t *th, const pthread_attr_t *attr, void *(*start)(void *), void *arg)
{
    *th = (pthread_t)(cmv_ncreated + 1u);
    cmv_ncreated++;
    cmv_have_last = 0;
    (void)start(arg);
    return 0;
}
int pthread_join(pthread_t th, void **ret)
{
    if (!(th >= 1u && th <= cmv_ncreated && th == cmv_njoined + 1u)) cmv_join_ok = 0;
    cmv_njoined++;
    return 0;
}
/* the SSE control register: a ghost cell behind the two compiler builtins */
static unsigned cmv_mxcsr = 0x1f80u;
void __builtin_ia32_ldmxcsr(unsigned v) { cmv_mxcsr = v; }
unsigned __builtin_ia32_stmxcsr(void) { return cmv_mxcsr; }
#include <xmmintrin.h>
#include "src/cimba.c"
#undef __atomic_fetch_add
#undef __atomic_load_n

static void reset(void)
{
    for (unsigned k = 0; k < NT; k++) cmv_ran[k] = 0;
    cmv_bad_ptr = 0; cmv_ncalls = 0; cmv_ncleanup = 0; cmv_have_last = 0; cmv_ncreated = 0; cmv_njoined = 0; cmv_join_ok = 1;
}

#ifdef H_WORKER
void h_worker(void)
{
    reset();
    cmv_total = nondet_u8(); ASSUME(cmv_total >= 1u && cmv_total <= NT);
    /* arbitrary state of the dispenser when this worker starts (others may have drawn already, and
     * already ran what they drew) */
    const uint64_t start = nondet_u8(); ASSUME(start <= NT + 1u);
    for (unsigned k = 0; k < NT; k++) if (k < start && k < cmv_total) cmv_ran[k] = 1;
    cmg_next_trial_idx = start; cmg_experiment_arr = ARR; cmg_trial_struct_sz = sizeof(struct trial); cmg_trial_func = trial_stub; cmg_total_trials = cmv_total;
    (void)worker_thread_func(NULL);
    OBT("C19-O1", cmv_bad_ptr == 0, "every call gets a pointer to an element of the trial array (base + index * size, index < number of trials)");
    OBT("C19-O1", cmg_next_trial_idx >= cmv_total, "the worker only stops when the dispenser has passed the last trial");
    for (unsigned k = 0; k < NT; k++) OBT("C19-O1", cmv_ran[k] == (k < cmv_total ? 1u : 0u), "every element is run exactly once (by this worker or by the one that drew its index), nothing beyond the array is run");
    OBT("C19-O1", cmv_ncleanup == 1, "the worker releases its thread-local pools exactly once before it ends");
    CANARY("experiment worker: end reachable");
}
#endif

#ifdef H_RUN
void h_run(void)
{
    reset();
    cmv_total = nondet_u8(); ASSUME(cmv_total >= 1u && cmv_total <= 3u);
    cmv_ncores = nondet_u8(); ASSUME(cmv_ncores >= 1u && cmv_ncores <= 3u);      /* required of cmi_cpu_cores: at least one */
    cimba_run_experiment(ARR, cmv_total, sizeof(struct trial), trial_stub);
    for (unsigned k = 0; k < NT; k++) OBT("C19-O2", cmv_ran[k] == (k < cmv_total ? 1u : 0u), "run_experiment calls the trial function exactly once for every element (fewer, as many, or more trials than cores) and for nothing else");
    OBT("C19-O2", cmv_bad_ptr == 0, "each call gets its own element");
    OBT("C19-O2", cmv_ncreated == cmv_ncores && cmv_njoined == cmv_ncores && cmv_join_ok, "every created worker thread is joined exactly once before run_experiment returns");
    OBT("C19-O2", cmv_ncleanup == cmv_ncores, "every worker cleans up its thread-local pools");
    CANARY("experiment run: end reachable");
}
#endif
