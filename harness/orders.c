/*
 * orders.c - the five comparison functions handed to cmi_hashheap_initialize, each proved
 * (loop-free, every bit pattern of the three sort fields) equal to the lexicographic
 * specification read off the property text, and to be a strict total order on distinct
 * keys (irreflexive, asymmetric, transitive, total) - which is what C02 assumes of an
 * arbitrary `heap_compare`.
 *
 * Select with -DORDER_EVENT / _GUARD / _HOLDER / _PRIOQ / _DEFAULT.
 */
#include "cmv_common.h"

#if defined(ORDER_EVENT)
#include "src/cmb_event.c"
#define CMP heap_order_check
#define TAG "C01-O1,C02-L4"
/* time ascending, then priority DESCENDING, then handle ascending */
#define SPEC(a,b) ((a)->dsortkey < (b)->dsortkey || ((a)->dsortkey == (b)->dsortkey && \
        ((a)->isortkey > (b)->isortkey || ((a)->isortkey == (b)->isortkey && (a)->key < (b)->key))))
#elif defined(ORDER_GUARD)
#include "src/cmb_resourceguard.c"
#define CMP guard_queue_check
#define TAG "C06-O1,C02-L4"
/* priority DESCENDING, then entry time ascending, then key ascending */
#define SPEC(a,b) ((a)->isortkey > (b)->isortkey || ((a)->isortkey == (b)->isortkey && \
        ((a)->dsortkey < (b)->dsortkey || ((a)->dsortkey == (b)->dsortkey && (a)->key < (b)->key))))
#elif defined(ORDER_HOLDER)
#include "src/cmb_resourcepool.c"
#define CMP holder_queue_check
#define TAG "C07-O5,C02-L4"
/* victims: priority ASCENDING (lowest first), then key (address) DESCENDING */
#define SPEC(a,b) ((a)->isortkey < (b)->isortkey || ((a)->isortkey == (b)->isortkey && (a)->key > (b)->key))
#define NO_DKEY 1
#elif defined(ORDER_PRIOQ)
#include "src/cmb_priorityqueue.c"
#define CMP compare_func
#define TAG "C12-O1,C02-L4"
/* priority DESCENDING, then handle ascending (FIFO) */
#define SPEC(a,b) ((a)->isortkey > (b)->isortkey || ((a)->isortkey == (b)->isortkey && (a)->key < (b)->key))
#define NO_DKEY 1
#elif defined(ORDER_DEFAULT)
#include "src/cmi_hashheap.c"
#define CMP default_order_check
#define TAG "C02-L4"
#define SPEC(a,b) ((a)->dsortkey < (b)->dsortkey)
#define WEAK_ONLY 1
#endif

static void mk(struct cmi_heap_tag *t)
{
    t->key = nondet_u64();
    t->hash_index = nondet_u64();
    t->item[0] = nondet_ptr(); t->item[1] = nondet_ptr();
    t->item[2] = nondet_ptr(); t->item[3] = nondet_ptr();
    t->dsortkey = nondet_double();
    t->isortkey = nondet_i64();
    /* sort times are never NaN: cmb_event_schedule asserts time >= clock, waiting lists
     * use cmb_time(). Infinities are allowed. */
    ASSUME(t->dsortkey == t->dsortkey);
}

void h_order(void)
{
    struct cmi_heap_tag a, b, c;
    mk(&a); mk(&b); mk(&c);

    const bool ab = CMP(&a, &b), ba = CMP(&b, &a), bc = CMP(&b, &c), ac = CMP(&a, &c);
    const bool ca = CMP(&c, &a), cb = CMP(&c, &b);

    OBT(TAG, ab == (bool)SPEC(&a, &b), "compare(a,b) equals the lexicographic order of the property statement");
    OBT(TAG, !CMP(&a, &a), "irreflexive");
    OBT(TAG, !(ab && ba), "asymmetric");
    OBT(TAG, !(ab && bc) || ac, "transitive");
#ifndef WEAK_ONLY
    OBT(TAG, a.key == b.key || ab || ba, "total on distinct keys");
#else
    /* strict weak order: incomparability is transitive */
    OBT(TAG, !(!ab && !ba && !bc && !cb) || (!ac && !ca), "incomparability transitive (strict weak order)");
#endif
    /* frame: compare functions do not write their operands (checked through const and the
     * assigns-free body: the tags are locals re-read here) */
    CANARY("orders: end of harness reachable");
}
