/*
 * hashheap.c - src/cmi_hashheap.c under contract (C02).
 *
 * Representation invariant WF(hp) and abstract view (the set of (key, payload[4], dsortkey,
 * isortkey) of heap[1..count]) are executable predicates below.  Every public operation is run
 * from an ARBITRARY state satisfying WF (not from the initial state forward), so a history of any
 * length is covered by induction; the SIZE of the structure is capped per group (CMV_EXP).
 *
 * The multiplicative hash is abstracted (goto-instrument --replace-calls hash_key:cmv_hash_abs) by
 * an uninterpreted function of (key, exponent) masked to the map size; C02.L0 proves the range fact
 * for the real hash_key.  Nothing else of the file is replaced; cmi_aligned_alloc / cmi_pagesize are
 * the contract stubs of the port layer (fresh, page-sized, zero-length never requested).
 *
 * "Ghost index instead of forall": preservation of the view is checked for one arbitrary key G
 * (and one arbitrary slot), which is a universally quantified statement.
 */
#include "cmv_common.h"
#include "cmi_hashheap.h"
#include "cmi_memutils.h"

#ifndef CMV_EXP
#define CMV_EXP 1
#endif
#define CAP (1u << CMV_EXP)          /* heap capacity of the pre-state */
#define HSZ (2u * CAP)               /* hash map slots of the pre-state */

/* port layer stubs */
size_t cmi_pagesize(void) { return 64u; }   /* any power of two > 8 satisfies the port-layer contract; small keeps objects small */
void *cmi_aligned_alloc(size_t align, size_t sz)
{
    __CPROVER_assert(align > 8u && (align & (align - 1u)) == 0u && sz > 8u && sz % align == 0u, "cmi_aligned_alloc precondition (port layer asserts it)");
    void *p = malloc(sz);
    ASSUME(p != NULL);
    return p;
}
void cmi_aligned_free(void *p) { __CPROVER_assert(p != NULL, "cmi_aligned_free precondition"); free(p); }

uint64_t __CPROVER_uninterpreted_hash(uint64_t key, uint16_t exp);

/* memset / memcpy: the hashheap only clears and copies whole 8-byte-aligned tag arrays.  CBMC's
 * byte-wise models of the two functions make the queries run out of memory (320 single-byte updates
 * of a struct array), so they are given word-wise definitions here: same effect for the calls made
 * (8-byte aligned, multiple of 8 bytes, fill value 0), anything else is reported. */
static void *cmv_memset(void *s, int c, size_t n)
{
    __CPROVER_assert(c == 0 && n % 8u == 0u, "harness memset model: zero fill of a multiple of 8 bytes");
    __CPROVER_assert(__CPROVER_w_ok(s, n), "memset destination writable for n bytes");
    uint64_t *w = (uint64_t *)s;
    for (size_t i = 0; i < n / 8u; i++) w[i] = 0u;
    return s;
}
static void *cmv_memcpy(void *d, const void *s, size_t n)
{
    __CPROVER_assert(n % 8u == 0u, "harness memcpy model: multiple of 8 bytes");
    __CPROVER_assert(__CPROVER_w_ok(d, n) && __CPROVER_r_ok(s, n), "memcpy operands valid for n bytes");
    uint64_t *dw = (uint64_t *)d; const uint64_t *sw = (const uint64_t *)s;
    for (size_t i = 0; i < n / 8u; i++) dw[i] = sw[i];
    return d;
}
#define memset(s, c, n) cmv_memset(s, c, n)
#define memcpy(d, s, n) cmv_memcpy(d, s, n)

#include "src/cmi_hashheap.c"

/* replaces hashheap_grow in the groups that verify the not-full part of enqueue */
void cmv_grow_unreachable(struct cmi_hashheap *hp)
{
    __CPROVER_assert(0, "C02-L3: hashheap_grow is called only when the heap is full");
    __CPROVER_assume(0);
}
/* replaces hash_key (static) at every call site */
uint64_t cmv_hash_abs(const struct cmi_hashheap *hp, const uint64_t key)
{
    return __CPROVER_uninterpreted_hash(key, hp->heap_exp_cur) & (hp->hash_size - 1u);
}

/* ---- the configured ordering: an arbitrary member of the family used in the library --------
 * mode 0: strict weak order with ties (like default_order_check): isortkey ascending
 * mode 1: strict total order (like the event / guard / holder / priority-queue orders):
 *         isortkey descending, then key ascending.  Integer keys only keep the queries cheap;
 *         the five real comparison functions are proved strict (total/weak) orders in C02.L4. */
static int cmv_mode;
static bool cmv_cmp(const struct cmi_heap_tag *a, const struct cmi_heap_tag *b)
{
    if (cmv_mode == 0) return a->isortkey < b->isortkey;
    if (a->isortkey > b->isortkey) return true;
    if (a->isortkey < b->isortkey) return false;
    return a->key < b->key;
}

/* ---- representation invariant ------------------------------------------------------------- */
static bool cmv_wf(const struct cmi_hashheap *hp)
{
    if (hp->heap == NULL || hp->hash_map == NULL) return false;
    if (hp->heap_exp_cur < 1u || hp->heap_exp_cur > 30u) return false;
    if (hp->heap_size != ((uint64_t)1u << hp->heap_exp_cur) || hp->hash_size != 2u * hp->heap_size) return false;
    if (hp->heap_count > hp->heap_size) return false;
    if (hp->heap_compare == NULL) return false;
    const uint64_t n = hp->heap_count, hs = hp->hash_size;
    for (uint64_t i = 1; i <= n; i++) {
        const struct cmi_heap_tag *t = &hp->heap[i];
        if (t->key == 0u) return false;
        if (t->hash_index >= hs) return false;
        if (hp->hash_map[t->hash_index].key != t->key || hp->hash_map[t->hash_index].heap_index != i) return false;
        /* probe-chain condition: from the home slot to the entry's slot no never-used slot and no
         * other slot carrying the same key */
        uint64_t s = cmv_hash_abs(hp, t->key);
        for (uint64_t step = 0; step < hs; step++) {
            if (s == t->hash_index) break;
            if (hp->hash_map[s].key == 0u || hp->hash_map[s].key == t->key) return false;
            s = (s + 1u) & (hs - 1u);
        }
        if (s != t->hash_index) return false;
        /* heap order */
        if (i >= 2u && cmv_cmp(t, &hp->heap[i >> 1])) return false;
    }
    for (uint64_t s = 0; s < hs; s++) {
        const struct cmi_hash_tag *h = &hp->hash_map[s];
        if (h->heap_index != 0u) {
            if (h->heap_index > n) return false;
            if (hp->heap[h->heap_index].hash_index != s) return false;
        }
        if (h->key == 0u && h->heap_index != 0u) return false;
    }
    return true;
}

/* index of key k in the heap, 0 if absent (abstract lookup, by scanning the heap) */
static uint64_t cmv_index_of(const struct cmi_hashheap *hp, uint64_t k)
{
    for (uint64_t i = 1; i <= hp->heap_count; i++)
        if (hp->heap[i].key == k) return i;
    return 0u;
}
/* payload words are opaque to the hashheap; they are drawn from a pool of distinct valid addresses
 * (plus NULL) because CBMC's pointer encoding does not round-trip arbitrary integers */
static char cmv_pool[6];
static void *cmv_payload(void) { unsigned i = nondet_u8(); ASSUME(i <= 6u); return i == 6u ? NULL : (void *)&cmv_pool[i]; }
#define P(x) ((const void *)(x))
static bool cmv_same_entry(const struct cmi_heap_tag *a, const struct cmi_heap_tag *b)
{
    /* payload words are compared as integers (they are opaque to the hashheap) */
    return a->key == b->key && P(a->item[0]) == P(b->item[0]) && P(a->item[1]) == P(b->item[1]) && P(a->item[2]) == P(b->item[2])
        && P(a->item[3]) == P(b->item[3]) && a->isortkey == b->isortkey
        && (a->dsortkey == b->dsortkey || (a->dsortkey != a->dsortkey && b->dsortkey != b->dsortkey));
}
/* is e a minimum of the heap under the configured order */
static bool cmv_is_min(const struct cmi_hashheap *hp, const struct cmi_heap_tag *e)
{
    for (uint64_t i = 1; i <= hp->heap_count; i++)
        if (cmv_cmp(&hp->heap[i], e)) return false;
    return true;
}

/* Harness-side reads of an entry at a symbolic index go through a constant-index case split:
 * in this model CBMC 6.11 returns an unconstrained value for the pointer-typed member item[0]
 * read through a symbolic index (a spurious failure, observed and bisected; a constant index is
 * exact).  Nothing in the verified code is affected by this helper. */
static struct cmi_heap_tag *cmv_at(struct cmi_hashheap *hp, uint64_t i)
{
    for (uint64_t c = 0; c <= 2u * CAP + 1u; c++) if (i == c) return &hp->heap[c];
    __CPROVER_assert(0, "harness: index beyond the modelled capacity");
    return &hp->heap[0];
}
#define AT(i) cmv_at(&HP, (i))

/* ---- arbitrary WF pre-state ------------------------------------------------------------------ */
static struct cmi_hashheap HP;
static struct cmi_heap_tag cmv_ghost0;      /* copy of the ghost entry in the pre-state (if present) */
static uint64_t G, cmv_gidx0, cmv_count0;

static void setup(void)
{
    cmv_mode = nondet_bool() ? 1 : 0;
    /* the layout that cmi_hashheap_initialize / hashheap_grow produce: one block, the heap tags
     * (capacity + 2 of them) followed directly by the hash map (checked for the real initialize in
     * h_clear's reset branch and for grow in h_enqueue through WF afterwards) */
    struct cmv_block { struct cmi_heap_tag heap[CAP + 2u]; struct cmi_hash_tag hash[HSZ]; } *blk = malloc(sizeof *blk);
    ASSUME(blk != NULL);
    HP.heap = blk->heap; HP.hash_map = blk->hash;
    HP.heap_exp_init = nondet_u16(); ASSUME(HP.heap_exp_init >= 1u && HP.heap_exp_init <= CMV_EXP);
    HP.heap_exp_cur = CMV_EXP; HP.heap_size = CAP; HP.hash_size = HSZ; HP.heap_compare = cmv_cmp;
    /* arbitrary content */
    HP.heap_count = nondet_u64();
    ASSUME(HP.heap_count <= CAP);
#ifdef CMV_COUNT_MIN
    ASSUME(HP.heap_count >= CMV_COUNT_MIN);
#endif
    HP.item_counter = nondet_u64();
    ASSUME(HP.item_counter < UINT64_MAX - 4u);            /* 2^64 handles never issued: listed assumption */
    for (unsigned i = 0; i < CAP + 2u; i++) {
        HP.heap[i].key = nondet_u64(); HP.heap[i].hash_index = nondet_u64();
        HP.heap[i].item[0] = cmv_payload(); HP.heap[i].item[1] = cmv_payload(); HP.heap[i].item[2] = cmv_payload(); HP.heap[i].item[3] = cmv_payload();
        HP.heap[i].dsortkey = nondet_double(); HP.heap[i].isortkey = nondet_i64();
    }
    for (unsigned s = 0; s < HSZ; s++) { HP.hash_map[s].key = nondet_u64(); HP.hash_map[s].heap_index = nondet_u64(); }
    ASSUME(cmv_wf(&HP));
    /* automatically issued keys are the counter values: keys in the heap issued so far are <= counter
     * unless supplied by the caller; nothing is assumed about that here (any key set). */
    G = nondet_u64(); ASSUME(G != 0u);
    cmv_gidx0 = cmv_index_of(&HP, G);
    /* copied with a constant index per case: a struct copy through a symbolic index into the
     * dynamic object loses pointer-typed members in CBMC 6.11 */
    for (unsigned i = 1; i <= CAP; i++) if (cmv_gidx0 == i) {
        cmv_ghost0.key = HP.heap[i].key; cmv_ghost0.isortkey = HP.heap[i].isortkey; cmv_ghost0.dsortkey = HP.heap[i].dsortkey;
        cmv_ghost0.item[0] = HP.heap[i].item[0]; cmv_ghost0.item[1] = HP.heap[i].item[1]; cmv_ghost0.item[2] = HP.heap[i].item[2]; cmv_ghost0.item[3] = HP.heap[i].item[3];
    }
    cmv_count0 = HP.heap_count;
}
/* the ghost entry is still present and identical */
#define GHOST_KEPT() (cmv_gidx0 == 0u ? cmv_index_of(&HP, G) == 0u : (cmv_index_of(&HP, G) != 0u && cmv_same_entry(AT(cmv_index_of(&HP, G)), &cmv_ghost0)))

#define T "C02-L3"

#ifdef H_ENQUEUE
void h_enqueue(void)
{
    setup();
    void *p1 = cmv_payload(), *p2 = cmv_payload(), *p3 = cmv_payload(), *p4 = cmv_payload();
    uint64_t key = nondet_u64();
    const double dk = nondet_double(); const int64_t ik = nondet_i64();
    /* documented precondition: a caller-supplied key is not already enqueued; an automatic key
     * (counter + 1) is fresh because handles are never reissued */
    const uint64_t eff = key ? key : HP.item_counter + 1u;
    ASSUME(cmv_index_of(&HP, eff) == 0u);
    const uint64_t ctr0 = HP.item_counter;
    const uint16_t exp0 = HP.heap_exp_cur;
    const bool was_full = (HP.heap_count == HP.heap_size);
#ifdef CMV_NOGROW
    ASSUME(!was_full);
#endif
#ifdef CMV_GROW
    ASSUME(was_full);
#endif
    const struct cmi_heap_tag slot0 = HP.heap[0];
    const uint64_t r = cmi_hashheap_enqueue(&HP, p1, p2, p3, p4, key, dk, ik);
    OBT(T, cmv_wf(&HP), "enqueue preserves the representation invariant (incl. across a capacity doubling)");
    OBT(T, r == eff && HP.item_counter == ctr0 + 1u, "enqueue returns the supplied key, or the incremented counter for key 0");
    OBT(T, HP.heap_count == cmv_count0 + 1u, "count grows by one");
    const uint64_t ni = cmv_index_of(&HP, eff);
    OBT(T, ni != 0u && P(AT(ni)->item[0]) == P(p1) && P(AT(ni)->item[1]) == P(p2) && P(AT(ni)->item[2]) == P(p3) && P(AT(ni)->item[3]) == P(p4)
           && AT(ni)->isortkey == ik && (AT(ni)->dsortkey == dk || dk != dk), "the new entry carries exactly the given payload and sort keys under its key");
    OBT(T, G == eff || GHOST_KEPT(), "every other entry is unchanged (key, payload, sort keys)");
    OBT(T, HP.heap_exp_cur == exp0 + (was_full ? 1u : 0u), "capacity doubles exactly when the heap was full");
    OBT(T, cmv_same_entry(&HP.heap[0], &slot0) && HP.heap[0].key == slot0.key, "slot 0 (the current item) survives enqueue and growth");
    CANARY("hashheap enqueue: end reachable");
#ifdef CMV_GROW
    CANARY("hashheap enqueue: growth path reachable");
#endif
}
#endif

#ifdef H_GROW
/* hashheap_grow alone, from a full well-formed heap: the doubled structure is well-formed, holds the
 * same view, is no longer full, and slot 0 survives.  Together with C02.L3.enqueue_nogrow (where the
 * call of hashheap_grow is shown unreachable unless the heap is full, and the rest of enqueue is
 * verified from any non-full WF state) this gives enqueue across a doubling. */
void h_grow(void)
{
    setup();
    ASSUME(HP.heap_count == HP.heap_size);
    const struct cmi_heap_tag slot0 = HP.heap[0];
    const uint64_t ctr0 = HP.item_counter;
    hashheap_grow(&HP);
    OBT(T, HP.heap_exp_cur == CMV_EXP + 1u && HP.heap_size == 2u * CAP && HP.hash_size == 4u * CAP, "grow doubles the capacity and the hash map");
    OBT(T, cmv_wf(&HP), "grow preserves the representation invariant (rehash into the new map: every live key found again, no tombstones needed)");
    OBT(T, HP.heap_count == cmv_count0 && HP.heap_count < HP.heap_size && HP.item_counter == ctr0, "grow keeps count and key counter; the heap is no longer full");
    OBT(T, GHOST_KEPT(), "grow keeps every entry (key, payload, sort keys)");
    OBT(T, cmv_same_entry(&HP.heap[0], &slot0), "grow keeps slot 0 (the current item)");
    OBT(T, (void *)HP.hash_map == (void *)(HP.heap + HP.heap_size + 2u), "the new hash map lies directly behind capacity + 2 heap tags");
    CANARY("hashheap grow: end reachable");
}
#endif

#ifdef H_INIT
void h_init(void)
{
    struct cmi_hashheap hp;
    hp.heap = NULL; hp.hash_map = NULL; hp.item_counter = nondet_u64();
    const uint16_t e = nondet_u16(); ASSUME(e >= 1u && e <= CMV_EXP);
    cmv_mode = nondet_bool() ? 1 : 0;
    cmi_hashheap_initialize(&hp, e, nondet_bool() ? cmv_cmp : NULL);
    OBT(T, hp.heap_exp_init == e && hp.heap_exp_cur == e && hp.heap_size == ((uint64_t)1u << e) && hp.hash_size == 2u * hp.heap_size && hp.heap_count == 0u, "initialize: sizes from the exponent, empty");
    OBT(T, hp.heap != NULL && (void *)hp.hash_map == (void *)(hp.heap + hp.heap_size + 2u), "initialize: the hash map lies directly behind capacity + 2 heap tags");
    OBT(T, hp.heap_compare != NULL, "initialize: a comparison is configured (default order for NULL)");
    bool zero = true;
    for (uint64_t s = 0; s < hp.hash_size; s++) if (hp.hash_map[s].key != 0u || hp.hash_map[s].heap_index != 0u) zero = false;
    OBT(T, zero, "initialize: every hash slot never-used");
    const uint64_t g = nondet_u64(); ASSUME(g != 0u);
    OBT(T, !cmi_hashheap_is_enqueued(&hp, g) && cmi_hashheap_dequeue(&hp) == NULL, "initialize: the empty view");
    CANARY("hashheap init: end reachable");
}
#endif

#ifdef H_DEQUEUE
void h_dequeue(void)
{
    setup();
    const struct cmi_heap_tag top = HP.heap[1];
    void **r = cmi_hashheap_dequeue(&HP);
    if (cmv_count0 == 0u) {
        OBT(T, r == NULL && HP.heap_count == 0u && cmv_wf(&HP), "dequeue on an empty heap returns NULL and changes nothing");
    } else {
        OBT(T, cmv_wf(&HP), "dequeue preserves the representation invariant");
        OBT(T, HP.heap_count == cmv_count0 - 1u, "count shrinks by one");
        OBT(T, r == (void **)HP.heap[0].item && cmv_same_entry(&HP.heap[0], &top), "dequeue returns the payload of the former root, copied to slot 0 with its key and sort keys");
        OBT(T, cmv_is_min(&HP, &HP.heap[0]), "the dequeued entry is a minimum under the configured order: nothing left goes before it");
        OBT(T, cmv_index_of(&HP, top.key) == 0u && cmi_hash_find_index(&HP, top.key) == 0u, "the dequeued key is no longer enqueued");
        OBT(T, G == top.key || GHOST_KEPT(), "every other entry is unchanged");
    }
    CANARY("hashheap dequeue: end reachable");
}
#endif

#ifdef H_REMOVE
void h_remove(void)
{
    setup();
    const uint64_t k = nondet_u64(); ASSUME(k != 0u);
    const uint64_t idx0 = cmv_index_of(&HP, k);
    const bool r = cmi_hashheap_remove(&HP, k);
    OBT(T, cmv_wf(&HP), "remove preserves the representation invariant");
    OBT(T, r == (idx0 != 0u), "remove reports whether the key was enqueued");
    OBT(T, HP.heap_count == cmv_count0 - (idx0 != 0u ? 1u : 0u), "count shrinks by one iff the key was enqueued");
    OBT(T, cmv_index_of(&HP, k) == 0u, "the key is gone");
    OBT(T, G == k || GHOST_KEPT(), "exactly the entry with that key is affected");
    CANARY("hashheap remove: end reachable");
}
#endif

#ifdef H_REPRIO
void h_reprio(void)
{
    setup();
    const uint64_t k = nondet_u64(); ASSUME(k != 0u);
    const uint64_t idx0 = cmv_index_of(&HP, k);
    ASSUME(idx0 != 0u);                          /* documented precondition: the key is enqueued */
    const struct cmi_heap_tag e0 = *AT(idx0);
    const double dk = nondet_double(); const int64_t ik = nondet_i64();
    const struct cmi_heap_tag slot0 = HP.heap[0];
    cmi_hashheap_reprioritize(&HP, k, dk, ik);
    OBT(T, cmv_same_entry(&HP.heap[0], &slot0), "slot 0 (the current item) survives reprioritize");
    OBT(T, cmv_wf(&HP), "reprioritize preserves the representation invariant (heap order restored)");
    OBT(T, HP.heap_count == cmv_count0, "count unchanged");
    const uint64_t ni = cmv_index_of(&HP, k);
    OBT(T, ni != 0u && AT(ni)->isortkey == ik && (AT(ni)->dsortkey == dk || dk != dk)
           && P(AT(ni)->item[0]) == P(e0.item[0]) && P(AT(ni)->item[1]) == P(e0.item[1]) && P(AT(ni)->item[2]) == P(e0.item[2]) && P(AT(ni)->item[3]) == P(e0.item[3]),
        "the entry keeps its key and payload and carries the new sort keys");
    OBT(T, G == k || GHOST_KEPT(), "exactly the entry with that key is affected");
    CANARY("hashheap reprioritize: end reachable");
}
#endif

#ifdef H_QUERIES
void h_queries(void)
{
    setup();
    const uint64_t k = nondet_u64(); ASSUME(k != 0u);
    const uint64_t idx0 = cmv_index_of(&HP, k);
    OBT("C02-L1", cmi_hash_find_index(&HP, k) == idx0, "lookup returns the heap index of a live key and 0 for every other key (tombstones, collisions, never seen)");
    OBT(T, cmi_hashheap_is_enqueued(&HP, k) == (idx0 != 0u), "is_enqueued agrees with the set of live keys");
    OBT(T, cmi_hashheap_count(&HP) == cmv_count0 && cmi_hashheap_is_empty(&HP) == (cmv_count0 == 0u), "count / is_empty agree with the number of live keys");
    if (idx0 != 0u) {
        OBT(T, cmi_hashheap_item(&HP, k) == (void **)AT(idx0)->item, "item returns the payload attached to the key");
        const double d = cmi_hashheap_dkey(&HP, k);
        OBT(T, (d == AT(idx0)->dsortkey || d != d) && cmi_hashheap_ikey(&HP, k) == AT(idx0)->isortkey, "dkey / ikey return the sort keys attached to the key");
    }
    if (cmv_count0 > 0u) {
        void **p = cmi_hashheap_peek_item(&HP);
        OBT(T, p == HP.heap[1].item && cmv_is_min(&HP, &HP.heap[1]), "peek returns a minimum under the configured order");
        OBT(T, cmi_hashheap_peek_ikey(&HP) == HP.heap[1].isortkey, "peek_ikey is the front entry's key");
    } else {
        OBT(T, cmi_hashheap_peek_item(&HP) == NULL, "peek on an empty heap returns NULL");
    }
    OBT(T, cmv_wf(&HP) && GHOST_KEPT(), "queries change nothing");
    CANARY("hashheap queries: end reachable");
}
#endif

#ifdef H_PATTERN
static bool cmv_match(const struct cmi_heap_tag *t, const void *v1, const void *v2, const void *v3, const void *v4)
{
    return (P(v1) == P(CMI_ANY_ITEM) || P(v1) == P(t->item[0])) && (P(v2) == P(CMI_ANY_ITEM) || P(v2) == P(t->item[1]))
        && (P(v3) == P(CMI_ANY_ITEM) || P(v3) == P(t->item[2])) && (P(v4) == P(CMI_ANY_ITEM) || P(v4) == P(t->item[3]));
}
void h_pattern(void)
{
    setup();
    const void *v1 = nondet_bool() ? CMI_ANY_ITEM : cmv_payload(), *v2 = nondet_bool() ? CMI_ANY_ITEM : cmv_payload();
    const void *v3 = nondet_bool() ? CMI_ANY_ITEM : cmv_payload(), *v4 = nondet_bool() ? CMI_ANY_ITEM : cmv_payload();
    uint64_t nmatch = 0;
    for (uint64_t i = 1; i <= HP.heap_count; i++) if (cmv_match(&HP.heap[i], v1, v2, v3, v4)) nmatch++;
    const bool g_matches = cmv_gidx0 != 0u && cmv_match(&cmv_ghost0, v1, v2, v3, v4);
#ifdef CMV_PAT_WHICH
    const int which = CMV_PAT_WHICH;
#else
    const int which = nondet_int();
#endif
    if (which == 0) {
        const uint64_t k = cmi_hashheap_pattern_find(&HP, v1, v2, v3, v4);
        OBT(T, (k == 0u) == (nmatch == 0u), "pattern_find returns 0 iff nothing matches");
        OBT(T, k == 0u || (cmv_index_of(&HP, k) != 0u && cmv_match(AT(cmv_index_of(&HP, k)), v1, v2, v3, v4)), "pattern_find returns the key of a matching live entry");
        OBT(T, cmv_wf(&HP) && GHOST_KEPT() && HP.heap_count == cmv_count0, "pattern_find changes nothing");
    } else if (which == 1) {
        OBT(T, cmi_hashheap_pattern_count(&HP, v1, v2, v3, v4) == nmatch, "pattern_count is the number of matching live entries");
        OBT(T, cmv_wf(&HP) && GHOST_KEPT() && HP.heap_count == cmv_count0, "pattern_count changes nothing");
    } else {
        const uint64_t c = cmi_hashheap_pattern_cancel(&HP, v1, v2, v3, v4);
        OBT(T, c == nmatch && HP.heap_count == cmv_count0 - nmatch, "pattern_cancel removes as many entries as match and reports that number");
        OBT(T, cmv_wf(&HP), "pattern_cancel preserves the representation invariant");
        OBT(T, g_matches ? cmv_index_of(&HP, G) == 0u : GHOST_KEPT(), "pattern_cancel removes exactly the matching entries");
    }
    CANARY("hashheap pattern: end reachable");
}
#endif

#ifdef H_CLEAR
void h_clear(void)
{
    setup();
    const uint64_t ctr0 = HP.item_counter;
    const uint16_t exp0 = HP.heap_exp_cur;
#ifdef CMV_RESET
    cmi_hashheap_reset(&HP);
    OBT(T, HP.heap_exp_cur == HP.heap_exp_init && HP.heap_size == ((uint64_t)1u << HP.heap_exp_init), "reset returns to the initial capacity");
    OBT(T, (void *)HP.hash_map == (void *)(HP.heap + HP.heap_size + 2u), "initialize lays the hash map out directly behind capacity + 2 heap tags");
#else
    cmi_hashheap_clear(&HP);
    OBT(T, HP.item_counter == ctr0 && HP.heap_exp_cur == exp0, "clear keeps the key counter and the capacity");
    bool zero = true;
    for (unsigned s = 0; s < HSZ; s++) if (HP.hash_map[s].key != 0u || HP.hash_map[s].heap_index != 0u) zero = false;
    OBT(T, zero, "clear leaves no key behind in the hash map (every slot never-used)");
#endif
    OBT(T, cmv_wf(&HP) && HP.heap_count == 0u, "clear / reset give the empty view in a well-formed structure");
    OBT(T, cmv_index_of(&HP, G) == 0u && cmi_hash_find_index(&HP, G) == 0u && !cmi_hashheap_is_enqueued(&HP, G), "no key is enqueued afterwards");
    CANARY("hashheap clear: end reachable");
}
#endif

#ifdef H_HASHRANGE
/* L0: the REAL hash_key (no abstraction in this group) maps into the map for all keys/exponents */
void h_hashrange(void)
{
    struct cmi_hashheap hp;
    hp.heap_exp_cur = nondet_u16();
    ASSUME(hp.heap_exp_cur >= 1u && hp.heap_exp_cur <= 31u);
    hp.heap_size = (uint64_t)1u << hp.heap_exp_cur;
    hp.hash_size = 2u * hp.heap_size;
    const uint64_t k = nondet_u64();
    OBT("C02-L0", hash_key(&hp, k) < hp.hash_size, "hash_key(key) < hash_size for every key and every exponent 1..31");
    OBT("C02-L0", hash_key(&hp, k) == hash_key(&hp, k), "hash_key is a function of (key, exponent)");
    CANARY("hashheap hash range: end reachable");
}
#endif
