/*
 * objq.c - cmb_objectqueue_get / _put / _position under contract (C12; C08-O1, C14-O1 for the queue).
 * Real code: src/cmb_objectqueue.c.  Guard / time series / clock: contract stubs (cmv_guardstub.h).
 * Tag pool: cmi_mempool_alloc/_free redirected to plain allocation (contract of C20).
 *
 * Ghost sequence: the queue content at the start of the current atomic segment (call, or last
 * resumption) is the sequence SEQ[0..NSEQ) of <= 3 object values (NULL and duplicates allowed);
 * the environment step at a suspension point replaces the queue by an arbitrary well-formed one.
 * Bounded-shape (<= 3 queued objects) and bounded-unwind (<= 2 waits per call).
 */
#include "cmv_common.h"
#include "cmi_mempool.h"
#include "cmb_objectqueue.h"

static struct cmb_objectqueue *OQ;
#define NMAX 3u
static void *SEQ[NMAX + 1u]; static unsigned NSEQ;
static char cmv_objs[4];
static void *anyobj(void) { unsigned i = nondet_u8(); ASSUME(i <= 4u); return i == 4u ? NULL : (void *)&cmv_objs[i]; }

void cmi_mempool_expand(struct cmi_mempool *mp) { __CPROVER_assert(0, "harness: pool alloc is redirected"); }
static unsigned cmv_nalloc, cmv_nfree;
void *cmv_pool_alloc(struct cmi_mempool *mp) { if (cmv_nalloc < 3u) cmv_nalloc++; return malloc(mp->obj_sz); }
void cmv_pool_free(struct cmi_mempool *mp, void *op) { __CPROVER_assert(op != NULL, "mempool free: non-NULL"); if (cmv_nfree < 3u) cmv_nfree++; free(op); }

#define CMV_NGUARDS 2
#define CMV_GUARD_INDEX(p) ((p) == &OQ->front_guard ? 0 : 1)
#define CMV_DEMAND(gi) ((gi) == 0 ? (OQ->queue_head != NULL) : (OQ->length < OQ->capacity))
#define CMV_IREC (!OQ->is_recording || cmv_rec_x == (double)OQ->length)
static void build_queue(void);
static bool queue_is_seq(void);
#define CMV_ENV_HAVOC() do { build_queue(); if (OQ->is_recording) cmv_rec_x = (double)OQ->length; } while (0)
#define CMV_AT_YIELD() do { \
        OBT("C12-O2", queue_is_seq(), "at every suspension point the queue is exactly what it was when the segment began: a blocked get/put changes nothing"); \
        OBT("C12-O2", OQ->length <= OQ->capacity, "at every suspension point length <= capacity"); \
        OBT("C14-O1", CMV_IREC, "at every suspension point the last recorded sample equals the length"); \
    } while (0)
#define CMV_MAX_WAITS 2u
#include "cmv_guardstub.h"

#include "src/cmb_objectqueue.c"

/* the linked list spells SEQ, queue_end is its last node, length == NSEQ <= capacity */
static bool queue_is_seq(void)
{
    const struct queue_tag *t = OQ->queue_head, *last = NULL;
    for (unsigned i = 0; i < NMAX + 2u; i++) {
        if (i == NSEQ) return t == NULL && OQ->queue_end == last && OQ->length == NSEQ;
        if (t == NULL || t->object != SEQ[i]) return false;
        last = t; t = t->next;
    }
    return false;
}
static void build_queue(void)
{
    /* an arbitrary well-formed queue of n <= min(3, capacity) objects; old nodes are abandoned (they
     * belong to whoever took them) */
    unsigned n = nondet_u8(); ASSUME(n <= NMAX && n <= OQ->capacity);
    OQ->queue_head = NULL; OQ->queue_end = NULL;
    for (unsigned i = 0; i < NMAX; i++) if (i < n) {
        struct queue_tag *t = malloc(sizeof *t); t->object = anyobj(); t->next = NULL; SEQ[i] = t->object;
        if (OQ->queue_head == NULL) OQ->queue_head = t; else OQ->queue_end->next = t;
        OQ->queue_end = t;
    }
    OQ->length = n; NSEQ = n;
}
static void setup(void)
{
    cmv_stub_reset(); cmv_nalloc = 0; cmv_nfree = 0;
    OQ = malloc(sizeof *OQ);
    OQ->core.cookie = CMI_INITIALIZED; OQ->core.name[0] = 'q'; OQ->core.name[1] = 0;
    OQ->capacity = nondet_u64(); ASSUME(OQ->capacity > 0u);          /* 1, small, unlimited */
    OQ->is_recording = nondet_bool();
    objectqueue_tags.cookie = CMI_INITIALIZED; objectqueue_tags.obj_sz = sizeof(struct queue_tag); objectqueue_tags.next_obj = NULL;
    build_queue();
    cmv_clock = nondet_double(); ASSUME(cmv_clock == cmv_clock);
    cmv_grant[0] = nondet_bool(); cmv_grant[1] = nondet_bool();
    cmv_rec_x = nondet_double(); ASSUME(CMV_IREC); cmv_rec_t = cmv_clock;
}

#ifdef H_GET
void h_get(void)
{
    setup();
    void *got = &cmv_clock;             /* poison */
    const int64_t sig = cmb_objectqueue_get(OQ, &got);
    if (sig == CMB_PROCESS_SUCCESS) {
        OBT("C12-O2", NSEQ >= 1u && got == SEQ[0], "a successful get delivers the object at the head of the queue (FIFO)");
        /* the rest of the queue is the old tail */
        SEQ[0] = SEQ[1]; SEQ[1] = SEQ[2]; SEQ[2] = NULL; NSEQ--;
        OBT("C12-O2", queue_is_seq(), "after a successful get the queue is the old queue without its head: nothing lost, duplicated or reordered");
        OBT("C12-O2", cmv_nfree == 1 && cmv_nalloc == 0, "the tag of the delivered object goes back to the pool exactly once");
        OBT("C08-O1", cmv_nsig[1] >= 1, "a successful get signals the putters' guard: space has become available");
    } else {
        OBT("C12-O2", got == NULL, "a get that does not return SUCCESS delivers nothing");
        OBT("C12-O2", queue_is_seq() && cmv_nfree == 0, "a get that does not return SUCCESS leaves the queue unchanged");
        OBT("C12-O2", cmv_nwaits > 0 && sig == cmv_last_sig, "a non-SUCCESS return value is the signal delivered by the wait");
    }
    OBT("C12-O2", OQ->length <= OQ->capacity, "length <= capacity");
    OBT("C14-O1", CMV_IREC, "on return the last recorded sample equals the length");
    CANARY("objectqueue get: end reachable");
    if (sig == 0 && cmv_nwaits > 0) CANARY("objectqueue get: success after a wait reachable");
}
#endif

#ifdef H_PUT
void h_put(void)
{
    setup();
    void *obj = anyobj();
    const int64_t sig = cmb_objectqueue_put(OQ, obj);
    if (sig == CMB_PROCESS_SUCCESS) {
        OBT("C12-O2", NSEQ < NMAX + 1u, "harness bound");
        SEQ[NSEQ] = obj; NSEQ++;
        OBT("C12-O2", queue_is_seq(), "after a successful put the queue is the old queue followed by the new object (also when it was empty)");
        OBT("C12-O2", cmv_nalloc == 1 && cmv_nfree == 0, "exactly one tag is taken from the pool");
        OBT("C08-O1", cmv_nsig[0] >= 1, "a successful put signals the getters' guard: content has become available");
    } else {
        OBT("C12-O2", queue_is_seq() && cmv_nalloc == 0, "a put that does not return SUCCESS leaves the queue unchanged");
        OBT("C12-O2", cmv_nwaits > 0 && sig == cmv_last_sig, "a non-SUCCESS return value is the signal delivered by the wait");
    }
    OBT("C12-O2", OQ->length <= OQ->capacity, "the queue length never exceeds the capacity");
    OBT("C14-O1", CMV_IREC, "on return the last recorded sample equals the length");
    CANARY("objectqueue put: end reachable");
    if (sig == 0 && cmv_nwaits > 0) CANARY("objectqueue put: success after a wait reachable");
}
#endif

#ifdef H_MISC
void h_misc(void)
{
    setup();
    void *o = anyobj();
    uint64_t want = 0; for (unsigned i = NMAX; i >= 1u; i--) if (i <= NSEQ && SEQ[i - 1u] == o) want = i;
    OBT("C12-O3", cmb_objectqueue_position(OQ, o) == want, "position is the 1-based index of the first occurrence, 0 if absent: the order in which objects will be delivered");
    OBT("C12-O3", cmb_objectqueue_length(OQ) == NSEQ && cmb_objectqueue_space(OQ) == OQ->capacity - NSEQ, "length / space queries agree with the content");
    OBT("C12-O3", queue_is_seq(), "queries change nothing");
    if (nondet_bool()) { cmb_objectqueue_recording_start(OQ); OBT("C14-O2", OQ->is_recording && cmv_rec_n == 1 && CMV_IREC && cmv_rec_t == cmv_clock, "recording_start records the current length"); }
    else { const _Bool was = OQ->is_recording; cmb_objectqueue_recording_stop(OQ); OBT("C14-O2", !OQ->is_recording && (!was || (cmv_rec_n == 1 && cmv_rec_x == (double)OQ->length)), "recording_stop records a final sample then switches off"); }
    CANARY("objectqueue misc: end reachable");
}
#endif
