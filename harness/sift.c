/*
 * sift.c - the two static sift functions of src/cmi_hashheap.c (heap_up, heap_down) under their own
 * contracts (C02 layer L1), on heaps of up to NS entries (default 7 = three full levels).
 *
 * Why a layer of its own: the L3 groups run every public operation from an arbitrary well-formed state
 * of capacity 2, and a two-element heap never has a right child and never sifts more than one level.
 * Here the real bodies are called directly from an arbitrary state satisfying the PRECONDITION each
 * call site establishes, and the postcondition is the part of the representation invariant the sifts
 * are responsible for.  The hash map takes no part in a sift except for the back pointers
 * hash_map[heap[i].hash_index].heap_index == i, so no hash abstraction is needed.
 *
 * heap_up(k)   requires  1 <= k <= count <= capacity; the heap order holds for every (child, parent) pair
 *                        except possibly (k, k/2); the children of k are not before the parent of k;
 *                        back pointers consistent; keys distinct.
 * heap_down(k) requires  the same with the exception being the pairs whose parent is k, and
 *                        k itself and its children are not before the parent of k.
 * both         ensure    heap order on every pair of 1..count; back pointers consistent; the multiset of
 *                        entries unchanged (ghost entry: present exactly once, key / payload / sort keys /
 *                        hash slot unchanged); count, slot 0, hash keys unchanged.
 * The preconditions are what enqueue (k = count, no children), dequeue (k = 1), remove and reprioritize establish:
 * those two pick the side by comparing the OLD entry at k with the NEW one - old before new: heap_down, and
 * new >= old >= parent(k), children(k) >= old >= parent(k); otherwise heap_up, and children(k) >= old >= new,
 * children(k) >= old >= parent(k) (transitivity of the strict weak order); that correspondence is checked by the L3
 * groups at capacity 2 and 4 with the real callers, for larger heaps it is the transitivity argument in
 * DESIGN.md.
 */
#include "cmv_common.h"
#include "cmi_hashheap.h"
#include "cmi_memutils.h"

#ifndef NS
#define NS 7u
#endif

#include "src/cmi_hashheap.c"

static int cmv_mode;
static bool cmv_cmp(const struct cmi_heap_tag *a, const struct cmi_heap_tag *b)
{
    if (cmv_mode == 0) return a->isortkey < b->isortkey;            /* strict weak order with ties */
    if (a->isortkey > b->isortkey) return true;                      /* strict total order */
    if (a->isortkey < b->isortkey) return false;
    return a->key < b->key;
}

static struct cmi_hashheap HP;
static struct cmi_heap_tag HEAP[NS + 2u];
static struct cmi_hash_tag HASH[NS];
static char cmv_pool[4];
static void *cmv_payload(void) { unsigned i = nondet_u8(); ASSUME(i <= 4u); return i == 4u ? NULL : (void *)&cmv_pool[i]; }

static struct cmi_heap_tag G0, SLOT0; static uint64_t GI, COUNT0, HKEY0[NS];

/* pair (c, c/2) respects the order */
#define PAIR_OK(c) (!cmv_cmp(&HEAP[c], &HEAP[(c) >> 1]))

static bool backptr_ok(void)
{
    for (unsigned i = 1; i <= NS; i++) if (i <= HP.heap_count) {
        if (HEAP[i].hash_index >= NS) return false;
        if (HASH[HEAP[i].hash_index].heap_index != i) return false;
    }
    return true;
}
static bool order_ok(void)
{
    for (unsigned c = 2; c <= NS; c++) if (c <= HP.heap_count && !PAIR_OK(c)) return false;
    return true;
}

/* down = false: exception is the pair (k, k/2); down = true: exceptions are the pairs whose parent is k */
static void setup(uint64_t *kp, bool down)
{
    cmv_mode = nondet_bool() ? 1 : 0;
    HP.heap = HEAP; HP.hash_map = HASH; HP.heap_compare = cmv_cmp;
    HP.heap_exp_init = 1u; HP.heap_exp_cur = 3u; HP.heap_size = 8u; HP.hash_size = 16u;   /* only count is read by the sifts */
    HP.heap_count = nondet_u64(); ASSUME(HP.heap_count >= 1u && HP.heap_count <= NS);
    HP.item_counter = nondet_u64();
    for (unsigned i = 0; i < NS + 2u; i++) {
        HEAP[i].key = nondet_u64(); HEAP[i].hash_index = nondet_u64();
        HEAP[i].item[0] = cmv_payload(); HEAP[i].item[1] = cmv_payload(); HEAP[i].item[2] = NULL; HEAP[i].item[3] = NULL;
        HEAP[i].dsortkey = nondet_double(); HEAP[i].isortkey = nondet_i64();
    }
    for (unsigned s = 0; s < NS; s++) { HASH[s].key = nondet_u64(); HASH[s].heap_index = nondet_u64(); HKEY0[s] = HASH[s].key; }
    const uint64_t k = nondet_u64(); ASSUME(k >= 1u && k <= HP.heap_count);
    /* keys distinct and non-zero */
    for (unsigned i = 1; i <= NS; i++) if (i <= HP.heap_count) {
        ASSUME(HEAP[i].key != 0u);
        for (unsigned j = i + 1u; j <= NS; j++) if (j <= HP.heap_count) ASSUME(HEAP[i].key != HEAP[j].key);
    }
    ASSUME(backptr_ok());
    for (unsigned c = 2; c <= NS; c++) if (c <= HP.heap_count) {
        const bool exception = down ? ((c >> 1) == k) : (c == k);
        if (!exception) ASSUME(PAIR_OK(c));
        /* the children of k are not before the parent of k */
        if ((c >> 1) == k && k >= 2u) ASSUME(!cmv_cmp(&HEAP[c], &HEAP[k >> 1]));
    }
    if (down && k >= 2u) ASSUME(PAIR_OK(k));
    /* ghost entry */
    GI = nondet_u64(); ASSUME(GI >= 1u && GI <= HP.heap_count);
    for (unsigned i = 1; i <= NS; i++) if (i == GI) G0 = HEAP[i];
    SLOT0 = HEAP[0]; COUNT0 = HP.heap_count;
    *kp = k;
}

#define T "C02-L1"
static void post(const char *unused)
{
    OBT(T, HP.heap_count == COUNT0, "a sift does not change the count");
    OBT(T, order_ok(), "after the sift the heap order holds for every (child, parent) pair: the front is a minimum");
    OBT(T, backptr_ok(), "after the sift every entry's hash slot points back at the entry's new index");
    unsigned found = 0, at = 0;
    for (unsigned i = 1; i <= NS; i++) if (i <= HP.heap_count && HEAP[i].key == G0.key) { found++; at = i; }
    OBT(T, found == 1u, "every entry is still present exactly once (nothing lost, nothing duplicated)");
    bool same = false;
    for (unsigned i = 1; i <= NS; i++) if (i == at)
        same = HEAP[i].item[0] == G0.item[0] && HEAP[i].item[1] == G0.item[1] && HEAP[i].item[2] == G0.item[2] && HEAP[i].item[3] == G0.item[3]
            && HEAP[i].isortkey == G0.isortkey && HEAP[i].hash_index == G0.hash_index
            && (HEAP[i].dsortkey == G0.dsortkey || (HEAP[i].dsortkey != HEAP[i].dsortkey && G0.dsortkey != G0.dsortkey));
    OBT(T, same, "payload, sort keys and hash slot stay attached to the key however the entry moves");
    OBT(T, HEAP[0].key == SLOT0.key && HEAP[0].item[0] == SLOT0.item[0] && HEAP[0].item[1] == SLOT0.item[1] && HEAP[0].isortkey == SLOT0.isortkey
           && HEAP[0].hash_index == SLOT0.hash_index, "slot 0 (the current item) is not touched by a sift");
    bool keys = true;
    for (unsigned s = 0; s < NS; s++) if (HASH[s].key != HKEY0[s]) keys = false;
    OBT(T, keys, "a sift writes no hash-map key");
}

#ifdef H_UP
void h_up(void)
{
    uint64_t k; setup(&k, false);
    heap_up(&HP, k);
    post("");
    CANARY("heap_up: end reachable");
    if (COUNT0 == NS && k == NS) CANARY("heap_up: deepest entry of a full three-level heap reachable");
}
#endif

#ifdef H_DOWN
void h_down(void)
{
    uint64_t k; setup(&k, true);
    heap_down(&HP, k);
    post("");
    CANARY("heap_down: end reachable");
    if (COUNT0 == NS && k == 1u) CANARY("heap_down: root of a full three-level heap reachable");
}
#endif
