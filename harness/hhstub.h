/*
 * hhstub.h - contract stub of src/cmi_hashheap.c for the layers above it (event queue, resource
 * guards, pool holder lists, priority queues, conditions).
 *
 * What C02 establishes for the real hashheap - a map from unique non-zero keys to (payload, sort
 * keys) combined with a priority queue under the configured order; peek/dequeue return a minimum;
 * lookup/removal/re-prioritisation by key affect exactly that entry; dequeue copies the entry to
 * slot 0; growth may move the whole array - is what this stub implements, in the simplest way that
 * keeps the REAL memory layout usable by the header inlines and by code that indexes hp->heap
 * directly: heap[1] is kept a MINIMUM under hp->heap_compare, heap[2..count] hold the other entries, heap[0] is the dequeue/reprioritise slot, and on enqueue the array may
 * be reallocated (free + malloc) whenever the harness says so (CMV_HH_MAY_MOVE), which is how the
 * real structure invalidates pointers into it when it doubles.
 *
 * Capacity is a small constant CMV_HH_CAP (entries); exceeding it is reported as a harness bound,
 * not as a library defect.  Include INSTEAD of src/cmi_hashheap.c.
 */
#ifndef CMV_HHSTUB_H
#define CMV_HHSTUB_H
#include "cmi_hashheap.h"

#ifndef CMV_HH_CAP
#define CMV_HH_CAP 4
#endif
#ifndef CMV_HH_MAY_MOVE
#define CMV_HH_MAY_MOVE() nondet_bool()
#endif

static bool cmv_hh_default_order(const struct cmi_heap_tag *a, const struct cmi_heap_tag *b) { return a->dsortkey < b->dsortkey; }

struct cmi_hashheap *cmi_hashheap_create(void)
{
    struct cmi_hashheap *hp = malloc(sizeof *hp);
    hp->heap = NULL; hp->hash_map = NULL; hp->heap_count = 0; hp->item_counter = 0;
    return hp;
}
void cmi_hashheap_initialize(struct cmi_hashheap *hp, uint16_t hexp, cmi_heap_compare_func *cmp)
{
    __CPROVER_assert(hp != NULL && hp->heap == NULL && hexp > 0u, "hashheap stub: initialize precondition");
    hp->heap_exp_init = hexp; hp->heap_exp_cur = hexp;
    hp->heap_size = CMV_HH_CAP; hp->hash_size = 2u * CMV_HH_CAP; hp->heap_count = 0u;
    hp->heap_compare = cmp ? cmp : cmv_hh_default_order;
    hp->heap = malloc((CMV_HH_CAP + 2u) * sizeof(struct cmi_heap_tag));
    hp->hash_map = NULL;   /* never dereferenced by the layers above */
    hp->heap[0].key = 0u;        /* the other slots are never read beyond heap_count */
}
void cmi_hashheap_terminate(struct cmi_hashheap *hp)
{
    __CPROVER_assert(hp != NULL, "hashheap stub: terminate precondition");
    if (hp->heap != NULL) { free(hp->heap); hp->heap = NULL; hp->hash_map = NULL; }
}
void cmi_hashheap_destroy(struct cmi_hashheap *hp) { cmi_hashheap_terminate(hp); free(hp); }
void cmi_hashheap_clear(struct cmi_hashheap *hp)
{
    __CPROVER_assert(hp != NULL, "hashheap stub: clear precondition");
    if (hp->heap != NULL) { hp->heap_count = 0u; hp->heap[0].key = 0u; }
}
void cmi_hashheap_reset(struct cmi_hashheap *hp) { cmi_hashheap_clear(hp); }

/* All loops below run over the CONSTANT range 1..CMV_HH_CAP with the condition inside, so that after
 * unwinding every array access has a constant index (symbolic-index updates of an array of 64-byte
 * structs made the queries explode). */
uint64_t cmi_hash_find_index(const struct cmi_hashheap *hp, uint64_t key)
{
    uint64_t r = 0u;
    for (uint64_t c = CMV_HH_CAP; c >= 1u; c--) if (c <= hp->heap_count && hp->heap[c].key == key) r = c;
    return r;
}

static struct cmi_heap_tag *cmv_hh_at(const struct cmi_hashheap *hp, uint64_t idx)
{
    struct cmi_heap_tag *r = &hp->heap[0];
    for (uint64_t c = 1u; c <= CMV_HH_CAP; c++) if (c == idx) r = &hp->heap[c];
    return r;
}

/* Layout kept by the stub: heap[1] is a minimum under the configured order, heap[2..count] hold the
 * other entries in no particular order (the layers above only rely on "front = minimum" and on
 * key lookup; a payload stays attached to its key).  Few struct moves per operation. */
static void cmv_hh_fix_front(struct cmi_hashheap *hp)
{
    /* bring a minimum to index 1 by one swap */
    uint64_t m = 1u;
    for (uint64_t c = 2u; c <= CMV_HH_CAP; c++) if (c <= hp->heap_count && (*hp->heap_compare)(&hp->heap[c], cmv_hh_at(hp, m))) m = c;
    if (m != 1u && hp->heap_count >= 2u) {
        const struct cmi_heap_tag t = hp->heap[1];
        for (uint64_t c = 2u; c <= CMV_HH_CAP; c++) if (c == m) { hp->heap[1] = hp->heap[c]; hp->heap[c] = t; }
    }
}
static void cmv_hh_insert_sorted(struct cmi_hashheap *hp, const struct cmi_heap_tag *e)
{
    hp->heap_count++;
    for (uint64_t c = 1u; c <= CMV_HH_CAP; c++) if (c == hp->heap_count) hp->heap[c] = *e;
    if (hp->heap_count >= 2u && (*hp->heap_compare)(e, &hp->heap[1])) {
        const struct cmi_heap_tag t = hp->heap[1];
        hp->heap[1] = *e;
        for (uint64_t c = 2u; c <= CMV_HH_CAP; c++) if (c == hp->heap_count) hp->heap[c] = t;
    }
}
static void cmv_hh_delete_at(struct cmi_hashheap *hp, uint64_t idx)
{
    /* the last entry fills the hole; the front is re-established if it was the one removed */
    const struct cmi_heap_tag last = *cmv_hh_at(hp, hp->heap_count);
    for (uint64_t c = 1u; c <= CMV_HH_CAP; c++) if (c == idx && c < hp->heap_count) hp->heap[c] = last;
    hp->heap_count--;
#ifdef CMV_HH_ANY_LAYOUT
    /* contract of remove / dequeue and nothing more: the remaining entries may be ANYWHERE afterwards (the real sifts move
     * entries both up and down); only "a minimum at index 1" is kept, which is what the layers above may rely on */
    {
        struct cmi_heap_tag cmv_rest[CMV_HH_CAP + 1u]; unsigned cmv_perm[CMV_HH_CAP + 1u];
        for (unsigned i = 1; i <= CMV_HH_CAP; i++) { cmv_rest[i] = hp->heap[i]; cmv_perm[i] = nondet_u8(); if (i <= hp->heap_count) __CPROVER_assume(cmv_perm[i] >= 1u && cmv_perm[i] <= hp->heap_count); }
        for (unsigned i = 1; i <= CMV_HH_CAP; i++) for (unsigned j = i + 1u; j <= CMV_HH_CAP; j++) if (j <= hp->heap_count) __CPROVER_assume(cmv_perm[i] != cmv_perm[j]);
        for (unsigned i = 1; i <= CMV_HH_CAP; i++) if (i <= hp->heap_count)
            for (unsigned c = 1; c <= CMV_HH_CAP; c++) if (cmv_perm[i] == c) hp->heap[i] = cmv_rest[c];
    }
    cmv_hh_fix_front(hp);
#else
    if (idx == 1u) cmv_hh_fix_front(hp);
#endif
}

uint64_t cmi_hashheap_enqueue(struct cmi_hashheap *hp, void *pl1, void *pl2, void *pl3, void *pl4,
                              uint64_t hashkey, double dsortkey, int64_t isortkey)
{
    __CPROVER_assert(hp != NULL && hp->heap != NULL, "hashheap stub: enqueue precondition");
    __CPROVER_assert(hp->heap_count < CMV_HH_CAP, "harness bound: more entries than the modelled hashheap capacity");
    __CPROVER_assume(hp->heap_count < CMV_HH_CAP);
    if (CMV_HH_MAY_MOVE()) {
        /* growth: the whole array moves, slot 0 included; the old block is freed */
        struct cmv_hh_block { struct cmi_heap_tag t[CMV_HH_CAP + 2u]; };
        struct cmv_hh_block *n = malloc(sizeof *n);
        *n = *(struct cmv_hh_block *)hp->heap;          /* one block copy */
        free(hp->heap);
        hp->heap = n->t;
    }
    hp->item_counter += 1u;
    if (hashkey == 0u) hashkey = hp->item_counter;
    __CPROVER_assert(cmi_hash_find_index(hp, hashkey) == 0u, "hashheap contract: the key is not already enqueued");
    struct cmi_heap_tag e;
    e.key = hashkey; e.hash_index = 0u; e.item[0] = pl1; e.item[1] = pl2; e.item[2] = pl3; e.item[3] = pl4;
    e.dsortkey = dsortkey; e.isortkey = isortkey;
    cmv_hh_insert_sorted(hp, &e);
    return hashkey;
}

void **cmi_hashheap_dequeue(struct cmi_hashheap *hp)
{
    __CPROVER_assert(hp != NULL, "hashheap stub: dequeue precondition");
    if (hp->heap == NULL || hp->heap_count == 0u) return NULL;
    hp->heap[0] = hp->heap[1];
    cmv_hh_delete_at(hp, 1u);
    return hp->heap[0].item;
}

bool cmi_hashheap_remove(struct cmi_hashheap *hp, uint64_t hashkey)
{
    __CPROVER_assert(hp != NULL && hashkey != 0u, "hashheap contract: remove precondition (non-zero key)");
    if (hp->heap == NULL || hp->heap_count == 0u) return false;
    const uint64_t idx = cmi_hash_find_index(hp, hashkey);
    if (idx == 0u) return false;
    cmv_hh_delete_at(hp, idx);
    return true;
}

void **cmi_hashheap_item(const struct cmi_hashheap *hp, uint64_t hashkey)
{
    __CPROVER_assert(hp != NULL && hashkey != 0u, "hashheap contract: item precondition (non-zero key)");
    const uint64_t idx = cmi_hash_find_index(hp, hashkey);
    __CPROVER_assert(idx != 0u, "hashheap contract (release assert in the real code): item() of a key that is not enqueued");
    __CPROVER_assume(idx != 0u);
    return cmv_hh_at(hp, idx)->item;
}
double cmi_hashheap_dkey(const struct cmi_hashheap *hp, uint64_t hashkey)
{
    const uint64_t idx = cmi_hash_find_index(hp, hashkey);
    __CPROVER_assert(hashkey != 0u && idx != 0u, "hashheap contract (release assert in the real code): dkey() of a key that is not enqueued");
    __CPROVER_assume(idx != 0u);
    return cmv_hh_at(hp, idx)->dsortkey;
}
int64_t cmi_hashheap_ikey(const struct cmi_hashheap *hp, uint64_t hashkey)
{
    const uint64_t idx = cmi_hash_find_index(hp, hashkey);
    __CPROVER_assert(hashkey != 0u && idx != 0u, "hashheap contract (release assert in the real code): ikey() of a key that is not enqueued");
    __CPROVER_assume(idx != 0u);
    return cmv_hh_at(hp, idx)->isortkey;
}
void cmi_hashheap_reprioritize(const struct cmi_hashheap *chp, uint64_t hashkey, double dsortkey, int64_t isortkey)
{
    struct cmi_hashheap *hp = (struct cmi_hashheap *)chp;
    const uint64_t idx = cmi_hash_find_index(hp, hashkey);
    __CPROVER_assert(hashkey != 0u && idx != 0u, "hashheap contract (release assert in the real code): reprioritize() of a key that is not enqueued");
    __CPROVER_assume(idx != 0u);
    struct cmi_heap_tag *e = cmv_hh_at(hp, idx);
    /* slot 0 is not touched (C02.L3.reprioritize: "slot 0 survives") */
    e->dsortkey = dsortkey; e->isortkey = isortkey;
    if (idx != 1u) {
        if ((*hp->heap_compare)(e, &hp->heap[1])) { const struct cmi_heap_tag t = hp->heap[1]; hp->heap[1] = *e; *e = t; }
    } else {
        cmv_hh_fix_front(hp);
    }
}

static bool cmv_hh_match(const struct cmi_heap_tag *t, const void *v1, const void *v2, const void *v3, const void *v4)
{
    return (v1 == CMI_ANY_ITEM || v1 == t->item[0]) && (v2 == CMI_ANY_ITEM || v2 == t->item[1])
        && (v3 == CMI_ANY_ITEM || v3 == t->item[2]) && (v4 == CMI_ANY_ITEM || v4 == t->item[3]);
}
uint64_t cmi_hashheap_pattern_find(const struct cmi_hashheap *hp, const void *v1, const void *v2, const void *v3, const void *v4)
{
    uint64_t r = 0u;
    for (uint64_t c = CMV_HH_CAP; c >= 1u; c--) if (c <= hp->heap_count && cmv_hh_match(&hp->heap[c], v1, v2, v3, v4)) r = hp->heap[c].key;
    return r;
}
uint64_t cmi_hashheap_pattern_count(const struct cmi_hashheap *hp, const void *v1, const void *v2, const void *v3, const void *v4)
{
    uint64_t c = 0;
    for (uint64_t k = 1u; k <= CMV_HH_CAP; k++) if (k <= hp->heap_count && cmv_hh_match(&hp->heap[k], v1, v2, v3, v4)) c++;
    return c;
}
uint64_t cmi_hashheap_pattern_cancel(struct cmi_hashheap *hp, const void *v1, const void *v2, const void *v3, const void *v4)
{
    uint64_t c = 0;
    if (hp->heap == NULL) return 0u;
    /* from the back, so that a deletion does not move entries not yet examined */
    for (uint64_t k = CMV_HH_CAP; k >= 1u; k--)
        if (k <= hp->heap_count && cmv_hh_match(&hp->heap[k], v1, v2, v3, v4)) { cmv_hh_delete_at(hp, k); c++; }
    return c;
}
void cmi_hashheap_print(const struct cmi_hashheap *hp, FILE *fp) { (void)hp; (void)fp; }
#endif
