/*
 * pool.c - cmb_resourcepool under contract (C07; C08-O1, C14-O1 for the pool).
 * Real code: src/cmb_resourcepool.c.  Holder list: hashheap contract stub hhstub.h (<= 3 records, all
 * physically in heap[1..n], front = lowest-priority holder).  Guard / time series / clock: contract
 * stubs cmv_guardstub.h.  Process-side record list (cmi_process_remove_holdable, tag pool) and the
 * preemption notice (cmb_process_interrupt): recording stubs.
 *
 * Ghost: the caller P and two other processes A, B.  I-POOL: in_use == sum of the holder records'
 * amounts <= capacity, every record amount > 0, P lists the pool in its own records iff it has a
 * holder record.  The environment at a suspension point: A and B acquire / release arbitrarily
 * (their records are re-drawn), and P may be preempted (its record and its list entry taken away).
 * Bounded-shape (<= 3 holders) and bounded-unwind (<= 2 waits per call).
 */
#include "cmv_common.h"
#include "cmi_mempool.h"
#ifdef CMV_ONE_OTHER
#define CMV_HH_CAP 2
#else
#define CMV_HH_CAP 3
#endif
#define CMV_HH_MAY_MOVE() 0
#include "hhstub.h"
#include "cmb_process.h"
#include "cmi_process.h"
#include "cmb_resourcepool.h"

static struct cmb_resourcepool *RP;
static struct cmb_process *P, *A, *B;
CMB_THREAD_LOCAL struct cmi_coroutine *coroutine_main;
CMB_THREAD_LOCAL struct cmi_coroutine *coroutine_current;
CMB_THREAD_LOCAL struct cmi_mempool cmi_process_holdabletags = CMI_MEMPOOL_STATIC_INIT(sizeof(struct cmi_process_holdable), 256u);
void cmi_mempool_expand(struct cmi_mempool *mp) { __CPROVER_assert(0, "harness: pool alloc is redirected"); }
void *cmv_pool_alloc(struct cmi_mempool *mp) { return malloc(mp->obj_sz); }
void cmv_pool_free(struct cmi_mempool *mp, void *op) { free(op); }
void cmi_holdable_initialize(struct cmi_holdable *h, const char *n) { h->base.cookie = CMI_INITIALIZED; }
void cmi_holdable_terminate(struct cmi_holdable *h) { }

/* process-side records: P's list is physical (<= 1 entry for this pool); A's and B's are ghosts */
static _Bool cmv_lists[3];        /* does P / A / B list the pool in its own records */
static int pidx(const struct cmb_process *x) { return x == P ? 0 : x == A ? 1 : x == B ? 2 : -1; }
static unsigned cmv_nremh; static const struct cmb_process *cmv_remh_last;
bool cmi_process_remove_holdable(struct cmb_process *pp, const struct cmi_holdable *h)
{
    __CPROVER_assert(h == &RP->core, "remove_holdable is called for this pool");
    const int i = pidx(pp); __CPROVER_assert(i >= 0, "harness: unknown process");
    if (cmv_nremh < 3u) cmv_nremh++; cmv_remh_last = pp;
    bool was = false;
    if (i == 0) { was = (P->resources.next != NULL); P->resources.next = NULL; }
    for (int k = 0; k < 3; k++) if (k == i) { was = was || cmv_lists[k]; cmv_lists[k] = 0; }
    return was;
}
static unsigned cmv_nint; static struct cmb_process *cmv_int_p[2]; static int64_t cmv_int_sig[2], cmv_int_pri[2];
void cmb_process_interrupt(struct cmb_process *pp, int64_t sig, int64_t pri)
{
    /* checked at the moment a victim is notified, so it also holds after waits during which priorities changed */
    OBT("C07-O3", pp != P && pp->priority < P->priority, "a preemption victim is another process whose priority is strictly below the preemptor's CURRENT priority");
    for (unsigned k = 0; k < 2u; k++) if (k == cmv_nint) { cmv_int_p[k] = pp; cmv_int_sig[k] = sig; cmv_int_pri[k] = pri; }
    if (cmv_nint < 3u) cmv_nint++;
}

#define CMV_NGUARDS 1
#define CMV_GUARD_INDEX(p) 0
#define CMV_DEMAND(gi) (RP->capacity - RP->in_use > 0u)
#define CMV_IREC (!RP->is_recording || cmv_rec_x == (double)RP->in_use)
static uint64_t held(const struct cmb_process *x);
static uint64_t sum_all(void);
static bool ipool(void);
static void env_redraw(void);
static _Bool cmv_p_preempted;         /* the environment took P's record away during a wait */
#define CMV_ENV_HAVOC() do { env_redraw(); if (RP->is_recording) cmv_rec_x = (double)RP->in_use; } while (0)
#define CMV_AT_YIELD() do { \
        OBT("C07-O1", ipool(), "at every suspension point: in_use == sum of the holders' amounts <= capacity, every record > 0, the caller lists the pool iff it holds some"); \
        OBT("C08-O1", CMV_ISIG(0), "at every suspension point: units available implies a grant is pending (the guard was signalled after the change that freed them)"); \
        OBT("C14-O1", CMV_IREC, "at every suspension point the last recorded sample equals the amount in use"); \
    } while (0)
#ifndef CMV_MAX_WAITS
#define CMV_MAX_WAITS 2u
#endif
#include "cmv_guardstub.h"

#include "src/cmb_resourcepool.c"

static uint64_t held(const struct cmb_process *x)
{
    uint64_t r = 0;
    for (uint64_t c = 1; c <= CMV_HH_CAP; c++) if (c <= RP->holders.heap_count && RP->holders.heap[c].key == (uint64_t)x) r = (uint64_t)RP->holders.heap[c].item[1];
    return r;
}
static uint64_t sum_all(void) { uint64_t s = 0; for (uint64_t c = 1; c <= CMV_HH_CAP; c++) if (c <= RP->holders.heap_count) s += (uint64_t)RP->holders.heap[c].item[1]; return s; }
static bool ipool(void)
{
    if (RP->in_use > RP->capacity || sum_all() != RP->in_use) return false;
    for (uint64_t c = 1; c <= CMV_HH_CAP; c++) if (c <= RP->holders.heap_count) {
        const struct cmi_heap_tag *t = &RP->holders.heap[c];
        if ((uint64_t)t->item[1] == 0u || t->item[0] != (void *)t->key) return false;
        if (pidx((struct cmb_process *)t->item[0]) < 0) return false;
        if (t->isortkey != ((struct cmb_process *)t->item[0])->priority) return false;     /* records are keyed by the holder's current priority */
    }
    if ((held(P) > 0u) != (P->resources.next != NULL)) return false;
    if ((held(A) > 0u) != cmv_lists[1] || (held(B) > 0u) != cmv_lists[2]) return false;
    return true;
}
static void put_record(struct cmb_process *x, uint64_t amount)
{
    if (amount > 0u) (void)cmi_hashheap_enqueue(&RP->holders, x, (void *)amount, NULL, NULL, (uint64_t)x, 0.0, x->priority);
}
/* A and B change their holdings arbitrarily through the API; P's record survives, unless P is preempted */
static void env_redraw(void)
{
    const uint64_t hp = held(P);
    (void)cmi_hashheap_remove(&RP->holders, (uint64_t)A); (void)cmi_hashheap_remove(&RP->holders, (uint64_t)B);
    const _Bool preempt_p = (hp > 0u) && nondet_bool();
    if (preempt_p) { (void)cmi_hashheap_remove(&RP->holders, (uint64_t)P); P->resources.next = NULL; cmv_lists[0] = 0; cmv_p_preempted = 1; }
    const uint64_t keep = preempt_p ? 0u : hp;
#ifdef CMV_PRIO_CHANGES
    /* somebody else changes the caller's priority while it waits (cmb_process_priority_set re-keys its record) */
    if (nondet_bool()) { P->priority = nondet_i64(); if (keep > 0u) { (void)cmi_hashheap_remove(&RP->holders, (uint64_t)P); put_record(P, keep); } }
#endif
    uint64_t a = nondet_u64(), b = nondet_u64();
#ifdef CMV_ONE_OTHER
    b = 0u;
#endif
    ASSUME(a <= RP->capacity - keep && b <= RP->capacity - keep - a);
    put_record(A, a); put_record(B, b); cmv_lists[1] = (a > 0u); cmv_lists[2] = (b > 0u);
    RP->in_use = keep + a + b;
}
static struct cmb_process *mkproc(void)
{
    struct cmb_process *x = malloc(sizeof *x);
    x->core.status = CMI_COROUTINE_RUNNING; x->priority = nondet_i64(); x->awaits.next = NULL; x->waiters.next = NULL; x->resources.next = NULL; x->name[0] = 'p'; x->name[1] = 0;
    return x;
}
static uint64_t cmv_base;
static void setup(void)
{
    cmv_stub_reset(); cmv_nremh = 0; cmv_nint = 0; cmv_p_preempted = 0;
    P = mkproc(); A = mkproc(); B = mkproc();
    coroutine_main = (struct cmi_coroutine *)mkproc(); coroutine_current = (struct cmi_coroutine *)P;
    RP = malloc(sizeof *RP);
    RP->core.base.cookie = CMI_INITIALIZED; RP->core.base.name[0] = 'r'; RP->core.base.name[1] = 0;
    RP->holders.heap = NULL; RP->holders.hash_map = NULL;
    cmi_hashheap_initialize(&RP->holders, 3u, holder_queue_check);
    RP->capacity = nondet_u64(); ASSUME(RP->capacity > 0u);
#ifndef CMV_FULL_RANGE
    ASSUME(RP->capacity <= 255u);      /* quick tier: 8-bit amounts (sums of three 64-bit amounts are hard for the SAT back end); thorough tier: full range */
#endif
    RP->is_recording = nondet_bool();
    cmi_process_holdabletags.cookie = CMI_INITIALIZED; cmi_process_holdabletags.obj_sz = sizeof(struct cmi_process_holdable);
    /* arbitrary holdings of P, A, B within the capacity */
    uint64_t p = nondet_u64(), a = nondet_u64(), b = nondet_u64();
#ifdef CMV_ONE_OTHER
    b = 0u;
#endif
    ASSUME(p <= RP->capacity && a <= RP->capacity - p && b <= RP->capacity - p - a);
    put_record(P, p); put_record(A, a); put_record(B, b);
    RP->in_use = p + a + b;
    cmv_lists[0] = (p > 0u); cmv_lists[1] = (a > 0u); cmv_lists[2] = (b > 0u);
    if (p > 0u) { struct cmi_process_holdable *ph = malloc(sizeof *ph); ph->res = &RP->core; ph->listhead.next = NULL; P->resources.next = &ph->listhead; }
    cmv_base = p;
    cmv_clock = nondet_double(); ASSUME(cmv_clock == cmv_clock);
    cmv_grant[0] = nondet_bool(); ASSUME(CMV_ISIG(0));
    cmv_rec_x = nondet_double(); ASSUME(CMV_IREC); cmv_rec_t = cmv_clock;
    __CPROVER_assert(ipool(), "harness: the pre-state satisfies I-POOL");
}

#if defined(H_ACQUIRE) || defined(H_PREEMPT)
void h_acquire(void)
{
    setup();
    const uint64_t req = nondet_u64(); ASSUME(req > 0u && req <= RP->capacity);        /* documented precondition */
    const uint64_t a0 = held(A), b0 = held(B);
    const int64_t pa = A->priority, pb = B->priority, pp = P->priority;
#ifdef H_PREEMPT
    const int64_t sig = cmb_resourcepool_preempt(RP, req);
#else
    const int64_t sig = cmb_resourcepool_acquire(RP, req);
#endif
    OBT("C07-O1", ipool(), "on return: in_use == sum of the holders' amounts <= capacity, records > 0, the caller lists the pool iff it holds some");
    if (sig == CMB_PROCESS_SUCCESS && !cmv_p_preempted)
        OBT("C07-O2", held(P) == cmv_base + req, "a successful acquire / preempt of n leaves the caller holding exactly n more than before");
    if (sig != CMB_PROCESS_SUCCESS && !cmv_p_preempted)
        OBT("C07-O2", held(P) == cmv_base, "an acquire / preempt that does not return SUCCESS (interrupt, timeout, a preemption notice from elsewhere) leaves the caller holding exactly what it held before the call");
    if (cmv_p_preempted && sig != CMB_PROCESS_SUCCESS)
        OBT("C07-O2", held(P) == 0u && P->resources.next == NULL, "a caller whose units were taken by a preemptor during the call holds nothing afterwards");
    OBT("C07-O2", sig == CMB_PROCESS_SUCCESS || (cmv_nwaits > 0 && sig == cmv_last_sig), "a non-SUCCESS return value is the signal delivered by the wait");
#ifdef H_PREEMPT
    if (cmv_nwaits == 0) {
        /* victims: only strictly lower priority, whole record taken, notified with PREEMPTED at their own priority */
        OBT("C07-O3", (held(A) == a0 || (pa < pp && held(A) == 0u && !cmv_lists[1])) && (held(B) == b0 || (pb < pp && held(B) == 0u && !cmv_lists[2])),
            "preemption only ever takes units from processes of strictly lower priority, whose whole holding and own record of the pool are removed");
        const unsigned nv = (held(A) != a0 ? 1u : 0u) + (held(B) != b0 ? 1u : 0u);
        OBT("C07-O3", cmv_nint == nv, "each victim, and nobody else, is notified");
        OBT("C07-O3", cmv_nint < 1 || (cmv_int_sig[0] == CMB_PROCESS_PREEMPTED && cmv_int_pri[0] == cmv_int_p[0]->priority && held(cmv_int_p[0]) == 0u), "the notification carries the PREEMPTED signal at the victim's own priority");
        OBT("C07-O3", cmv_nint < 2 || (cmv_int_sig[1] == CMB_PROCESS_PREEMPTED && cmv_int_pri[1] == cmv_int_p[1]->priority && held(cmv_int_p[1]) == 0u && cmv_int_p[1] != cmv_int_p[0]), "second victim likewise");
    }
#else
    OBT("C07-O3", cmv_nint == 0 && cmv_nremh <= 1u && (cmv_nremh == 0u || cmv_remh_last == P), "a plain acquire never takes anything from another process");
#endif
    OBT("C08-O1", sig != CMB_PROCESS_SUCCESS ? true : CMV_ISIG(0), "on successful return: units available implies a grant is pending");
    OBT("C08-O1", sig == CMB_PROCESS_SUCCESS || cmv_p_preempted || CMV_ISIG(0) || cmv_last_sig == 0, "after a rollback that freed units the guard has been signalled");
    OBT("C14-O1", CMV_IREC, "on return the last recorded sample equals the amount in use");
    CANARY("pool acquire: end reachable");
    if (sig != 0 && cmv_nwaits > 0 && !cmv_p_preempted) CANARY("pool acquire: rollback path reachable");
}
#endif

#ifdef H_RELEASE
void h_release(void)
{
    setup();
    const uint64_t n = nondet_u64(); ASSUME(n > 0u && n <= cmv_base);           /* documented precondition: the caller holds at least n */
    const uint64_t use0 = RP->in_use, a0 = held(A), b0 = held(B);
    cmb_resourcepool_release(RP, n);
    OBT("C07-O4", held(P) == cmv_base - n && RP->in_use == use0 - n, "release of n lowers the caller's holding and the amount in use by exactly n");
    OBT("C07-O4", held(A) == a0 && held(B) == b0, "other holders are untouched");
    OBT("C07-O1", ipool(), "on return I-POOL holds (record and own list entry deleted iff the holding becomes 0)");
    OBT("C08-O1", cmv_nsig[0] >= 1 && CMV_ISIG(0), "release signals the guard");
    OBT("C14-O1", CMV_IREC, "release records the new amount in use");
    CANARY("pool release: end reachable");
}
#endif

#ifdef H_RELEASE_LOST
/* the caller's whole record was taken by a preemptor and the PREEMPTED notice was overtaken by another signal in the
 * same instant (as replay/c05_preempt_interrupt_demo.c shows for the binary resource): it releases what it believes it holds */
void h_release_lost(void)
{
    setup();
    ASSUME(cmv_base == 0u);
    const uint64_t n = nondet_u64(); ASSUME(n > 0u && n <= RP->capacity);
    const uint64_t use0 = RP->in_use, a0 = held(A), b0 = held(B);
    cmb_resourcepool_release(RP, n);
    OBT("C07-O4", held(P) == 0u && RP->in_use == use0 && held(A) == a0 && held(B) == b0, "a release by a process whose units were all taken by a preemptor changes nothing: the units belong to their new holders");
    OBT("C07-O1", ipool(), "on return I-POOL holds");
    OBT("C14-O1", CMV_IREC, "the recorded amount still equals the amount in use");
    CANARY("pool release by a former holder: end reachable");
}
#endif

#ifdef H_DROP
void h_drop(void)
{
    /* a holder (A) ends or is stopped: cmi_process_drop_resources calls the pool's drop method for it */
    setup();
    const uint64_t use0 = RP->in_use, a0 = held(A), p0 = held(P), b0 = held(B);
    resourcepool_drop_holder(&RP->core, A);
    cmv_lists[1] = 0;                        /* the caller of drop (cmi_process_drop_resources) pops the dead process's own record */
    OBT("C07-O4", held(A) == 0u && RP->in_use == use0 - a0 && held(P) == p0 && held(B) == b0, "a process that ends holds nothing afterwards: its record is removed and the amount in use drops by exactly its holding; others untouched");
    OBT("C07-O1", ipool(), "on return I-POOL holds");
    OBT("C08-O1", a0 == 0u || (cmv_nsig[0] >= 1 && CMV_ISIG(0)), "dropping a holder signals the guard");
    OBT("C14-O1", CMV_IREC, "dropping a holder records the new amount in use");
    CANARY("pool drop: end reachable");
}
#endif

#ifdef H_MISC
void h_misc(void)
{
    setup();
    OBT("C07-O4", cmb_resourcepool_held_by_process(RP, P) == held(P) && cmb_resourcepool_held_by_process(RP, A) == held(A), "held_by_process reports the holder record");
    const int64_t np = nondet_i64(); const uint64_t a0 = held(A);
    ASSUME(a0 > 0u);          /* priority_set only calls the method for objects the process lists, i.e. holds */
    A->priority = np; reprioritize_holder(&RP->core, A, np);        /* as cmb_process_priority_set does for a holder */
    OBT("C06-O3", held(A) == a0 && ipool(), "a holder's priority change re-keys its record (preemption victims are chosen by current priority) and changes no amount");
    if (nondet_bool()) { cmb_resourcepool_start_recording(RP); OBT("C14-O2", RP->is_recording && cmv_rec_n == 1 && CMV_IREC && cmv_rec_t == cmv_clock, "start_recording records the current amount in use"); }
    else { const _Bool was = RP->is_recording; cmb_resourcepool_stop_recording(RP); OBT("C14-O2", !RP->is_recording && (!was || (cmv_rec_n == 1 && cmv_rec_x == (double)RP->in_use)), "stop_recording records a final sample then switches off"); }
    CANARY("pool misc: end reachable");
}
#endif
