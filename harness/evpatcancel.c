/*
 * evpatcancel.c - cmb_event_pattern_cancel (src/cmb_event.c) verified MODULARLY against the CONTRACT of
 * cmb_event_cancel, not against its body (C01-O3).
 *
 * cmb_event_pattern_cancel does not delegate to cmi_hashheap_pattern_cancel: it walks the event heap itself
 * and cancels through cmb_event_cancel (which also wakes the processes waiting for the event).  Here every
 * call of cmb_event_cancel is replaced (goto-instrument --replace-calls) by its contract:
 *   requires  an initialised event queue, a non-zero handle
 *   ensures   returns whether the event was pending; the pending set is the old one minus that event; every
 *             other event keeps handle / action / subject / object / time / priority; NOTHING is promised
 *             about where the remaining events are in the heap afterwards (arbitrary new layout).
 * The contract is established on the real cmb_event_cancel by C01.O3.api.cancel (pending set vs ghost set)
 * and on the real cmi_hashheap_remove by C02.L3.remove.  A single pass over the heap that cancels in place
 * (seeded C01-m3: goes wrong on the real heap only with >= 6 events in a particular constellation) fails
 * here with three events.
 */
#include "cmv_common.h"
#include "cmi_mempool.h"
#define CMV_HH_CAP 4
#include "hhstub_sorted.h"
#include "cmb_process.h"
#include "cmi_process.h"

CMB_THREAD_LOCAL struct cmi_mempool cmi_process_waitertags = CMI_MEMPOOL_STATIC_INIT(sizeof(struct cmi_process_waiter), 256u);
CMB_THREAD_LOCAL struct cmi_mempool cmi_process_awaitabletags = CMI_MEMPOOL_STATIC_INIT(sizeof(struct cmi_process_awaitable), 128u);
void cmi_mempool_expand(struct cmi_mempool *mp) { void **o = malloc(mp->obj_sz); *o = NULL; mp->next_obj = o; mp->cookie = CMI_INITIALIZED; }
bool cmi_process_remove_awaitable(struct cmb_process *pp, enum cmi_process_awaitable_type type, const void *awaitable) { return true; }
void *cmi_coroutine_resume(struct cmi_coroutine *cp, void *arg) { return NULL; }

#include "src/cmb_event.c"

#define NS 4u
static unsigned cmv_ncancel;
static void act_a(void *s, void *o) { }
static void act_b(void *s, void *o) { }
static char cmv_objs[3];
static void *anyobj(void) { unsigned i = nondet_u8(); ASSUME(i <= 2u); return (void *)&cmv_objs[i]; }

/* contract stub of cmb_event_cancel */
bool cmv_event_cancel_contract(uint64_t handle)
{
    __CPROVER_assert(event_queue != NULL && handle != 0u, "precondition of cmb_event_cancel: initialised queue, non-zero handle");
    struct cmi_heap_tag *H = event_queue->heap;
    if (cmv_ncancel < 100u) cmv_ncancel++;
    unsigned at = 0;
    for (unsigned i = 1; i <= NS; i++) if (i <= event_queue->heap_count && H[i].key == handle) at = i;
    if (at == 0u) return false;
    struct cmi_heap_tag rest[NS + 1u]; unsigned m = 0;
    for (unsigned i = 1; i <= NS; i++) if (i <= event_queue->heap_count && i != at) { m++; rest[m] = H[i]; }
    unsigned perm[NS + 1u];
    for (unsigned i = 1; i <= NS; i++) { perm[i] = nondet_u8(); if (i <= m) ASSUME(perm[i] >= 1u && perm[i] <= m); }
    for (unsigned i = 1; i <= NS; i++) for (unsigned j = i + 1u; j <= NS; j++) if (j <= m) ASSUME(perm[i] != perm[j]);
    for (unsigned i = 1; i <= NS; i++) if (i <= m)
        for (unsigned c = 1; c <= NS; c++) if (perm[i] == c) H[i] = rest[c];
    event_queue->heap_count = m;
    return true;
}

static bool cmv_match(const struct cmi_heap_tag *t, cmb_event_func *a, const void *s, const void *o)
{
    return (a == CMB_ANY_ACTION || *(void **)&a == t->item[0]) && (s == CMB_ANY_SUBJECT || s == t->item[1]) && (o == CMB_ANY_OBJECT || o == t->item[2]);
}

#define T "C01-O3"
void h_evpatcancel(void)
{
    cmv_ncancel = 0;
    cmb_event_queue_initialize(0.0);
    struct cmi_heap_tag *H = event_queue->heap;
    event_queue->heap_count = nondet_u64(); ASSUME(event_queue->heap_count <= NS);
    for (unsigned i = 1; i <= NS; i++) {
        cmb_event_func *f = nondet_bool() ? act_a : act_b;
        H[i].key = nondet_u64(); H[i].item[0] = *(void **)&f; H[i].item[1] = anyobj(); H[i].item[2] = anyobj(); H[i].item[3] = NULL;
        H[i].dsortkey = nondet_double(); H[i].isortkey = nondet_i64();
    }
    for (unsigned i = 1; i <= NS; i++) if (i <= event_queue->heap_count) {
        ASSUME(H[i].key != 0u);
        for (unsigned j = i + 1u; j <= NS; j++) if (j <= event_queue->heap_count) ASSUME(H[i].key != H[j].key);
    }
    cmb_event_func *pa = nondet_bool() ? CMB_ANY_ACTION : (nondet_bool() ? act_a : act_b);
    const void *ps = nondet_bool() ? CMB_ANY_SUBJECT : anyobj(), *po = nondet_bool() ? CMB_ANY_OBJECT : anyobj();
    uint64_t nmatch = 0;
    for (unsigned i = 1; i <= NS; i++) if (i <= event_queue->heap_count && cmv_match(&H[i], pa, ps, po)) nmatch++;
    const uint64_t count0 = event_queue->heap_count;
    unsigned gi = nondet_u8(); struct cmi_heap_tag g0; bool have_g = false;
    for (unsigned i = 1; i <= NS; i++) if (i == gi && i <= count0) { g0 = H[i]; have_g = true; }
    const bool g_matches = have_g && cmv_match(&g0, pa, ps, po);

    const uint64_t c = cmb_event_pattern_cancel(pa, ps, po);

    H = event_queue->heap;
    OBT(T, c == nmatch, "pattern_cancel reports the number of pending events that matched");
    OBT(T, event_queue->heap_count == count0 - nmatch, "pattern_cancel cancels as many events as match");
    OBT(T, cmv_ncancel == nmatch, "every matching event is cancelled through cmb_event_cancel exactly once (its waiters are told once), nothing else is");
    if (have_g) {
        unsigned found = 0;
        for (unsigned i = 1; i <= NS; i++) if (i <= event_queue->heap_count && H[i].key == g0.key) found++;
        OBT(T, g_matches ? found == 0u : found == 1u, "a matching event is no longer pending (it never runs); every other event is still pending");
    }
    bool none = true;
    for (unsigned i = 1; i <= NS; i++) if (i <= event_queue->heap_count && cmv_match(&H[i], pa, ps, po)) none = false;
    OBT(T, none, "after pattern_cancel no pending event matches the pattern");
    CANARY("event pattern_cancel (cancel contract): end reachable");
    if (nmatch >= 2u && count0 == NS) CANARY("event pattern_cancel (cancel contract): two matches among four events reachable");
}
