/*
 * cmv_common.h - shared prologue of every CBMC harness translation unit.
 *
 * Included BEFORE the real repository source (`#include "src/xxx.c"`), so the
 * verified text is the working-tree file itself.  What this header replaces:
 *
 *   include/cmb_assert.h  - the three assertion macros are redefined so that every
 *       library assertion site is its own, named proof obligation
 *       ("cmb_assert_release: <cond>" / "cmb_assert_debug: <cond>") followed by an
 *       assumption of the condition (the real macro never returns on failure).
 *       Harnesses are built WITHOUT NDEBUG: debug assertions are obligations too.
 *   cmi_logger_fatal      - "assert(0); assume(0)": reaching a fatal log is an abort.
 *
 * Nothing else of the repository is substituted here; per-group stubs are listed in the
 * group definition and reported in the evidence.
 */
#ifndef CMV_COMMON_H
#define CMV_COMMON_H

#include <stdint.h>
#include <stdbool.h>
#include <stddef.h>
#include <stdlib.h>
#include <string.h>
#include <stdio.h>
#include <math.h>

/* Allocation failure is out of scope of every property (listed assumption): the allocation
 * functions are wrapped so that they never return NULL.  (cbmc --no-malloc-may-fail is NOT used: with
 * that option CBMC 6.11 returned unconstrained values for pointer-typed struct members read through
 * a symbolic array index into a malloc'ed object - bisected in the hashheap harness.) */
static inline void *cmv_malloc(size_t n) { void *p = malloc(n); __CPROVER_assume(p != NULL); return p; }
static inline void *cmv_calloc(size_t n, size_t m) { void *p = calloc(n, m); __CPROVER_assume(p != NULL); return p; }
/* realloc: new block, contents preserved up to the smaller size, old block freed (always moves, which
 * is the case that matters for callers that keep the old pointer).  Word-wise copy: CBMC's byte-wise
 * memcpy model runs out of memory beyond a few hundred bytes. */
static inline void *cmv_realloc(void *q, size_t n)
{
    void *p = malloc(n); __CPROVER_assume(p != NULL);
    if (q != NULL) {
        const size_t old = __CPROVER_OBJECT_SIZE(q);
        const size_t m = old < n ? old : n;
        __CPROVER_assert(m % 8u == 0u, "harness realloc model: sizes are multiples of 8");
        for (size_t i = 0; i < m / 8u; i++) ((uint64_t *)p)[i] = ((const uint64_t *)q)[i];
        free(q);
    }
    return p;
}
#define malloc(n) cmv_malloc(n)
#define calloc(n, m) cmv_calloc(n, m)
#define realloc(q, n) cmv_realloc(q, n)

#define CIMBA_CMB_ASSERT_H 1      /* suppress the real header (see above) */
#include "cmi_config.h"

#define CMV_STR2(x) #x
#define CMV_STR(x) CMV_STR2(x)

extern void cmi_assert_failed(const char *sourcefile, const char *func, int line,
                              const char *condition);

#define cmb_assert_release(x) \
    (__CPROVER_assert((x), "cmb_assert_release: " #x), __CPROVER_assume(x))
#define cmb_assert_debug(x) \
    (__CPROVER_assert((x), "cmb_assert_debug: " #x), __CPROVER_assume(x))
#define cmb_assert(x) cmb_assert_debug(x)
#define cmb_unused(x) ((void)(x))

/* Named harness obligations: OB(tag, cond) -> description "<tag>: <cond text>" */
#define OB(tag, cond) __CPROVER_assert((cond), tag ": " #cond)
#define OBT(tag, cond, text) __CPROVER_assert((cond), tag ": " text)
/* Reachability canary: MUST FAIL. A passing canary means vacuous assumptions. */
#define CANARY(name) __CPROVER_assert(0, "CANARY " name)
#define ASSUME(c) __CPROVER_assume(c)

/* The logger: info/warning/user lines have no effect on library state (their ARGUMENTS are
 * still evaluated by the real code and checked); fatal/error terminate the program, so
 * reaching one is an abort of the library (C10). */
#include <stdarg.h>
#include "cmb_logger.h"
void cmi_logger_info(FILE *fp, const char *func, int line, char *fmtstr, ...) { (void)fp; (void)func; (void)line; (void)fmtstr; }
void cmi_logger_warning(FILE *fp, const char *func, int line, char *fmtstr, ...) { (void)fp; (void)func; (void)line; (void)fmtstr; }
void cmi_logger_user(FILE *fp, uint32_t flags, const char *func, int line, char *fmtstr, ...) { (void)fp; (void)flags; (void)func; (void)line; (void)fmtstr; }
void cmi_logger_fatal(FILE *fp, const char *func, int line, char *fmtstr, ...)
{ __CPROVER_assert(0, "cmb_logger_fatal reached: the library terminates the program"); __CPROVER_assume(0); }
void cmi_logger_error(FILE *fp, const char *func, int line, char *fmtstr, ...)
{ __CPROVER_assert(0, "cmb_logger_error reached: the library terminates the program"); __CPROVER_assume(0); }

uint64_t nondet_u64(void);
int64_t nondet_i64(void);
uint32_t nondet_u32(void);
uint16_t nondet_u16(void);
uint8_t nondet_u8(void);
int nondet_int(void);
_Bool nondet_bool(void);
double nondet_double(void);
size_t nondet_size(void);
void *nondet_ptr(void);

#endif
