/*
 * cond.c - cmb_condition_signal / _wait entry / _cancel / _remove / _subscribe under contract (C13).
 * Real code: src/cmb_condition.c, src/cmb_resourceguard.c.  Event queue: contract stub evstub.h;
 * hashheap of the condition's guard: contract stub hhstub.h (all entries physically in heap[1..n], as
 * cmb_condition_signal walks the array itself; may move on enqueue).
 * Bounded-shape: <= 3 waiters with arbitrary predicates (each an arbitrary boolean), priorities and
 * entry times, in any queue order.
 */
#include "cmv_common.h"
#include "cmi_mempool.h"
#define CMV_HH_CAP 3
#define CMV_HH_MAY_MOVE() 0
#include "hhstub.h"
#include "cmb_process.h"
#include "cmi_process.h"
#include "cmb_resourceguard.h"
#include "cmb_condition.h"
#include "evstub.h"
void cmi_mempool_expand(struct cmi_mempool *mp) { __CPROVER_assert(0, "harness: pool alloc is redirected"); }
void *cmv_pool_alloc(struct cmi_mempool *mp) { return malloc(mp->obj_sz); }
void cmv_pool_free(struct cmi_mempool *mp, void *op) { __CPROVER_assert(op != NULL, "mempool free: non-NULL"); free(op); }
CMB_THREAD_LOCAL struct cmi_mempool cmi_process_waitertags = CMI_MEMPOOL_STATIC_INIT(sizeof(struct cmi_process_waiter), 256u);
CMB_THREAD_LOCAL struct cmi_coroutine *coroutine_main;
CMB_THREAD_LOCAL struct cmi_coroutine *coroutine_current;
static unsigned cmv_nremaw;
bool cmi_process_remove_awaitable(struct cmb_process *pp, enum cmi_process_awaitable_type type, const void *a) { if (cmv_nremaw < 3u) cmv_nremaw++; return true; }
void cmi_process_add_awaitable(struct cmb_process *pp, enum cmi_process_awaitable_type type, void *a) { }
void *cmi_coroutine_resume(struct cmi_coroutine *cp, void *arg) { return NULL; }
void *cmi_coroutine_yield(void *arg) { __CPROVER_assume(0); return NULL; }
static void wakeup_event_event(void *vp, void *arg) { }
void cmi_resourcebase_initialize(struct cmi_resourcebase *rbp, const char *name) { rbp->cookie = CMI_INITIALIZED; rbp->name[0] = 0; }
void cmi_resourcebase_terminate(struct cmi_resourcebase *rbp) { }

#include "src/cmb_resourceguard.c"
#include "src/cmb_condition.c"

static struct cmb_condition *CV;
static struct cmb_process *PR[3];
static _Bool PRED[3];
static unsigned cmv_npred;
static bool pred(const struct cmb_condition *cvp, const struct cmb_process *pp, const void *ctx)
{
    if (cmv_npred < 7u) cmv_npred++;
    __CPROVER_assert(cvp == CV, "the predicate is called with the condition itself");
    for (int i = 0; i < 3; i++) if (pp == PR[i]) return PRED[i];
    return false;
}
static struct cmb_process *mkproc(void)
{
    struct cmb_process *x = malloc(sizeof *x);
    x->core.status = CMI_COROUTINE_RUNNING; x->priority = nondet_i64(); x->awaits.next = NULL; x->waiters.next = NULL; x->resources.next = NULL; x->name[0] = 0;
    return x;
}
static unsigned NW;
static void setup(void)
{
    cmv_nremaw = 0; cmv_npred = 0;
    cmv_now = 0.0; cmv_counter = nondet_u64(); ASSUME(cmv_counter < UINT64_MAX - 16u);
    for (int i = 0; i < CMV_NEV; i++) EV[i].live = 0;
    observer_tagpool.cookie = CMI_INITIALIZED; observer_tagpool.obj_sz = sizeof(struct observer_tag); observer_tagpool.next_obj = NULL;
    CV = malloc(sizeof *CV); CV->guard.priority_queue.heap = NULL; CV->guard.priority_queue.hash_map = NULL;
    cmb_condition_initialize(CV, "c");
    NW = nondet_u8(); ASSUME(NW <= 3);
    for (unsigned i = 0; i < 3; i++) {
        PR[i] = mkproc(); PRED[i] = nondet_bool();
        if (i < NW) {
            double et = nondet_double(); ASSUME(et >= -1e6 && et <= 0.0);
            /* exactly what cmb_resourceguard_wait enqueues: (process, demand, context), key = process address, entry time, priority */
            (void)cmi_hashheap_enqueue(&CV->guard.priority_queue, PR[i], (void *)pred, NULL, NULL, (uint64_t)PR[i], et, PR[i]->priority);
        }
    }
}
#define QUEUED(i) cmi_hashheap_is_enqueued(&CV->guard.priority_queue, (uint64_t)PR[i])
#define WOKEN(i, sig) cmb_event_pattern_count(wakeup_event_condition, PR[i], (void *)(sig))

#ifdef H_SIGNAL
void h_signal(void)
{
    setup();
    const bool r = cmb_condition_signal(CV);
    bool any = false;
    for (unsigned i = 0; i < 3; i++) if (i < NW && PRED[i]) any = true;
    OBT("C13-O1", r == any, "signal reports whether any waiter was resumed");
    OBT("C13-O1", (NW < 1 || (PRED[0] ? (!QUEUED(0) && WOKEN(0, CMB_PROCESS_SUCCESS) == 1u) : (QUEUED(0) && cmb_event_pattern_count(CMB_ANY_ACTION, PR[0], CMB_ANY_OBJECT) == 0u))),
        "waiter 1: predicate true => dequeued and exactly one SUCCESS wake-up; predicate false => still queued, untouched");
    OBT("C13-O1", (NW < 2 || (PRED[1] ? (!QUEUED(1) && WOKEN(1, CMB_PROCESS_SUCCESS) == 1u) : (QUEUED(1) && cmb_event_pattern_count(CMB_ANY_ACTION, PR[1], CMB_ANY_OBJECT) == 0u))),
        "waiter 2 likewise (whatever its position in the queue)");
    OBT("C13-O1", (NW < 3 || (PRED[2] ? (!QUEUED(2) && WOKEN(2, CMB_PROCESS_SUCCESS) == 1u) : (QUEUED(2) && cmb_event_pattern_count(CMB_ANY_ACTION, PR[2], CMB_ANY_OBJECT) == 0u))),
        "waiter 3 likewise");
    uint64_t nsat = 0; for (unsigned i = 0; i < 3; i++) if (i < NW && PRED[i]) nsat++;
    OBT("C13-O1", cmb_event_queue_count() == nsat && cmi_hashheap_count(&CV->guard.priority_queue) == NW - nsat, "nobody else is resumed or removed");
    for (unsigned i = 0; i < 3; i++) if (i < NW && PRED[i]) {
        const uint64_t h = cmb_event_pattern_find(wakeup_event_condition, PR[i], CMB_ANY_OBJECT);
        OBT("C13-O1", h != 0u && cmb_event_time(h) == cmb_time() && cmb_event_priority(h) == PR[i]->priority, "the wake-up is at the current time with the waiter's priority");
    }
    OBT("C13-O1", cmv_npred == NW, "every waiter's predicate is evaluated exactly once");
    CANARY("condition signal: end reachable");
}
#endif

#ifdef H_ADMIN
void h_admin(void)
{
    setup();
    const int op = nondet_int(); ASSUME(op >= 0 && op <= 3);
    const unsigned k = nondet_u8(); ASSUME(k < 3);
    if (op <= 1) {
        const bool was = k < NW;
        const bool r = (op == 0) ? cmb_condition_cancel(CV, PR[k]) : cmb_condition_remove(CV, PR[k]);
        OBT("C13-O3", r == was && !QUEUED(k), "cancel / remove take exactly the named process out of the condition's queue and report whether it was queued");
        OBT("C13-O3", cmi_hashheap_count(&CV->guard.priority_queue) == NW - (was ? 1u : 0u), "everybody else stays queued");
        OBT("C13-O3", cmb_event_queue_count() == ((op == 0 && was) ? 1u : 0u) && cmb_event_pattern_count(CMB_ANY_ACTION, PR[k], (void *)CMB_PROCESS_CANCELLED) == ((op == 0 && was) ? 1u : 0u),
            "cancel resumes it with the CANCELLED code (one wake-up at the current time); remove resumes nobody");
    } else {
        /* subscribe / unsubscribe: the condition's GUARD is what observes the resource's guard */
        struct cmb_resourceguard *RG = malloc(sizeof *RG); RG->priority_queue.heap = NULL; RG->priority_queue.hash_map = NULL;
        cmb_resourceguard_initialize(RG, &CV->base);
        cmb_condition_subscribe(CV, RG);
        OBT("C13-O3", RG->observers.next != NULL && cmi_container_of(RG->observers.next, struct observer_tag, listhead)->observer == &CV->guard && RG->observers.next->next == NULL,
            "subscribe registers the condition's guard (not some other part of the condition object) as the one observer");
        if (op == 3) {
            OBT("C13-O3", cmb_condition_unsubscribe(CV, RG) && RG->observers.next == NULL, "unsubscribe removes exactly that registration");
            OBT("C13-O3", !cmb_condition_unsubscribe(CV, RG), "a second unsubscribe reports false");
        }
    }
    CANARY("condition admin: end reachable");
}
#endif

#ifdef H_FORWARD
/* a signal forwarded from an observed guard must have the effect of cmb_condition_signal */
void h_forward(void)
{
    setup();
    struct cmb_resourceguard *RG = malloc(sizeof *RG); RG->priority_queue.heap = NULL; RG->priority_queue.hash_map = NULL;
    cmb_resourceguard_initialize(RG, &CV->base);
    cmb_condition_subscribe(CV, RG);
    (void)cmb_resourceguard_signal(RG);              /* e.g. a release of the observed resource */
    for (unsigned i = 0; i < 3; i++) if (i < NW)
        OBT("C13-O2", PRED[i] ? (!QUEUED(i) && cmb_event_pattern_count(CMB_ANY_ACTION, PR[i], (void *)CMB_PROCESS_SUCCESS) == 1u) : QUEUED(i),
            "forwarded signal: every waiter whose predicate is true is resumed with SUCCESS, every other one stays queued - whatever its position in the queue");
    CANARY("condition forward: end reachable");
}
#endif
