/*
 * random_gen.c - the generator of cmb_random.c under contract (C15).
 *
 * Oracle: spec_* below are written from the published algorithms the property names
 * (sfc64: a,b,c + 64-bit counter, shifts 11 / 3, rotation 24;  splitmix64: golden-gamma
 * increment 0x9e3779b97f4a7c15, multipliers 0xbf58476d1ce4e5b9 and 0x94d049bb133111eb, shifts
 * 30/27/31; bootstrap: a,b,c,d drawn in that order from splitmix64 seeded with the seed, then
 * 20 outputs discarded) - NOT from the code.
 */
#include "cmv_common.h"

/* function-local statics exported to the harness by ghost statements (lib/annotate.py) */
static double *cmv_g_aprev, *cmv_g_c, *cmv_g_d, *cmv_geo_prev, *cmv_geo_denom;
static double cmv_k0, cmv_c0, cmv_d0, cmv_s1;
/* ghost statement at the entry of cmb_random_std_gamma (before the key test): export the cells and
 * give the cache an ARBITRARY content - whatever earlier calls of this thread left behind */
#define CMV_EXPORT_GAMMA cmv_g_aprev = &a_prev; cmv_g_c = &c; cmv_g_d = &d; a_prev = cmv_k0; c = cmv_c0; d = cmv_d0;
#define CMV_EXPORT_GEO cmv_geo_prev = &prev; cmv_geo_denom = &denom;

/* libm: pure functions of their argument (uninterpreted), so that "same argument => same value" */
double __CPROVER_uninterpreted_sqrt(double);
double __CPROVER_uninterpreted_log(double);
#ifdef H_CACHES
double sqrt(double x) { double r = __CPROVER_uninterpreted_sqrt(x); ASSUME(r == r); return r; }
double log(double x) { double r = __CPROVER_uninterpreted_log(x); ASSUME(r == r); return r; }
double __CPROVER_uninterpreted_log1p(double);
double log1p(double x) { double r = __CPROVER_uninterpreted_log1p(x); ASSUME(r == r); return r; }
double pow(double x, double y) { (void)x; (void)y; return nondet_double(); }   /* value irrelevant here */
double ldexp(double x, int e) { (void)x; (void)e; return nondet_double(); }   /* value irrelevant here (the boost draw) */
double ceil(double x) { double r = nondet_double(); ASSUME(r >= 1.0 && r <= 1e9); return r; }   /* value irrelevant here */
#endif

#include "src/cmb_random.c"

struct spec_state { uint64_t a, b, c, d; };
static uint64_t spec_sfc64(struct spec_state *s)
{
    const uint64_t out = s->a + s->b + s->d;
    s->d = s->d + 1u;
    s->a = s->b ^ (s->b >> 11);
    s->b = s->c + (s->c << 3);
    s->c = ((s->c << 24) | (s->c >> (64 - 24))) + out;
    return out;
}
static uint64_t spec_splitmix64(uint64_t *x)
{
    *x += UINT64_C(0x9e3779b97f4a7c15);
    uint64_t z = *x;
    z = (z ^ (z >> 30)) * UINT64_C(0xbf58476d1ce4e5b9);
    z = (z ^ (z >> 27)) * UINT64_C(0x94d049bb133111eb);
    return z ^ (z >> 31);
}
static void spec_init(struct spec_state *s, uint64_t seed)
{
    uint64_t x = seed;
    s->a = spec_splitmix64(&x);
    s->b = spec_splitmix64(&x);
    s->c = spec_splitmix64(&x);
    s->d = spec_splitmix64(&x);
    for (int i = 0; i < 20; i++) (void)spec_sfc64(s);
}

static void arbitrary_prior_history(void)
{
    /* everything the thread may have left behind: any generator state, any seed record, any
     * splitmix state, any bit cache */
    prng_state.a = nondet_u64(); prng_state.b = nondet_u64(); prng_state.c = nondet_u64(); prng_state.d = nondet_u64();
    initial_seed = nondet_u64(); splitmix_state = nondet_u64();
    flip_bits = nondet_u64(); flip_bitpos = nondet_u8(); ASSUME(flip_bitpos <= 64);
}

#ifdef H_INIT
void h_init(void)
{
    arbitrary_prior_history();
    const uint64_t seed = nondet_u64();
    cmb_random_initialize(seed);
    struct spec_state s; spec_init(&s, seed);
    OBT("C15-O1", prng_state.a == s.a && prng_state.b == s.b && prng_state.c == s.c && prng_state.d == s.d,
        "after initialize(seed) the 256-bit state equals splitmix64 bootstrap + 20 discards, whatever the state before");
    OBT("C15-O1", cmb_random_curseed() == seed, "curseed reports the seed");
    const uint64_t o1 = cmb_random_sfc64(), e1 = spec_sfc64(&s);
    const uint64_t o2 = cmb_random_sfc64(), e2 = spec_sfc64(&s);
    OBT("C15-O1", o1 == e1 && o2 == e2, "the first raw outputs after seeding are those of the documented generator");
    CANARY("random init: end reachable");
}
#endif

#ifdef H_STEP
void h_step(void)
{
    arbitrary_prior_history();
    struct spec_state s = { prng_state.a, prng_state.b, prng_state.c, prng_state.d };
    const uint64_t o = cmb_random_sfc64(), e = spec_sfc64(&s);
    OBT("C15-O2", o == e && prng_state.a == s.a && prng_state.b == s.b && prng_state.c == s.c && prng_state.d == s.d,
        "one step of cmb_random_sfc64 equals one step of sfc64 for every state");
    CANARY("random step: end reachable");
}
#endif

#ifdef H_FLIP
/* flip: (1) initialize leaves the bit cache EMPTY whatever it held; (2) step contract of flip.
 * Lemma: from an empty cache, flips 1..64 are bits 63..0 of the next raw output, flip 65
 * refills - i.e. the flip stream is a function of the raw stream, hence of the seed. */
void h_flip(void)
{
    arbitrary_prior_history();          /* incl. a partially consumed bit cache */
    if (nondet_bool()) {
        const uint64_t seed = nondet_u64();
        cmb_random_initialize(seed);
        OBT("C15-O3", flip_bitpos == 0u, "initialize(seed) empties the flip bit cache: no cached bit survives re-seeding");
        struct spec_state s = { prng_state.a, prng_state.b, prng_state.c, prng_state.d };
        const uint64_t raw = spec_sfc64(&s);
        const int f = cmb_random_flip();
        OBT("C15-O3", f == (int)(raw >> 63) && flip_bitpos == 63u && flip_bits == raw && prng_state.d == s.d && prng_state.a == s.a, "the first flip after seeding is the top bit of the first raw output");
    } else {
        const uint64_t bits0 = flip_bits; const uint8_t pos0 = flip_bitpos;
        struct spec_state s = { prng_state.a, prng_state.b, prng_state.c, prng_state.d };
        const int f = cmb_random_flip();
        if (pos0 == 0u) {
            const uint64_t raw = spec_sfc64(&s);
            OBT("C15-O3", f == (int)(raw >> 63) && flip_bitpos == 63u && flip_bits == raw && prng_state.d == s.d, "flip on an empty cache draws exactly one raw output and returns its top bit");
        } else {
            OBT("C15-O3", f == (int)((bits0 >> (pos0 - 1u)) & 1u) && flip_bitpos == pos0 - 1u && flip_bits == bits0 && prng_state.d == s.d && prng_state.a == s.a,
                "flip on a non-empty cache returns the next cached bit and draws nothing");
        }
    }
    OBT("C15-O3", flip_bitpos <= 64u, "cache position stays within 0..64");
    CANARY("random flip: end reachable");
}
#endif

#ifdef H_CACHES
/* transparent caches: the values read in a call are a function of the current argument only */
double cmv_nd_double(void) { return nondet_double(); }
void h_caches(void)
{
    /* geometric: run once to obtain the addresses, then set an arbitrary cache that satisfies
     * the invariant (prev == 0.0: it is never written) and check what the next call uses */
    const double p0 = nondet_double(); ASSUME(p0 > 0.0 && p0 < 1.0);      /* p == 1 returns before the cache is touched */
    (void)cmb_random_geometric(p0);
    OBT("C15-O3", *cmv_geo_prev == 0.0, "geometric: the 'previous p' cell is never written, so denom is recomputed on every call");
    const double p = nondet_double(); ASSUME(p > 0.0 && p < 1.0);
    *cmv_geo_denom = nondet_double();
    (void)cmb_random_geometric(p);
    OBT("C15-O3", *cmv_geo_prev == 0.0 && *cmv_geo_denom == -__CPROVER_uninterpreted_log1p(-p), "geometric: the denominator used is -log1p(-p) of the CURRENT argument");
    CANARY("random caches geometric: end reachable");
}
/* the first draw of the sampler comes right after the cache handling: the obligations are checked
 * there, and the rest of the sampler (rejection loops, floating-point algebra) is cut off */
double cmv_gamma_probe(void)
{
    /* the cache key is the effective shape: the shape itself, or shape + 1 in the boosted case shape < 1 */
    const double key = (cmv_s1 < 1.0) ? cmv_s1 + 1.0 : cmv_s1;
    OBT("C15-O3", *cmv_g_aprev == key, "std_gamma: the cache key is the (effective) shape of the call being made");
    OBT("C15-O3", key == cmv_k0 || (*cmv_g_d == key - 1.0 / 3.0 && *cmv_g_c == 1.0 / __CPROVER_uninterpreted_sqrt(9.0 * (key - 1.0 / 3.0))), "std_gamma: on a key miss (c,d) are recomputed from the current shape alone");
    OBT("C15-O3", key != cmv_k0 || (*cmv_g_d == cmv_d0 && *cmv_g_c == cmv_c0), "std_gamma: on a key hit the cached (c,d) are used unchanged");
    CANARY("random caches gamma: probe reachable");
    ASSUME(0);
    return 0.0;
}
void h_gamma(void)
{
    /* step contract from an ARBITRARY cache content (k0,c0,d0).  Lemma: the invariant
     * "(c,d) = f(key)" holds initially in the sense that key 0.0 never matches a positive shape, is
     * established by the first call and preserved by every call, so (c,d) read = f(current shape). */
    cmv_k0 = nondet_double(); cmv_c0 = nondet_double(); cmv_d0 = nondet_double();
    ASSUME(cmv_k0 == cmv_k0 && cmv_c0 == cmv_c0 && cmv_d0 == cmv_d0);
    cmv_s1 = nondet_double(); ASSUME(cmv_s1 > 0.0);
    (void)cmb_random_std_gamma(cmv_s1);
}
#endif
