/*
 * buffer.c - cmb_buffer_get / cmb_buffer_put under contract (C11; also C08-O1, C14-O1 for the
 * buffer).  Real code: src/cmb_buffer.c from the working tree with loop-contract macros
 * inserted at the two `while (true)` heads (lib/annotate.py).  Layer below (guard, time series,
 * clock) replaced by the contract stubs of cmv_guardstub.h.
 *
 * Entry points: h_get, h_put (loop contracts => unbounded number of partial transfers/waits),
 *               h_queries (level/space), h_recording (start/stop).
 */
#include "cmv_common.h"
#include "cmb_buffer.h"

static struct cmb_buffer *B;          /* the object under test */
static uint64_t *AMNT;
/* Conservation is stated per atomic segment (call or last resumption -> next suspension or
 * return): level + amount_variable is unchanged by the caller's own code, i.e. every unit
 * that leaves (enters) the level enters (leaves) the caller's amount.  obs_* are the values
 * at the start of the current segment; the environment step re-bases them.  Summing the
 * segments gives  level = level_at_call + env_changes -/+ transferred  (telescoping lemma). */
static uint64_t cmv_obs_level, cmv_obs_amnt;
static _Bool cmv_env_changed;          /* did the environment ever change the level */
static uint64_t cmv_init;             /* requested amount */

#define CMV_NGUARDS 2
#define CMV_GUARD_INDEX(p) ((p) == &B->front_guard ? 0 : 1)
#define CMV_DEMAND(gi) ((gi) == 0 ? (B->level > 0u) : (B->level < B->capacity))
#define CMV_INV_OBJ (B->level <= B->capacity)
#define CMV_IREC (!B->is_recording || (cmv_rec_x == (double)B->level))
#define CMV_ENV_HAVOC() do { \
        uint64_t nl = nondet_u64(); ASSUME(nl <= B->capacity); \
        if (nl != B->level) cmv_env_changed = 1; \
        B->level = nl; cmv_obs_level = nl; cmv_obs_amnt = *AMNT; \
        if (B->is_recording) { cmv_rec_x = (double)B->level; } \
    } while (0)
#ifdef H_GET     /* get: what left the level is what the amount gained */
#define CMV_CONS (B->level <= cmv_obs_level && cmv_obs_level - B->level == *AMNT - cmv_obs_amnt && *AMNT >= cmv_obs_amnt)
#else            /* put: what the level gained is what left the amount */
#define CMV_CONS (B->level >= cmv_obs_level && B->level - cmv_obs_level == cmv_obs_amnt - *AMNT && *AMNT <= cmv_obs_amnt)
#endif
#define CMV_AT_YIELD() do { \
        OBT("C11-O1", CMV_INV_OBJ, "at every suspension point 0 <= level <= capacity"); \
        OBT("C11-O1", CMV_CONS, "at every suspension point: change of level since the segment began == amount moved to/from the caller in this segment (exact, no wrap)"); \
        OBT("C08-O1", CMV_ISIG(0), "at every suspension point: level > 0 implies a getter grant is pending (front guard signalled)"); \
        OBT("C08-O1", CMV_ISIG(1), "at every suspension point: level < capacity implies a putter grant is pending (rear guard signalled)"); \
        OBT("C14-O1", CMV_IREC, "at every suspension point the last recorded sample equals the level"); \
    } while (0)

#include "cmv_guardstub.h"

/* loop contracts, inserted by lib/annotate.py at the loop heads of the real functions */
#define CMV_LOOP_ASSIGNS __CPROVER_assigns(rem_claim, *amntp, bp->level, cmv_clock, cmv_rec_n, cmv_rec_x, cmv_rec_t, \
        cmv_nwaits, cmv_last_wait_guard, cmv_last_sig, cmv_obs_level, cmv_obs_amnt, cmv_env_changed, __CPROVER_object_whole(cmv_grant), __CPROVER_object_whole(cmv_nsig))
#define CMV_LOOP_BUFFER_GET CMV_LOOP_ASSIGNS \
    __CPROVER_loop_invariant(bp == B && amntp == AMNT && init_claim == cmv_init && cmv_clock == cmv_clock) \
    __CPROVER_loop_invariant(*amntp <= init_claim && rem_claim == init_claim - *amntp) \
    __CPROVER_loop_invariant(rem_claim > 0u || (init_claim == 0u && cmv_nwaits == 0u)) \
    __CPROVER_loop_invariant(bp->level <= bp->capacity) \
    __CPROVER_loop_invariant(cmv_nwaits != 0u || !cmv_env_changed) \
    __CPROVER_loop_invariant(CMV_CONS) \
    __CPROVER_loop_invariant(!bp->is_recording || cmv_rec_x == (double)bp->level) \
    __CPROVER_loop_invariant(cmv_nwaits == 0u ? (CMV_ISIG(0) && CMV_ISIG(1)) : (CMV_ISIG(1) && (cmv_last_sig == 0 || CMV_ISIG(0))))
#define CMV_LOOP_BUFFER_PUT CMV_LOOP_ASSIGNS \
    __CPROVER_loop_invariant(bp == B && amntp == AMNT && init_claim == cmv_init && cmv_clock == cmv_clock) \
    __CPROVER_loop_invariant(*amntp <= init_claim && rem_claim == *amntp && rem_claim > 0u) \
    __CPROVER_loop_invariant(bp->level <= bp->capacity) \
    __CPROVER_loop_invariant(cmv_nwaits != 0u || !cmv_env_changed) \
    __CPROVER_loop_invariant(CMV_CONS) \
    __CPROVER_loop_invariant(!bp->is_recording || cmv_rec_x == (double)bp->level) \
    __CPROVER_loop_invariant(cmv_nwaits == 0u ? (CMV_ISIG(0) && CMV_ISIG(1)) : (CMV_ISIG(0) && (cmv_last_sig == 0 || CMV_ISIG(1))))

#include "src/cmb_buffer.c"

static void setup(void)
{
    cmv_stub_reset();
    B = malloc(sizeof *B);
    AMNT = malloc(sizeof *AMNT);
    ASSUME(B != NULL && AMNT != NULL);
    /* arbitrary initialised buffer satisfying the object invariant */
    B->core.cookie = CMI_INITIALIZED;
    B->capacity = nondet_u64();
    B->level = nondet_u64();
    B->is_recording = nondet_bool();
    ASSUME(B->capacity > 0u);              /* cmb_buffer_initialize asserts it */
    ASSUME(B->level <= B->capacity);
    cmv_clock = nondet_double();
    ASSUME(cmv_clock == cmv_clock && cmv_clock > -1e300 && cmv_clock < 1e300);
    /* pre-state satisfies I-SIG and I-REC */
    for (int i = 0; i < CMV_NGUARDS; i++) { cmv_grant[i] = nondet_bool(); ASSUME(CMV_ISIG(i)); }
    cmv_rec_n = 0;
    cmv_rec_x = nondet_double();
    cmv_rec_t = cmv_clock;
    ASSUME(CMV_IREC);
    cmv_env_changed = 0;
}

#ifdef H_GET
void h_get(void)
{
    setup();
    cmv_init = nondet_u64();              /* every request incl. 0, > capacity, near 2^64 */
    *AMNT = cmv_init;
    cmv_obs_level = B->level; cmv_obs_amnt = 0;
    const uint64_t cap0 = B->capacity;
    const bool rec0 = B->is_recording;
    const int64_t sig = cmb_buffer_get(B, AMNT);

    OBT("C11-O2", B->level <= B->capacity && B->capacity == cap0, "on return 0 <= level <= capacity, capacity unchanged");
    OBT("C11-O2", sig != CMB_PROCESS_SUCCESS || *AMNT == cmv_init, "get returning SUCCESS delivered exactly the requested amount");
    OBT("C11-O2", *AMNT <= cmv_init, "get never delivers more than requested");
    OBT("C11-O2", CMV_CONS, "on return: change of level in the last segment == amount added to the reported value (with the same fact at every suspension point: reported amount is exactly what left the buffer)");
    OBT("C11-O2", sig == CMB_PROCESS_SUCCESS || (cmv_nwaits > 0 && sig == cmv_last_sig), "a non-SUCCESS return value is the signal delivered by the last wait");
    OBT("C11-O3", cmv_init != 0u || (sig == CMB_PROCESS_SUCCESS && cmv_nwaits == 0 && !cmv_env_changed && B->level == cmv_obs_level), "zero-amount get succeeds at once");
    OBT("C08-O1", sig != CMB_PROCESS_SUCCESS ? CMV_ISIG(1) : (CMV_ISIG(0) && CMV_ISIG(1)), "on return every guard whose front demand is satisfiable has a grant pending (after an interrupted wait the front guard's grant is the business of the guard layer: C08-O3)");
    OBT("C14-O1", CMV_IREC && B->is_recording == rec0, "on return the last recorded sample equals the level");
    CANARY("buffer get: end of harness reachable");
    if (sig != CMB_PROCESS_SUCCESS && *AMNT > 0 && cmv_nwaits > 1) CANARY("buffer get: interrupted after partial transfer and two waits reachable");
}
#endif

#ifdef H_PUT
void h_put(void)
{
    setup();
    cmv_init = nondet_u64();
    ASSUME(cmv_init > 0u);                /* documented precondition (release assert) */
    *AMNT = cmv_init;
    cmv_obs_level = B->level; cmv_obs_amnt = cmv_init;
    const uint64_t cap0 = B->capacity;
    const bool rec0 = B->is_recording;
    const int64_t sig = cmb_buffer_put(B, AMNT);

    OBT("C11-O2", B->level <= B->capacity && B->capacity == cap0, "on return 0 <= level <= capacity, capacity unchanged");
    OBT("C11-O2", sig != CMB_PROCESS_SUCCESS || *AMNT == 0u, "put returning SUCCESS stored exactly the requested amount (nothing remains)");
    OBT("C11-O2", *AMNT <= cmv_init, "put never reports more remaining than requested");
    OBT("C11-O2", CMV_CONS, "on return: change of level in the last segment == amount taken from the remaining value (with the same fact at every suspension point: stored amount is exactly requested - remaining)");
    OBT("C11-O2", sig == CMB_PROCESS_SUCCESS || (cmv_nwaits > 0 && sig == cmv_last_sig), "a non-SUCCESS return value is the signal delivered by the last wait");
    OBT("C08-O1", sig != CMB_PROCESS_SUCCESS ? CMV_ISIG(0) : (CMV_ISIG(0) && CMV_ISIG(1)), "on return every guard whose front demand is satisfiable has a grant pending");
    OBT("C14-O1", CMV_IREC && B->is_recording == rec0, "on return the last recorded sample equals the level");
    CANARY("buffer put: end of harness reachable");
    if (sig != CMB_PROCESS_SUCCESS && *AMNT < cmv_init && cmv_nwaits > 1) CANARY("buffer put: interrupted after partial transfer and two waits reachable");
}
#endif

#ifdef H_MISC
void h_misc(void)
{
    setup();
    OBT("C11-O4", cmb_buffer_level(B) == B->level, "level query returns the level");
    OBT("C11-O4", cmb_buffer_space(B) == B->capacity - B->level, "space query returns capacity - level");
    const uint64_t l0 = B->level;
    if (nondet_bool()) {
        cmb_buffer_recording_start(B);
        OBT("C14-O2", B->is_recording && cmv_rec_n == 1 && cmv_rec_x == (double)B->level && cmv_rec_t == cmv_clock, "recording_start switches on and records the current level at the current time");
    } else {
        const bool was = B->is_recording;
        cmb_buffer_recording_stop(B);
        OBT("C14-O2", !B->is_recording && (!was || (cmv_rec_n == 1 && cmv_rec_x == (double)B->level && cmv_rec_t == cmv_clock)), "recording_stop records a final sample then switches off");
    }
    OBT("C11-O4", B->level == l0, "recording control does not change the level");
    CANARY("buffer misc: end of harness reachable");
}
#endif
