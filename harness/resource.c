/*
 * resource.c - cmb_resource under contract (C05; also C08-O1, C14-O1 for the binary resource).
 *
 * Real code: src/cmb_resource.c and src/cmb_process.c (for cmi_process_remove_holdable) from the
 * working tree.  The layer below is replaced by contract stubs (cmv_guardstub.h: guard, time
 * series, clock; below: event queue, tag pool, cmi_process_cancel_awaiteds is the real one for
 * an empty awaits list).
 *
 * The central obligation is the function contract of `resource_grab`, attached by redeclaration:
 *     requires  rp->holder == NULL            (C05-O1: a holder is never overwritten)
 *     ensures   rp->holder == pp and pp's resources list gained exactly one record of rp
 * It is ENFORCED on the real body in h_grab and REPLACES the call in h_acquire / h_preempt, so
 * every call site is checked against the precondition (goto-instrument --dfcc).
 *
 * I-RES (system invariant for one resource R, checked at every suspension point and return):
 *     holder == X  <=>  X's resources list contains R exactly once     (X in {P, Q})
 * P = the calling process, Q = an arbitrary other process (victim / previous holder),
 * Z = any third process (its list is not modelled; it is never touched by these functions).
 */
#include "cmv_common.h"
#include "cmb_resource.h"
#include "cmb_process.h"
#include "cmi_process.h"
#include "cmi_mempool.h"

static struct cmb_resource *R;
static struct cmb_process *P, *Q, *Z;
static struct cmi_holdable *OTHER;      /* some other holdable that may be in the lists */

#define CMV_NGUARDS 1
#define CMV_GUARD_INDEX(p) 0
#define CMV_DEMAND(gi) (R->holder == NULL)
#define CMV_IREC (!R->is_recording || cmv_rec_x == (R->holder != NULL ? 1.0 : 0.0))

/* number of records of holdable h in process x's list (lists are capped at 2 nodes) */
static unsigned cmv_count(const struct cmb_process *x, const void *h)
{
    unsigned n = 0;
    const struct cmi_slist_head *e = x->resources.next;
    if (e != NULL) {
        const struct cmi_process_holdable *a = cmi_container_of(e, struct cmi_process_holdable, listhead);
        if ((const void *)a->res == h) n++;
        e = e->next;
        if (e != NULL) {
            const struct cmi_process_holdable *b = cmi_container_of(e, struct cmi_process_holdable, listhead);
            if ((const void *)b->res == h) n++;
            e = e->next;
            if (e != NULL) {
                const struct cmi_process_holdable *c = cmi_container_of(e, struct cmi_process_holdable, listhead);
                if ((const void *)c->res == h) n++;
                __CPROVER_assert(e->next == NULL, "harness: list longer than the modelled bound");
            }
        }
    }
    return n;
}
#ifdef H_ACQUIRE
/* acquire never touches Q's list: Q's side of I-RES is carried by a ghost boolean that the
 * environment keeps in step with the holder (its physical list is only used to draw the ghost) */
static _Bool cmv_q_has;
#define CMV_IRES_Q ((R->holder == Q) == cmv_q_has)
#else
#define CMV_IRES_Q (cmv_count(Q, R) == (R->holder == Q ? 1u : 0u))
#endif
#define CMV_IRES ((cmv_count(P, R) == (R->holder == P ? 1u : 0u)) && CMV_IRES_Q)

/* environment at a suspension point: others acquire/release/preempt/drop R through the API, so
 * the holder may change among {NULL, Q, Z} - never to P, who is blocked in acquire - and Q's
 * list changes with it; P's list is P's own. */
#ifdef H_ACQUIRE
#define cmv_set_q_has(h) (cmv_q_has = (h))
#else
#define cmv_set_q_has(h) __CPROVER_assert(0, "harness: no suspension point expected here")
#endif
#define CMV_ENV_HAVOC() do { \
        struct cmb_process *nh = nondet_bool() ? NULL : (nondet_bool() ? Q : Z); \
        R->holder = nh; cmv_set_q_has(nh == Q); \
        if (R->is_recording) cmv_rec_x = (R->holder != NULL ? 1.0 : 0.0); \
    } while (0)
#define CMV_AT_YIELD() do { \
        OBT("C05-O3", CMV_IRES, "at every suspension point: holder == X iff X's own record lists the resource exactly once"); \
        OBT("C05-O3", R->holder != P, "a process blocked in acquire does not hold the resource"); \
        OBT("C08-O1", CMV_ISIG(0), "at every suspension point: resource free implies a grant is pending"); \
        OBT("C14-O1", CMV_IREC, "at every suspension point the last recorded sample equals the in-use state"); \
    } while (0)

#include "cmv_guardstub.h"

static struct cmi_process_holdable *mknode(struct cmi_holdable *res, struct cmi_slist_head *next);
/* ---- contract of resource_grab, by redeclaration --------------------------------------- */
struct cmb_resource;
static void resource_grab(struct cmb_resource *rp, struct cmb_process *pp)
__CPROVER_requires(rp != NULL && pp != NULL)
__CPROVER_requires(rp->holder == NULL)
__CPROVER_assigns(rp->holder, pp->resources.next, cmi_process_holdabletags.next_obj, cmi_process_holdabletags.cookie)
__CPROVER_assigns(cmi_process_holdabletags.next_obj != NULL: __CPROVER_object_whole(cmi_process_holdabletags.next_obj))
__CPROVER_ensures(rp->holder == pp)
__CPROVER_ensures(pp->resources.next != NULL && pp->resources.next != __CPROVER_old(pp->resources.next))
__CPROVER_ensures(cmi_container_of(pp->resources.next, struct cmi_process_holdable, listhead)->res == (struct cmi_holdable *)rp)
__CPROVER_ensures(pp->resources.next->next == __CPROVER_old(pp->resources.next))
;

#ifdef H_ACQUIRE
#define CMV_LOOP_ACQUIRE \
    __CPROVER_assigns(ret, rp->holder, cmv_q_has, cmv_clock, cmv_rec_n, cmv_rec_x, cmv_rec_t, cmv_nwaits, cmv_last_wait_guard, cmv_last_sig, \
                      __CPROVER_object_whole(cmv_grant), __CPROVER_object_whole(cmv_nsig)) \
    __CPROVER_loop_invariant(rp == R && pp == P && cmv_clock == cmv_clock) \
    __CPROVER_loop_invariant(CMV_IRES_Q && R->holder != P && R->holder != NULL) \
    __CPROVER_loop_invariant(CMV_IREC)
#endif

#include "src/cmb_process.c"
#include "src/cmb_resource.c"

/* Call-site check of the precondition of resource_grab (C05-O1): in the acquire / preempt groups
 * every direct call of resource_grab is redirected (goto-instrument --replace-calls) to this
 * interposer, which asserts the `requires` clause and then runs the REAL body (its call of
 * cmv_grab_forward is redirected back to resource_grab by a second --replace-calls pass).  The `ensures` side of the contract is
 * discharged on the real body in group C05.O1.grab_contract (--enforce-contract). */
void cmv_grab_forward(struct cmb_resource *rp, struct cmb_process *pp);   /* no body: redirected back to resource_grab in a second pass */
void cmv_grab_checked(struct cmb_resource *rp, struct cmb_process *pp)
{
    OBT("C05-O1", rp != NULL && pp != NULL && rp->holder == NULL, "precondition of resource_grab at this call site: the resource has no holder (a holder is never overwritten)");
    cmv_grab_forward(rp, pp);
}

/* ---- stubs of the layers below ----------------------------------------------------------- */
CMB_THREAD_LOCAL struct cmi_coroutine *coroutine_main;
CMB_THREAD_LOCAL struct cmi_coroutine *coroutine_current;

void cmi_mempool_expand(struct cmi_mempool *mp)     /* contract proved in C20: one fresh object at least */
{
    void **o = malloc(mp->obj_sz);
    ASSUME(o != NULL);
    *o = NULL;
    mp->next_obj = o;
    mp->cookie = CMI_INITIALIZED;
}

static unsigned cmv_nsched;
static void *cmv_sched_subject, *cmv_sched_object;
static cmb_event_func *cmv_sched_action;
static double cmv_sched_time;
static int64_t cmv_sched_prio;
uint64_t cmb_event_schedule(cmb_event_func *action, void *subject, void *object, double time, int64_t priority)
{
    __CPROVER_assert(time >= cmv_clock, "cmb_event_schedule precondition: time >= clock");
    if (cmv_nsched < 2u) cmv_nsched++;
    cmv_sched_action = action; cmv_sched_subject = subject; cmv_sched_object = object;
    cmv_sched_time = time; cmv_sched_prio = priority;
    uint64_t h = nondet_u64(); ASSUME(h != 0u);
    return h;
}
static unsigned cmv_npatcancel;
static const void *cmv_patcancel_subject;
uint64_t cmb_event_pattern_cancel(cmb_event_func *action, const void *subject, const void *object)
{
    if (cmv_npatcancel < 2u) cmv_npatcancel++;
    cmv_patcancel_subject = subject;
    return nondet_u64();
}
bool cmb_event_cancel(uint64_t handle) { return nondet_bool(); }
void cmb_event_reprioritize(uint64_t handle, int64_t priority) { }
bool cmb_resourceguard_remove(struct cmb_resourceguard *rgp, const struct cmb_process *pp) { return nondet_bool(); }
bool cmi_event_remove_waiter(uint64_t key, const struct cmb_process *pp) { return nondet_bool(); }
void *cmi_coroutine_resume(struct cmi_coroutine *cp, void *arg) { __CPROVER_assert(0, "harness: no context switch expected in these functions"); return NULL; }

static unsigned cmv_nother_drop;
static void cmv_other_drop(struct cmi_holdable *h, const struct cmb_process *pp) { if (cmv_nother_drop < 3u) cmv_nother_drop++; }
/* ---- state construction -------------------------------------------------------------------- */
static struct cmi_process_holdable *mknode(struct cmi_holdable *res, struct cmi_slist_head *next)
{
    struct cmi_process_holdable *n = malloc(sizeof *n);
    ASSUME(n != NULL);
    n->res = res; n->listhead.next = next;
    return n;
}
static void mklist(struct cmb_process *x, unsigned n_r, unsigned n_other, _Bool r_first)
{
    /* up to 2 records in the pre-state, R at most once (I-RES) */
    struct cmi_slist_head *l = NULL;
    if (n_other && !r_first) l = &mknode(OTHER, l)->listhead;
    if (n_r) l = &mknode((struct cmi_holdable *)R, l)->listhead;
    if (n_other && r_first) l = &mknode(OTHER, l)->listhead;
    x->resources.next = l;
}
static struct cmb_process *mkproc(void)
{
    struct cmb_process *x = malloc(sizeof *x);
    ASSUME(x != NULL);
    x->core.status = CMI_COROUTINE_RUNNING;
    x->priority = nondet_i64();
    x->awaits.next = NULL; x->waiters.next = NULL; x->resources.next = NULL;
    x->name[0] = 'p'; x->name[1] = 0;
    return x;
}
static void pool_reset(struct cmi_mempool *mp, size_t sz, _Bool used)
{
    /* a pool some tag has been taken from is initialised */
    mp->cookie = (!used && nondet_bool()) ? CMI_THREAD_STATIC : CMI_INITIALIZED;
    mp->obj_sz = sz; mp->incr_num = 256u; mp->incr_sz = 0; mp->chunk_list_len = 0; mp->chunk_list_cnt = 0;
    mp->chunk_list = NULL; mp->next_obj = NULL;
    if (mp->cookie == CMI_INITIALIZED && nondet_bool()) { void **o = malloc(sz); ASSUME(o != NULL); *o = NULL; mp->next_obj = o; }
}

/* who holds R in the pre-state: 0 nobody, 1 P, 2 Q, 3 Z */
static void setup(int holder_choice)
{
    cmv_stub_reset();
    cmv_nsched = 0; cmv_npatcancel = 0; cmv_sched_subject = NULL; cmv_patcancel_subject = NULL;
    R = malloc(sizeof *R); OTHER = malloc(sizeof *OTHER);
    ASSUME(R != NULL && OTHER != NULL);
    R->core.base.cookie = CMI_INITIALIZED; R->core.base.name[0] = 'r'; R->core.base.name[1] = 0;
    OTHER->base.cookie = CMI_INITIALIZED; OTHER->drop = cmv_other_drop; OTHER->reprio = NULL;
    R->core.drop = resource_drop_holder; R->core.reprio = NULL;   /* as cmb_resource_initialize sets them */
    R->is_recording = nondet_bool();
    P = mkproc(); Q = mkproc(); Z = mkproc();
    coroutine_main = (struct cmi_coroutine *)mkproc();
    coroutine_current = (struct cmi_coroutine *)P;
    R->holder = holder_choice == 0 ? NULL : holder_choice == 1 ? P : holder_choice == 2 ? Q : Z;
    mklist(P, R->holder == P, nondet_bool(), nondet_bool());
    mklist(Q, R->holder == Q, nondet_bool(), nondet_bool());
    pool_reset(&cmi_process_holdabletags, sizeof(struct cmi_process_holdable), P->resources.next != NULL || Q->resources.next != NULL);
    pool_reset(&cmi_process_awaitabletags, sizeof(struct cmi_process_awaitable), 0);
    cmv_clock = nondet_double(); ASSUME(cmv_clock == cmv_clock);
    cmv_grant[0] = nondet_bool(); ASSUME(CMV_ISIG(0));
    cmv_rec_x = nondet_double(); ASSUME(CMV_IREC);
    cmv_rec_t = cmv_clock;
}

#ifdef H_GRAB
/* entry for --enforce-contract resource_grab: the real body against the contract */
void h_grab(void)
{
    setup(0);
    struct cmb_process *pp = nondet_bool() ? P : Q;
    const unsigned before = cmv_count(pp, R);
    resource_grab(R, pp);
    OBT("C05-O1", cmv_count(pp, R) == before + 1u, "after resource_grab the process lists the resource once more than before");
    CANARY("resource grab: end reachable");
}
#endif

#ifdef H_ACQUIRE
void h_acquire(void)
{
    int hc = nondet_int(); ASSUME(hc == 0 || hc == 2 || hc == 3);   /* precondition: the caller does not hold R */
    setup(hc);
    const unsigned p_other = cmv_count(P, OTHER);
    cmv_q_has = (cmv_count(Q, R) == 1u);
    const int64_t sig = cmb_resource_acquire(R);
    OBT("C05-O2", sig != CMB_PROCESS_SUCCESS || R->holder == P, "acquire returning SUCCESS made the caller the holder");
    OBT("C05-O2", sig == CMB_PROCESS_SUCCESS || R->holder != P, "acquire not returning SUCCESS did not make the caller the holder");
    OBT("C05-O3", CMV_IRES, "on return: holder == X iff X's own record lists the resource exactly once (caller and the other process)");
    OBT("C05-O3", cmv_count(P, OTHER) == p_other, "the caller's records of other resources are untouched");
    OBT("C05-O2", sig == CMB_PROCESS_SUCCESS || (cmv_nwaits > 0 && sig == cmv_last_sig), "a non-SUCCESS return value is the signal delivered by the wait");
    OBT("C08-O1", sig != CMB_PROCESS_SUCCESS || CMV_ISIG(0), "on successful return: resource free implies a grant is pending");
    OBT("C14-O1", CMV_IREC, "on return the last recorded sample equals the in-use state");
    CANARY("resource acquire: end reachable");
    if (sig == 0 && cmv_nwaits > 1) CANARY("resource acquire: success after two waits reachable");
}
#endif

#ifdef H_RELEASE
void h_release(void)
{
    setup(1);                                  /* documented precondition: the caller holds R */
    const unsigned p_other = cmv_count(P, OTHER);
    cmb_resource_release(R);
    OBT("C05-O2", R->holder == NULL, "release leaves the resource free");
    OBT("C05-O3", CMV_IRES && cmv_count(P, OTHER) == p_other, "release removes exactly the caller's record of this resource");
    OBT("C08-O1", cmv_nsig[0] >= 1 && CMV_ISIG(0), "release signals the guard");
    OBT("C14-O1", CMV_IREC, "release records the new state");
    CANARY("resource release: end reachable");
}
#endif

#ifdef H_RELEASE_LOST
/* the caller lost R to a preemptor (its record is gone, somebody else is the holder) and the PREEMPTED notice was
 * overtaken by another signal, so it still believes it holds R and releases it (replay/c05_preempt_interrupt_demo.c) */
void h_release_lost(void)
{
    setup(nondet_bool() ? 2 : 3);              /* the holder is another process */
    const unsigned p_other = cmv_count(P, OTHER);
    struct cmb_process *const h0 = R->holder;
    cmb_resource_release(R);
    OBT("C05-O1", R->holder == h0 && CMV_IRES, "a release by a process that has lost the resource leaves the present holder in place: still at most one holder");
    OBT("C05-O3", cmv_count(P, OTHER) == p_other, "such a release touches no other record of the caller");
    OBT("C14-O1", CMV_IREC, "the recorded state still equals the state");
    CANARY("resource release by a former holder: end reachable");
}
#endif

#ifdef H_DROP
void h_drop(void)
{
    /* a holder (Q) ends or is stopped: cmi_process_drop_resources pops Q's records and calls drop */
    setup(2);
    const unsigned p_r = cmv_count(P, R);
    cmi_process_drop_resources(Q);
    OBT("C05-O3", Q->resources.next == NULL, "a dead process holds nothing");
    OBT("C05-O3", R->holder == NULL && cmv_count(P, R) == p_r, "the dead holder's resource is free again, other processes' records untouched");
    OBT("C08-O1", cmv_nsig[0] >= 1 && CMV_ISIG(0), "drop signals the guard");
    OBT("C14-O1", CMV_IREC, "drop records the new state");
    CANARY("resource drop: end reachable");
}
#endif

#ifdef H_PREEMPT
/* the polite path of preempt is a plain call of cmb_resource_acquire: replaced here
 * (goto-instrument --replace-calls) by its contract as established in C05.O2.acquire */
static unsigned cmv_nacq;
int64_t cmv_acquire_contract(struct cmb_resource *rp)
{
    __CPROVER_assert(rp == R && R->holder != P, "C05-O2: polite path delegates to acquire on the same resource, caller not holding it");
    cmv_nacq++;
    const int64_t sig = nondet_i64();
    /* environment and acquire together: holder in {NULL, Q, Z} or, on SUCCESS, P with a record */
    if (sig == CMB_PROCESS_SUCCESS) {
        if (R->holder == Q) { cmi_process_remove_holdable(Q, &R->core); }
        R->holder = P;
        P->resources.next = &mknode(&R->core, P->resources.next)->listhead;
    }
    if (R->is_recording) cmv_rec_x = (R->holder != NULL ? 1.0 : 0.0);
    return sig;
}
void h_preempt(void)
{
    int hc = nondet_int(); ASSUME(hc == 0 || hc == 2);      /* free, or held by Q (the potential victim) */
    setup(hc);
    /* the caller has armed a timer: it must survive preempting somebody else (C04) */
    cmv_nacq = 0;
    const _Bool had_victim = (R->holder == Q);
    const int64_t myprio = P->priority, vprio = Q->priority;
    const unsigned q_other = cmv_count(Q, OTHER);
    const int64_t sig = cmb_resource_preempt(R);
    if (!had_victim) {
        OBT("C05-O2", sig == CMB_PROCESS_SUCCESS && R->holder == P && cmv_nsched == 0, "preempt of a free resource grabs it, nobody is notified");
    } else if (myprio >= vprio) {
        OBT("C05-O2", sig == CMB_PROCESS_SUCCESS && R->holder == P, "preempt evicts a holder of lower or equal priority");
        OBT("C05-O3", cmv_count(Q, R) == 0u && cmv_count(Q, OTHER) == q_other, "the victim's record of this resource is removed, its other records stay");
        OBT("C05-O2", cmv_nsched == 1 && cmv_sched_action == wakeup_event_preempt && cmv_sched_subject == Q
                      && cmv_sched_object == (void *)CMB_PROCESS_PREEMPTED && cmv_sched_time == cmv_clock && cmv_sched_prio == vprio,
            "the victim gets exactly one PREEMPTED notification at the current time with its own priority");
        OBT("C04-O4", cmv_npatcancel == 0 || cmv_patcancel_subject == Q, "preempting cancels pending wake-ups of the VICTIM only, never the caller's own timers");
    } else {
        OBT("C05-O2", cmv_nacq == 1 && cmv_nsched == 0 && cmv_npatcancel == 0, "a holder of strictly higher priority is not evicted: the caller queues politely (acquire), nobody is notified");
    }
    OBT("C05-O3", CMV_IRES, "on return: holder == X iff X's own record lists the resource exactly once");
    OBT("C14-O1", CMV_IREC, "on return the last recorded sample equals the in-use state");
    CANARY("resource preempt: end reachable");
}
#endif

#ifdef H_QUERIES
void h_queries(void)
{
    int hc = nondet_int(); ASSUME(hc >= 0 && hc <= 3);
    setup(hc);
    OBT("C05-O4", cmb_resource_in_use(R) == (R->holder != NULL ? 1u : 0u), "in_use describes the holder");
    OBT("C05-O4", cmb_resource_available(R) == (R->holder == NULL ? 1u : 0u), "available describes the holder");
    OBT("C05-O4", cmb_resource_held_by_process(R, P) == (R->holder == P ? 1u : 0u) && cmb_resource_held_by_process(R, Q) == (R->holder == Q ? 1u : 0u), "held_by_process describes the holder");
    OBT("C05-O4", is_available(&R->core.base, P, NULL) == (R->holder == NULL), "the demand function of the guard is 'resource free'");
    if (nondet_bool()) {
        cmb_resource_start_recording(R);
        OBT("C14-O2", R->is_recording && cmv_rec_n == 1 && CMV_IREC && cmv_rec_t == cmv_clock, "start_recording records the current state");
    } else {
        const _Bool was = R->is_recording;
        cmb_resource_stop_recording(R);
        OBT("C14-O2", !R->is_recording && (!was || (cmv_rec_n == 1 && cmv_rec_x == (R->holder != NULL ? 1.0 : 0.0))), "stop_recording records a final sample then switches off");
    }
    CANARY("resource queries: end reachable");
}
#endif

