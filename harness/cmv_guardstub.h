/*
 * cmv_guardstub.h - contract stubs of the layer below a guarded object (buffer, object queue,
 * priority queue, resource, pool): the resource guard, the time series and the clock.
 *
 * This is the "wait stub" flavour of DESIGN.md 3.3: `cmb_resourceguard_wait` is replaced by its
 * contract - it is a suspension point, so
 *     (1) the guarantee is checked: CMV_AT_YIELD() (object invariant, I-SIG, I-REC),
 *     (2) the environment acts: the clock may advance, CMV_ENV_HAVOC() changes the object's
 *         state arbitrarily within the object invariant, the "grant pending" ghosts are
 *         re-drawn under I-SIG,
 *     (3) an arbitrary signal is returned; if it is SUCCESS the caller's own grant has been
 *         consumed, so nothing is known any more about a pending grant of that guard.
 * `cmb_resourceguard_signal(g)` is replaced by: evaluate the harness-supplied demand of the
 * front waiter of g (CMV_DEMAND(gi)); if true, a grant from g is now pending (ghost).
 *
 * Ghost state (harness side only, no hook in the repository):
 *   cmv_grant[gi]   a wake-up issued by guard gi is pending for somebody else
 *   cmv_nsig[gi]    number of signals sent to guard gi during this call
 *   cmv_clock       simulation clock
 *   cmv_rec_n/x/t   number of samples recorded during the call, last sample
 *
 * The including harness must define, before including this file:
 *   CMV_NGUARDS, CMV_GUARD_INDEX(ptr) -> 0..CMV_NGUARDS-1,
 *   CMV_DEMAND(gi)  -> bool : would the front waiter of guard gi be satisfied now
 *   CMV_ENV_HAVOC() : environment step on the object
 *   CMV_AT_YIELD()  : obligations at the suspension point
 */
#ifndef CMV_GUARDSTUB_H
#define CMV_GUARDSTUB_H

static _Bool cmv_grant[CMV_NGUARDS];
static unsigned cmv_nsig[CMV_NGUARDS];
static double cmv_clock;
static unsigned cmv_rec_n;
static double cmv_rec_x, cmv_rec_t;
static unsigned cmv_nwaits;
static int cmv_last_wait_guard = -1;
static int64_t cmv_last_sig;

double cmb_time(void) { return cmv_clock; }

/* statics are not zero-initialised under goto-instrument --dfcc: reset explicitly */
static void cmv_stub_reset(void)
{
    cmv_nsig[0] = 0;
#if CMV_NGUARDS > 1
    cmv_nsig[1] = 0;
#endif
    cmv_rec_n = 0; cmv_nwaits = 0; cmv_last_wait_guard = -1; cmv_last_sig = 0;
}

/* I-SIG for guard gi: if the front waiter's demand is true, a grant is pending */
#define CMV_ISIG(gi) (!CMV_DEMAND(gi) || cmv_grant[gi])

bool cmb_resourceguard_signal(struct cmb_resourceguard *rgp)
{
    __CPROVER_assert(rgp != NULL, "guard stub: signal on NULL guard");
    const int gi = CMV_GUARD_INDEX(rgp);
    if (cmv_nsig[gi] < 2u) cmv_nsig[gi]++;
    if (CMV_DEMAND(gi)) {
        cmv_grant[gi] = 1;
        return true;
    }
    return false;
}

uint64_t cmb_timeseries_add(struct cmb_timeseries *ts, double x, double t)
{
    __CPROVER_assert(ts != NULL, "timeseries stub: NULL");
    __CPROVER_assert(t == cmv_clock, "C14-O1: a sample is stamped with the current clock (hence sample times are nondecreasing)");
    if (cmv_rec_n < 2u) cmv_rec_n++;
    cmv_rec_x = x;
    cmv_rec_t = t;
    return (uint64_t)cmv_rec_n;
}

int64_t cmb_resourceguard_wait(struct cmb_resourceguard *rgp,
                               cmb_resourceguard_demand_func *demand,
                               const void *ctx)
{
    __CPROVER_assert(rgp != NULL && demand != NULL, "guard stub: wait arguments non-NULL");
    const int gi = CMV_GUARD_INDEX(rgp);
    cmv_last_wait_guard = gi;
    /* (1) guarantee at the suspension point */
    CMV_AT_YIELD();
#ifdef CMV_MAX_WAITS
    /* bounded-unwind groups: at most CMV_MAX_WAITS suspensions per call are followed further */
    if (cmv_nwaits >= CMV_MAX_WAITS) __CPROVER_assume(0);
#endif
    if (cmv_nwaits < 2u) cmv_nwaits++;      /* saturating: 0, 1, 2 = "two or more" */
    /* (2) environment */
    double adv = nondet_double();
    ASSUME(adv >= 0.0 && adv <= 1e30);
    double nc = cmv_clock + adv;
    ASSUME(nc >= cmv_clock);
    cmv_clock = nc;
    CMV_ENV_HAVOC();
    int64_t sig = nondet_i64();
    /* I-SIG holds for every guard when control comes back, except that a SUCCESS return
     * means the pending grant of the guard waited on was the caller's own.
     * (written without a loop: DFCC wants a contract on every loop below a loop contract) */
#define CMV_REDRAW(i) do { cmv_grant[i] = nondet_bool(); if (!((i) == gi && sig == 0)) ASSUME(CMV_ISIG(i)); } while (0)
    CMV_REDRAW(0);
#if CMV_NGUARDS > 1
    CMV_REDRAW(1);
#endif
#if CMV_NGUARDS > 2
#error "extend CMV_REDRAW"
#endif
    cmv_last_sig = sig;
    return sig;
}

#endif
