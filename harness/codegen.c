/* C16.O3 / C10: every array index of the build-time table generators codegen/calc_exponential.c and
 * codegen/calc_normal.c (calculate_ziggurat) is in bounds for EVERY answer of the numerical helpers.
 * The real generator file is included (loop contract inserted mechanically into the scratch copy);
 * cmi_bisection, layer_error's libm calls etc. are contract stubs that may return anything, so the
 * index argument does not depend on floating-point reasoning.  NDEBUG: the generator's own assert() on
 * numerical values is not an index fact and is compiled out. */
#include <stdint.h>
#include <stdbool.h>
double nondet_double(void); int nondet_int(void);
#define CMV_LOOP_ZIG_EXP \
    __CPROVER_assigns(i, last, xlcand, xrcand, yprev, acum, i_max, x_tail, __CPROVER_object_whole(xarr), __CPROVER_object_whole(yarr), \
                      __CPROVER_object_whole(area), __CPROVER_object_whole(concavity)) \
    __CPROVER_loop_invariant(0 <= i && i <= ARRSIZE && last >= 0 && (last < i || last == 0)) \
    __CPROVER_decreases(ARRSIZE - i)
#define CMV_LOOP_ZIG_NOR \
    __CPROVER_assigns(i, last, xlcand, xrcand, acum, i_max, i_inflection, x_tail, __CPROVER_object_whole(xarr), __CPROVER_object_whole(yarr), \
                      __CPROVER_object_whole(area), __CPROVER_object_whole(concavity), __CPROVER_object_whole(convexity)) \
    __CPROVER_loop_invariant(0 <= i && i <= ARRSIZE && last >= 0 && (last < i || last == 0)) \
    __CPROVER_decreases(ARRSIZE - i)
#define main codegen_main
#ifdef H_CODEGEN_EXP
#include "codegen/calc_exponential.c"
#else
#include "codegen/calc_normal.c"
#endif
#undef main
int cmi_bisection(double x_left, double x_right, double (*f)(double x, void *vp), void *vp, double *x_root)
{ (void)x_left; (void)x_right; (void)f; (void)vp; *x_root = nondet_double(); return nondet_int(); }
double exp(double x) { (void)x; return nondet_double(); }
double log(double x) { (void)x; return nondet_double(); }
double sqrt(double x) { (void)x; return nondet_double(); }
double erf(double x) { (void)x; return nondet_double(); }
void h_codegen(void)
{
    calculate_ziggurat();
    __CPROVER_assert(0, "CANARY table generator: end of calculate_ziggurat reachable");
}
