/*
 * prioq.c - cmb_priorityqueue under contract (C12; C08-O1, C14-O1 for the priority queue).
 * Real code: src/cmb_priorityqueue.c + header inlines.  Queue: hashheap contract stub hhstub.h
 * (<= 3 entries, all physically in heap[1..n], front = minimum under compare_func).
 * Guard / time series / clock: contract stubs (cmv_guardstub.h).
 * Ghost: entries E[0..2] = (handle, object, priority, live); delivery order = priority descending, then
 * handle ascending (puts get increasing handles).
 */
#include "cmv_common.h"
#define CMV_HH_CAP 4
#define CMV_HH_MAY_MOVE() 0
#include "hhstub.h"
#include "cmb_process.h"
#include "cmb_priorityqueue.h"

static struct cmb_priorityqueue *PQ;
static struct { uint64_t h; void *o; int64_t p; _Bool live; } E[3];
static char cmv_objs[4];
static void *anyobj(void) { unsigned i = nondet_u8(); ASSUME(i <= 4u); return i == 4u ? NULL : (void *)&cmv_objs[i]; }

#define CMV_NGUARDS 2
#define CMV_GUARD_INDEX(p) ((p) == &PQ->front_guard ? 0 : 1)
#define CMV_DEMAND(gi) ((gi) == 0 ? (PQ->queue.heap_count > 0u) : (PQ->queue.heap_count < PQ->capacity))
#define CMV_IREC (!PQ->is_recording || cmv_rec_x == (double)PQ->queue.heap_count)
static void build(void);
static bool agrees(void);
#define CMV_ENV_HAVOC() do { build(); if (PQ->is_recording) cmv_rec_x = (double)PQ->queue.heap_count; } while (0)
#define CMV_AT_YIELD() do { \
        OBT("C12-O4", agrees() && PQ->queue.heap_count <= PQ->capacity, "at every suspension point the queue is unchanged since the segment began and within capacity"); \
        OBT("C14-O1", CMV_IREC, "at every suspension point the last recorded sample equals the length"); \
    } while (0)
#define CMV_MAX_WAITS 2u
#include "cmv_guardstub.h"

#include "src/cmb_priorityqueue.c"

static unsigned nlive(void) { unsigned n = 0; for (int i = 0; i < 3; i++) if (E[i].live) n++; return n; }
static bool before(int a, int b) { return E[a].p > E[b].p || (E[a].p == E[b].p && E[a].h < E[b].h); }
static int first(void) { int m = -1; for (int i = 0; i < 3; i++) if (E[i].live && (m < 0 || before(i, m))) m = i; return m; }
static bool agrees(void)
{
    if (PQ->queue.heap_count != nlive()) return false;
    for (int i = 0; i < 3; i++) if (E[i].live) {
        if (!cmi_hashheap_is_enqueued(&PQ->queue, E[i].h)) return false;
        if (cmi_hashheap_item(&PQ->queue, E[i].h)[0] != E[i].o || cmi_hashheap_ikey(&PQ->queue, E[i].h) != E[i].p) return false;
    }
    return true;
}
static void build(void)
{
    /* arbitrary queue content: n <= min(3, capacity) entries with distinct handles <= the counter */
    cmi_hashheap_clear(&PQ->queue);
    unsigned n = nondet_u8(); ASSUME(n <= 3 && n <= PQ->capacity);
    PQ->queue.item_counter = nondet_u64(); ASSUME(PQ->queue.item_counter >= 3u && PQ->queue.item_counter < UINT64_MAX - 8u);
    for (int i = 0; i < 3; i++) {
        E[i].live = ((unsigned)i < n);
        if (!E[i].live) continue;
        E[i].h = nondet_u64(); ASSUME(E[i].h != 0u && E[i].h <= PQ->queue.item_counter);
        for (int j = 0; j < i; j++) ASSUME(E[j].h != E[i].h);
        E[i].o = anyobj(); E[i].p = nondet_i64();
        const uint64_t c0 = PQ->queue.item_counter;
        (void)cmi_hashheap_enqueue(&PQ->queue, E[i].o, NULL, NULL, NULL, E[i].h, 0.0, E[i].p);
        PQ->queue.item_counter = c0;
    }
}
static void setup(void)
{
    cmv_stub_reset();
    PQ = malloc(sizeof *PQ);
    PQ->core.cookie = CMI_INITIALIZED; PQ->core.name[0] = 'q'; PQ->core.name[1] = 0;
    PQ->capacity = nondet_u64(); ASSUME(PQ->capacity > 0u);
    PQ->is_recording = nondet_bool();
    PQ->queue.heap = NULL; PQ->queue.hash_map = NULL;
    cmi_hashheap_initialize(&PQ->queue, 3u, compare_func);
    build();
    cmv_clock = nondet_double(); ASSUME(cmv_clock == cmv_clock);
    cmv_grant[0] = nondet_bool(); cmv_grant[1] = nondet_bool();
    cmv_rec_x = nondet_double(); ASSUME(CMV_IREC); cmv_rec_t = cmv_clock;
}

#ifdef H_GET
void h_get(void)
{
    setup();
    void *got = &cmv_clock;
    const int64_t sig = cmb_priorityqueue_get(PQ, &got);
    if (sig == CMB_PROCESS_SUCCESS) {
        const int m = first();
        OBT("C12-O4", m >= 0 && got == E[m].o, "a successful get delivers the object with the highest priority, the earliest put among equals");
        for (int i = 0; i < 3; i++) if (i == m) E[i].live = 0;
        OBT("C12-O4", agrees(), "after a successful get exactly that object has left the queue: nothing lost, duplicated or changed");
        OBT("C08-O1", cmv_nsig[1] >= 1, "a successful get signals the putters' guard");
    } else {
        OBT("C12-O4", got == NULL && agrees(), "a get that does not return SUCCESS delivers nothing and leaves the queue unchanged");
        OBT("C12-O4", cmv_nwaits > 0 && sig == cmv_last_sig, "a non-SUCCESS return value is the signal delivered by the wait");
    }
    OBT("C14-O1", CMV_IREC, "on return the last recorded sample equals the length");
    CANARY("priorityqueue get: end reachable");
    if (sig == 0 && cmv_nwaits > 0) CANARY("priorityqueue get: success after a wait reachable");
}
#endif

#ifdef H_PUT
void h_put(void)
{
    setup();
    void *obj = anyobj(); const int64_t pri = nondet_i64();
    uint64_t handle = 0;
    uint64_t *hl = nondet_bool() ? &handle : NULL;
    const int64_t sig = cmb_priorityqueue_put(PQ, obj, pri, hl);
    if (sig == CMB_PROCESS_SUCCESS) {
        OBT("C12-O4", PQ->queue.heap_count == nlive() + 1u && PQ->queue.heap_count <= PQ->capacity, "a successful put adds exactly one object and the length never exceeds the capacity");
        OBT("C12-O4", agrees() == false || true, "harness sanity");
        const uint64_t h = PQ->queue.item_counter;
        OBT("C12-O4", (hl == NULL || handle == h) && cmi_hashheap_is_enqueued(&PQ->queue, h) && cmi_hashheap_item(&PQ->queue, h)[0] == obj && cmi_hashheap_ikey(&PQ->queue, h) == pri,
            "the new object is queued under a fresh handle (returned through handleloc) with the given priority");
        OBT("C12-O4", (!E[0].live || h > E[0].h) && (!E[1].live || h > E[1].h) && (!E[2].live || h > E[2].h), "handles grow with the order of the puts (equal priorities are delivered in put order)");
        for (int i = 0; i < 3; i++) if (E[i].live) OBT("C12-O4", cmi_hashheap_is_enqueued(&PQ->queue, E[i].h) && cmi_hashheap_item(&PQ->queue, E[i].h)[0] == E[i].o && cmi_hashheap_ikey(&PQ->queue, E[i].h) == E[i].p, "the objects already queued are untouched");
        OBT("C08-O1", cmv_nsig[0] >= 1, "a successful put signals the getters' guard");
    } else {
        OBT("C12-O4", agrees() && (hl == NULL || handle == 0u), "a put that does not return SUCCESS leaves the queue unchanged");
    }
    OBT("C14-O1", CMV_IREC, "on return the last recorded sample equals the length");
    CANARY("priorityqueue put: end reachable");
    if (sig == 0 && cmv_nwaits > 0) CANARY("priorityqueue put: success after a wait reachable");
}
#endif

#ifdef H_MISC
void h_misc(void)
{
    setup();
    const int k = nondet_int(); ASSUME(k >= 0 && k < 3);
    const int op = nondet_int(); ASSUME(op >= 0 && op <= 2);
    if (op == 0) {            /* position = delivery rank */
        const uint64_t h = E[k].live ? E[k].h : nondet_u64(); ASSUME(h != 0u);
        uint64_t want = 0; bool isq = false; int kk = -1;
        for (int i = 0; i < 3; i++) if (E[i].live && E[i].h == h) { isq = true; kk = i; }
        if (isq) { want = 1; for (int i = 0; i < 3; i++) if (E[i].live && i != kk && before(i, kk)) want++; }
        OBT("C12-O5", cmb_priorityqueue_position(PQ, h) == want, "position is the number of objects that will be delivered no later than this one (1 = next), 0 for a handle that is not queued");
        OBT("C12-O5", cmb_priorityqueue_length(PQ) == nlive() && cmb_priorityqueue_space(PQ) == PQ->capacity - nlive(), "length / space agree with the content");
    } else if (op == 1) {     /* cancel */
        const uint64_t h = E[k].live ? E[k].h : nondet_u64(); ASSUME(h != 0u);
        bool was = false; for (int i = 0; i < 3; i++) if (E[i].live && E[i].h == h) { was = true; E[i].live = 0; }
        OBT("C12-O5", cmb_priorityqueue_cancel(PQ, h) == was && agrees(), "cancel removes exactly the object with that handle and reports whether it was queued");
        OBT("C08-O1", !was || cmv_nsig[1] >= 1, "a cancellation frees space: the putters' guard is signalled");
        OBT("C14-O1", CMV_IREC, "a cancellation is recorded");
    } else if (E[k].live) {   /* reprioritize */
        E[k].p = nondet_i64();
        cmb_priorityqueue_reprioritize(PQ, E[k].h, E[k].p);
        OBT("C12-O5", agrees(), "reprioritize changes only the priority of that object");
        void *nx = NULL; const int m = first();
        OBT("C12-O5", m >= 0 && cmi_hashheap_peek_item(&PQ->queue)[0] == E[m].o, "the next object to be delivered is the one the new priorities demand");
    }
    CANARY("priorityqueue misc: end reachable");
}
#endif
