/*
 * replay_c16.c - native replay of C16 counterexamples on the REAL sampler code.
 *
 *   gcc -O0 -c <repo>/src/cmb_random.c -o r.o ; objcopy -W cmb_random_sfc64 r.o     (real code, generator symbol weakened)
 *   gcc [-DNDEBUG] replay_c16.c r.o -lm -o replay_c16[_ndebug]
 *   replay_c16 <mode> <parameters...> -- <raw64> <raw64> ...
 *
 * THE GENERATOR IS STUBBED: this file supplies its own cmb_random_sfc64(), which returns the raw 64-bit
 * values given after "--" (the counterexample's raw stream), one per call.  Every sampler that runs is
 * the real one (header inlines of cmb_random.h compiled here, functions of cmb_random.c linked in).
 * When the given values are exhausted the stub continues with a splitmix64 stream (seed 1) and says so;
 * after RAW_CAP calls it gives up ("no return").
 *
 * Built twice: without NDEBUG the library's own debug assertions are active (a violated one is
 * reported through this file's cmi_assert_failed); with -DNDEBUG the out-of-support value reaches the caller.
 * Exit status: 1 = violation reproduced, 0 = not reproduced, 2 = usage.
 */
#include <stdio.h>
#include <stdlib.h>
#include <string.h>
#include <inttypes.h>
#include <math.h>
#include <float.h>
#include <limits.h>
#include <setjmp.h>

#include "cmb_random.h"

#define RAW_CAP 2000000ull

static uint64_t raw_given[64];
static unsigned raw_n, raw_used;
static unsigned long long raw_calls;
static uint64_t sm_state = 1;
static jmp_buf env;
static int in_call;

uint64_t cmb_random_sfc64(void)
{
    raw_calls++;
    if (raw_used < raw_n) {
        const uint64_t v = raw_given[raw_used++];
        printf("  [stubbed generator] raw #%llu = 0x%016" PRIx64 "  (u = %.17g)\n", raw_calls, v, ldexp((double)(v >> 11), -53));
        return v;
    }
    if (raw_calls == (unsigned long long)raw_n + 1u) {
        printf("  [stubbed generator] given raw values exhausted, continuing with splitmix64(seed 1)\n");
    }
    if (raw_calls > RAW_CAP) {
        printf("  [stubbed generator] %llu raw values consumed and the sampler has not returned\n", raw_calls - 1u);
        if (in_call) longjmp(env, 2);
        exit(3);
    }
    uint64_t z = (sm_state += UINT64_C(0x9e3779b97f4a7c15));
    z = (z ^ (z >> 30)) * UINT64_C(0xbf58476d1ce4e5b9);
    z = (z ^ (z >> 27)) * UINT64_C(0x94d049bb133111eb);
    return z ^ (z >> 31);
}

#ifndef NASSERT
void cmi_assert_failed(const char *sourcefile, const char *func, int line, const char *condition)
{
    printf("  LIBRARY ASSERTION FAILED: %s:%d %s(): %s\n", sourcefile, line, func, condition);
    if (in_call) longjmp(env, 1);
    exit(1);
}
#endif

static int verdict(int bad, const char *what)
{
    if (bad) printf("REPRODUCED: %s\n", what); else printf("not reproduced: %s does not occur with these values\n", what);
    return bad ? 1 : 0;
}

static double argd(const char *s)
{
    if (!strcmp(s, "DBL_MAX")) return DBL_MAX;
    if (!strcmp(s, "-DBL_MAX")) return -DBL_MAX;
    return strtod(s, NULL);           /* accepts decimal and C99 hex-float */
}

int main(int argc, char **argv)
{
    if (argc < 2) { fprintf(stderr, "usage: replay_c16 <mode> <params...> -- <raw>...\n"); return 2; }
    const char *mode = argv[1];
    char *par[32]; int np = 0, i = 2;
    for (; i < argc && strcmp(argv[i], "--") != 0 && np < 32; i++) par[np++] = argv[i];
    for (i++; i < argc && raw_n < 64; i++) raw_given[raw_n++] = strtoull(argv[i], NULL, 0);
#ifdef NDEBUG
    printf("replay_c16 (NDEBUG build: debug assertions compiled out), generator STUBBED with %u given raw value(s)\n", raw_n);
#else
    printf("replay_c16 (debug assertions active), generator STUBBED with %u given raw value(s)\n", raw_n);
#endif
    volatile int rc = 0;
    in_call = 1;
    const int j = setjmp(env);
    if (j == 1) return verdict(1, "the library's own assertion fails on the real code");
    if (j == 2) return verdict(1, "the sampler does not return (rejection loop can never accept)");

    if (!strcmp(mode, "unit")) {
        const double u = cmb_random();
        printf("cmb_random() = %.17g\n", u);
        rc = verdict(!(u >= 0.0 && u < 1.0), "cmb_random() outside [0,1)");
    } else if (!strcmp(mode, "bernoulli") && np >= 1) {
        const double p = argd(par[0]);
        const unsigned r = cmb_random_bernoulli(p);
        printf("cmb_random_bernoulli(%.17g) = %u\n", p, r);
        rc = verdict(r > 1u || (p == 0.0 && r != 0u) || (p == 1.0 && r != 1u), "bernoulli(p) outside the support of Bernoulli(p)");
    } else if (!strcmp(mode, "flip")) {
        const int r = cmb_random_flip();
        printf("cmb_random_flip() = %d\n", r);
        rc = verdict(r != 0 && r != 1, "flip() outside {0,1}");
    } else if (!strcmp(mode, "dice") && np >= 2) {
        const long a = strtol(par[0], NULL, 0), b = strtol(par[1], NULL, 0);
        const long r = cmb_random_dice(a, b);
        printf("cmb_random_dice(%ld, %ld) = %ld\n", a, b, r);
        rc = verdict(r < a || r > b, "dice(a,b) outside [a,b]");
    } else if (!strcmp(mode, "uniform") && np >= 2) {
        const double lo = argd(par[0]), hi = argd(par[1]);
        const double r = cmb_random_uniform(lo, hi);
        printf("cmb_random_uniform(%.17g, %.17g) = %.17g\n", lo, hi, r);
        rc = verdict(!(r >= lo && r <= hi), "uniform(min,max) outside [min,max] or NaN");
    } else if (!strcmp(mode, "triangular") && np >= 3) {
        const double lo = argd(par[0]), md = argd(par[1]), hi = argd(par[2]);
        const double r = cmb_random_triangular(lo, md, hi);
        printf("cmb_random_triangular(%.17g, %.17g, %.17g) = %.17g\n", lo, md, hi, r);
        rc = verdict(!(r >= lo && r <= hi), "triangular outside [min,max] or NaN");
    } else if (!strcmp(mode, "pareto") && np >= 2) {
        const double sh = argd(par[0]), mo = argd(par[1]);
        const double r = cmb_random_pareto(sh, mo);
        printf("cmb_random_pareto(%.17g, %.17g) = %.17g\n", sh, mo, r);
        /* for shape < 1/16 or mode > 2^100 the variate itself can exceed the double range: +inf is then not a defect */
        rc = verdict(!(r >= mo) || (isinf(r) && sh >= 0.0625 && mo <= 0x1p100), "pareto not a finite value >= mode");
    } else if (!strcmp(mode, "logistic") && np >= 2) {
        const double m = argd(par[0]), s = argd(par[1]);
        const double r = cmb_random_logistic(m, s);
        printf("cmb_random_logistic(%.17g, %.17g) = %.17g\n", m, s, r);
        rc = verdict(isnan(r) || isinf(r), "logistic not finite");
    } else if (!strcmp(mode, "loaded_dice") && np >= 2) {
        const unsigned n = (unsigned)strtoul(par[0], NULL, 0);
        double *pa = malloc(n * sizeof *pa); double sum = 0.0;
        for (unsigned k = 0; k < n; k++) { pa[k] = (int)(k + 1) < np ? argd(par[k + 1]) : 0.0; sum += pa[k]; }
        printf("n = %u, pa = {", n); for (unsigned k = 0; k < n; k++) printf("%s%.17g", k ? ", " : "", pa[k]);
        printf("}, sum = %.17g (|sum-1| = %.3g, tolerance 1e-3)\n", sum, fabs(sum - 1.0));
        const unsigned r = cmb_random_loaded_dice(n, pa);
        printf("cmb_random_loaded_dice(n, pa) = %u\n", r);
        rc = verdict(r >= n, "loaded_dice(n,pa) returns an index >= n");
    } else if (!strcmp(mode, "hyperexp") && np >= 3) {
        const unsigned n = (unsigned)strtoul(par[0], NULL, 0);
        double *pa = malloc(n * sizeof *pa), *ma = malloc((n + 1) * sizeof *ma);
        for (unsigned k = 0; k < n; k++) { pa[k] = argd(par[1 + k]); ma[k] = (int)(1 + n + k) < np ? argd(par[1 + n + k]) : 1.0; }
        ma[n] = -777.0;         /* sentinel one past the end of the n means: only an out-of-range index reads it */
        printf("n = %u, pa = {", n); for (unsigned k = 0; k < n; k++) printf("%s%.17g", k ? ", " : "", pa[k]);
        printf("}, ma = {"); for (unsigned k = 0; k < n; k++) printf("%s%.17g", k ? ", " : "", ma[k]); printf("} (+ sentinel ma[n] = -777)\n");
        const double r = cmb_random_hyperexponential(n, ma, pa);
        printf("cmb_random_hyperexponential(n, ma, pa) = %.17g\n", r);
        rc = verdict(!(r >= 0.0), "hyperexponential reads ma[n] (index >= n): negative or NaN result");
    } else if (!strcmp(mode, "alias") && np >= 2) {
        const unsigned n = (unsigned)strtoul(par[0], NULL, 0);
        double *pa = malloc(n * sizeof *pa);
        for (unsigned k = 0; k < n; k++) pa[k] = (int)(k + 1) < np ? argd(par[k + 1]) : 0.0;
        struct cmb_random_alias *ap = cmb_random_alias_create(n, pa);
        int bad = ap->n != n;
        for (unsigned k = 0; k < n; k++) { printf("  uprob[%u] = 0x%016" PRIx64 " alias[%u] = %u\n", k, ap->uprob[k], k, ap->alias[k]); bad |= ap->alias[k] >= n; }
        const unsigned r = cmb_random_alias_sample(ap);
        printf("cmb_random_alias_sample(table) = %u\n", r);
        rc = verdict(bad || r >= n, "alias table entry or sample >= n");
    } else if (!strcmp(mode, "binomial") && np >= 2) {
        const unsigned n = (unsigned)strtoul(par[0], NULL, 0); const double p = argd(par[1]);
        const unsigned r = cmb_random_binomial(n, p);
        printf("cmb_random_binomial(%u, %.17g) = %u\n", n, p, r);
        rc = verdict(r > n, "binomial(n,p) > n");
    } else if (!strcmp(mode, "geometric") && np >= 1) {
        const double p = argd(par[0]);
        const double denom = -log(1.0 - p);
        printf("p = %.17g, denom = -log(1-p) = %.17g\n", p, denom);
        const unsigned r = cmb_random_geometric(p);
        printf("cmb_random_geometric(p) = %u\n", r);
        /* what the real code converted: recompute the quotient with the same raw value */
        if (raw_n >= 1) {
            raw_used = 0; in_call = 0;
            const double e = cmb_random_std_exponential();
            const double q = ceil(e / denom);
            printf("std_exponential = %.17g, ceil(exp/denom) = %.17g, UINT_MAX = %u\n", e, q, UINT_MAX);
            if (!(q >= 0.0 && q <= (double)UINT_MAX)) {
                printf("the double -> unsigned conversion is out of range (undefined behaviour, C11 6.3.1.4)\n");
                rc = 1;
            }
        }
        rc = verdict(rc || r < 1u, "geometric(p) < 1 or (unsigned)ceil(..) out of range");
    } else if (!strcmp(mode, "std_gamma") && np >= 1) {
        const double sh = argd(par[0]);
        const double r = cmb_random_std_gamma(sh);
        printf("cmb_random_std_gamma(%.17g) = %.17g   (%llu raw values consumed)\n", sh, r, raw_calls);
        rc = verdict(!(r >= 0.0), "std_gamma(shape) negative or NaN");
    } else if (!strcmp(mode, "std_beta") && np >= 2) {
        const double a = argd(par[0]), b = argd(par[1]);
        const double r = cmb_random_std_beta(a, b);
        printf("cmb_random_std_beta(%.17g, %.17g) = %.17g   (%llu raw values consumed)\n", a, b, r, raw_calls);
        rc = verdict(!(r >= 0.0 && r <= 1.0), "std_beta(a,b) outside [0,1] or NaN");
    } else if (!strcmp(mode, "std_exponential")) {
        const double r = cmb_random_std_exponential();
        printf("cmb_random_std_exponential() = %.17g\n", r);
        rc = verdict(!(r >= 0.0) || isinf(r), "std_exponential negative, NaN or infinite");
    } else if (!strcmp(mode, "std_normal")) {
        const double r = cmb_random_std_normal();
        printf("cmb_random_std_normal() = %.17g\n", r);
        rc = verdict(isnan(r) || isinf(r), "std_normal not finite");
    } else if (!strcmp(mode, "gamma") && np >= 2) {
        const double sh = argd(par[0]), sc = argd(par[1]);
        const double r = cmb_random_gamma(sh, sc);
        printf("cmb_random_gamma(%.17g, %.17g) = %.17g\n", sh, sc, r);
        rc = verdict(!(r >= 0.0), "gamma negative or NaN");
    } else if (!strcmp(mode, "weibull") && np >= 2) {
        const double sh = argd(par[0]), sc = argd(par[1]);
        const double r = cmb_random_weibull(sh, sc);
        printf("cmb_random_weibull(%.17g, %.17g) = %.17g\n", sh, sc, r);
        rc = verdict(!(r >= 0.0), "weibull negative or NaN");
    } else if (!strcmp(mode, "beta") && np >= 4) {
        const double a = argd(par[0]), b = argd(par[1]), lo = argd(par[2]), hi = argd(par[3]);
        const double r = cmb_random_beta(a, b, lo, hi);
        printf("cmb_random_beta(%.17g, %.17g, %.17g, %.17g) = %.17g\n", a, b, lo, hi, r);
        rc = verdict(!(r >= lo && r <= hi), "beta outside [min,max] or NaN");
    } else if (!strcmp(mode, "pert") && np >= 3) {
        const double lo = argd(par[0]), md = argd(par[1]), hi = argd(par[2]);
        const double r = cmb_random_PERT(lo, md, hi);
        printf("cmb_random_PERT(%.17g, %.17g, %.17g) = %.17g\n", lo, md, hi, r);
        rc = verdict(!(r >= lo && r <= hi), "PERT outside [min,max] or NaN");
    } else {
        fprintf(stderr, "unknown mode or too few parameters: %s\n", mode);
        return 2;
    }
    return rc;
}
