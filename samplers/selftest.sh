#!/bin/bash
# selftest.sh [repo]  - teeth of the C16 obligations: every mutant of a SCRATCH COPY of the repository must make a
# NAMED obligation fail (or, for the two "repair" mutants, make the failing obligation pass).  Nothing under the
# repository is touched.  Mutants run in parallel (one run.py --only <group> each).
REPO=${1:-/repo}
HERE=$(cd "$(dirname "$0")" && pwd)
S=$(mktemp -d /tmp/c16_selftest.XXXXXX)
trap 'rm -rf "$S"' EXIT
fail=0

mk() {      # mk <name>: fresh scratch copy
    mkdir -p "$S/$1"; cp -r "$REPO/include" "$REPO/src" "$REPO/codegen" "$S/$1/"
}
mut() {     # mut <name> <file> <sed-expression>: apply and insist that the file changed
    local f="$S/$1/$2"
    cp "$f" "$f.orig"; sed -i "$3" "$f"
    if cmp -s "$f" "$f.orig"; then echo "SELFTEST BROKEN: mutation $1 did not apply to $2"; exit 3; fi
    rm -f "$f.orig"
}
# check <name> <group-id> <want: killed|repaired> <obligation text regex>
check() {
    python3 - "$S/$1.json" "$2" "$3" "$4" "$1" <<'PY'
import json, re, sys
path, gid, want, rx, name = sys.argv[1:6]
try:
    d = json.load(open(path))
except Exception as e:
    print('%-22s BROKEN: no JSON (%s)' % (name, e)); sys.exit(1)
g = [x for x in d['groups'] if x['id'] == gid]
if not g:
    print('%-22s BROKEN: group %s missing' % (name, gid)); sys.exit(1)
g = g[0]
hits = [o for o in g['obligations'] if re.search(rx, o['desc'])]
failing = [o for o in hits if o['status'] == 'FAILURE']
if want == 'killed':
    ok = bool(failing)
    nat = [g['native'].get(o['name'], {}).get('reproduced') for o in failing]
    print('%-22s %-26s %s  %s  [%s] native reproduced: %s (%.0f s)' % (name, gid, 'KILLED' if ok else 'SURVIVED (status %s: %s)' % (g['status'], g['reason'][:120]),
          failing[0]['desc'][:90] if failing else '', failing[0]['name'] if failing else '', nat, g['seconds']))
else:
    ok = bool(hits) and not failing and g['status'] == 'ok'
    print('%-22s %-26s %s  (obligation /%s/ now %s, group %s) (%.0f s)' % (name, gid, 'REPAIRED' if ok else 'NOT REPAIRED', rx, [o['status'] for o in hits], g['status'], g['seconds']))
sys.exit(0 if ok else 1)
PY
    [ $? -eq 0 ] || fail=1
}
run() { python3 "$HERE/run.py" "$S/$1" "$S/$1.out" --only "$2" --jobs 2 > "$S/$1.json" 2> "$S/$1.err" & }

# ---- mutants -----------------------------------------------------------------------------------------------
mk m1_zigmax_up;    mut m1_zigmax_up   codegen/calc_exponential.c 's/cmi_random_exp_zig_max = %d;\\n", i_max)/cmi_random_exp_zig_max = %d;\\n", i_max + 2)/'
mk m1_zigmax_down;  mut m1_zigmax_down codegen/calc_normal.c      's/cmi_random_nor_zig_max = %d;\\n", i_max)/cmi_random_nor_zig_max = %d;\\n", i_max - 2)/'
mk m2_alias_entry;  mut m2_alias_entry src/cmb_random.c           's/alp->alias\[l\] = g;/alp->alias[l] = g + 1;/'
mk m2_alias_index;  mut m2_alias_index include/cmb_random.h       's/floor(ap->n \* cmb_random())/floor((ap->n + 1) * cmb_random())/'
mk m3_bern_ge;      mut m3_bern_ge     include/cmb_random.h       's/(cmb_random() <= p) ? 1 : 0/(cmb_random() >= p) ? 1 : 0/'
mk m3_bern_lt_fix;  mut m3_bern_lt_fix include/cmb_random.h       's/(cmb_random() <= p) ? 1 : 0/(cmb_random() < p) ? 1 : 0/'
mk m4_ld_bound;     mut m4_ld_bound    src/cmb_random.c           's/for (ui = 0; ui < n; ui++) {/for (ui = 0; ui <= n; ui++) {/'
mk m4_ld_clamp_fix; mut m4_ld_clamp_fix src/cmb_random.c          '653s/cmb_assert_debug(ui < n);/if (ui == n) { ui = n - 1u; } cmb_assert_debug(ui < n);/'
mk m5_unit_shift;   mut m5_unit_shift  include/cmb_random.h       's/(cmb_random_sfc64() >> 11), -53)/(cmb_random_sfc64() >> 10), -53)/'
mk m6_flip_65;      mut m6_flip_65     src/cmb_random.c           's/flip_bitpos = 64u;/flip_bitpos = 65u;/'
mk m7_exp_sign;     mut m7_exp_sign    include/cmb_random.h       's/cmi_random_exp_zig_pdf_x\[idx\] \* (double) u_cand_x :/-cmi_random_exp_zig_pdf_x[idx] * (double) u_cand_x :/'
mk m8_convert_x;    mut m8_convert_x   src/cmb_random.c           '193s/(\*(dpx - 1) - \*dpx)/(*dpx - *(dpx - 1))/'
mk m9_binomial;     mut m9_binomial    src/cmb_random.c           's/sctr += cmb_random_bernoulli(p);/sctr += cmb_random_bernoulli(p) + 1u;/'

run m1_zigmax_up    C16.O3.tables_exp
run m1_zigmax_down  C16.O3.tables_nor
run m2_alias_entry  C16.O2.alias_create
run m2_alias_index  C16.O2.alias_sample
run m3_bern_ge      C16.O1.bernoulli
run m3_bern_lt_fix  C16.O1.bernoulli
run m4_ld_bound     C16.O2.loaded_dice
run m4_ld_clamp_fix C16.O2.loaded_dice
run m5_unit_shift   C16.O1.unit_interval
run m6_flip_65      C16.O1.flip
run m7_exp_sign     C16.O3.exp_hot
run m8_convert_x    C16.O4.exp_not_hot
run m9_binomial     C16.O2.binomial
wait

check m1_zigmax_up    C16.O3.tables_exp    killed   'exp: (pdf_x\[i\] > 0 on the hot layers|zig_max \+ 1 is a table index)'
check m1_zigmax_down  C16.O3.tables_nor    killed   'normal: (every alias entry|layers above zig_max\+1)'
check m2_alias_entry  C16.O2.alias_create  killed   'every alias index is < n'
check m2_alias_index  C16.O2.alias_sample  killed   '(r < ap->n|upper bound|alias_sample\(table\) < n)'
check m3_bern_ge      C16.O1.bernoulli     killed   'bernoulli\(1\) is 1'
check m3_bern_lt_fix  C16.O1.bernoulli     repaired 'bernoulli\(0\) is 0'
check m4_ld_bound     C16.O2.loaded_dice   killed   '(upper bound in pa|ui < n)'
check m4_ld_clamp_fix C16.O2.loaded_dice   repaired '(ui < n|loaded_dice\(n,pa\) < n)'
check m5_unit_shift   C16.O1.unit_interval killed   'cmb_random\(\) < 1'
check m6_flip_65      C16.O1.flip          killed   '(shift distance too large|bit-cache position)'
check m7_exp_sign     C16.O3.exp_hot       killed   '(r >= 0.0|result >= 0 and not NaN)'
check m8_convert_x    C16.O4.exp_not_hot   killed   '(is >= 0 and not NaN|harness ldexp)'
check m9_binomial     C16.O2.binomial      killed   '(sctr <= n|binomial\(n,p\) <= n)'

if [ $fail -eq 0 ]; then echo "SELFTEST PASSED: every mutant killed / repaired by a named obligation"; else echo "SELFTEST FAILED"; fi
exit $fail
