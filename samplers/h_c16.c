/*
 * h_c16.c - C16 (support sentence): every sampling function returns values inside the mathematical
 * support of its distribution for every parameter set that satisfies its documented preconditions.
 *
 * The verified text is the working-tree include/cmb_random.h (header inlines) and src/cmb_random.c
 * (#included below), with the ziggurat tables regenerated from codegen/ on every run.
 *
 *   goto-cc -I/verif/harness -I<repo> -I<repo>/include -I<repo>/src -I<gen> -D_POSIX_C_SOURCE=200809L \
 *           -DH_<ENTRY> --function h_<entry> h_c16.c -o a.gb
 *   goto-instrument --replace-calls cmb_random_sfc64:cmv_raw [--replace-calls cmi_random_exp_not_hot:...] a.gb b.gb
 *
 * GENERATOR CONTRACT: every call of cmb_random_sfc64() is redirected to cmv_raw(), which returns an
 * ARBITRARY 64-bit value per call (over-approximates the real stream).  The real body in cmb_random.c
 * is never executed.  Counterexamples are replayed natively (replay_c16.c) with exactly these raw values.
 *
 * cmv_common.h turns every cmb_assert_release/_debug of the library into an obligation followed by
 * an assumption.  Every entry ends in a CANARY that must FAIL (reachability / non-vacuity).
 *
 * TRUSTED libm CONTRACTS (harness bodies below replace CBMC's models; see NOTES.md):
 *   ldexp  exact scaling by a power of two (exponent-field arithmetic; obligation: stays normal)
 *   log    NaN for x<0/NaN, -inf at 0, +0 at 1, +inf at +inf, finite >=0 on (1,inf); on (0,1): -745.2 <= r <= (x-1)/2 < 0
 *          and r >= 4(x-1) for x >= 1/2
 *   exp    NaN for NaN, 0 at -inf, +inf at +inf, 1 at 0, in [0,1] for x<0, in [1,+inf] for x>0
 *   sqrt   NaN for x<0/NaN, x at +-0, +inf at +inf; finite x>0: x <= r <= 1 for x < 1, 1 <= r <= x for x >= 1
 *   pow    (only x>=0 is specified) NaN arguments -> NaN; y==0 -> 1; otherwise any value in [0,+inf];
 *          additionally 0<=x<=1 && y>0 -> in [0,1]; x==0 && y>0 -> 0
 * floor / ceil / fabs: CBMC's exact models.
 */
#include "cmv_common.h"
#include <float.h>
#include "cmb_random.h"

#define T1 "C16-O1"
#define T2 "C16-O2"
#define T3 "C16-O3"
#define T4 "C16-O4"
#define FIN(x) (!isnan(x) && !isinf(x))     /* CBMC has no body for __builtin_isfinite */

/* ------------------------------------------------------------------ generator stub */
unsigned cmv_raw_calls;
uint64_t cmv_last_raw;
uint64_t cmv_raw(void)
{
    uint64_t raw = nondet_u64();
#ifdef C16_HOT_ONLY_EXP      /* listed assumption of the group: exponential ziggurat hot path (idx <= zig_max) only */
    ASSUME((raw & 0xffu) <= cmi_random_exp_zig_max);
#endif
#ifdef C16_HOT_ONLY_NOR      /* listed assumption of the group: normal ziggurat hot path (idx <= zig_max) only */
    ASSUME((raw & 0xffu) <= cmi_random_nor_zig_max);
#endif
    cmv_raw_calls++;
    cmv_last_raw = raw;
    return raw;
}

/* ------------------------------------------------------------------ trusted libm contracts */
double ldexp(double x, int e)
{
    union { double d; uint64_t u; } v;
    v.d = x;
    if (x == 0.0 || isnan(x) || isinf(x)) return x;
    const uint64_t ex = (v.u >> 52) & 0x7ffu;
    __CPROVER_assert(ex != 0u, "harness ldexp model: argument is normal");
    const int64_t ne = (int64_t)ex + (int64_t)e;
    __CPROVER_assert(ne >= 1 && ne <= 2046, "harness ldexp model: result is normal (scaling is exact)");
    __CPROVER_assume(ex != 0u && ne >= 1 && ne <= 2046);
    v.u = (v.u & ~(UINT64_C(0x7ff) << 52)) | ((uint64_t)ne << 52);
    return v.d;
}

#ifndef C16_EXACT_LIBM
double log(double x)
{
    if (isnan(x) || x < 0.0) return NAN;
    if (x == 0.0) return -INFINITY;
    if (x == 1.0) return 0.0;
    if (isinf(x)) return INFINITY;
    double r = nondet_double();
    ASSUME(FIN(r));
    if (x < 1.0) {
        /* log(x) <= x - 1 < 0 and, for x >= 1/2, log(x) >= (x-1)/x >= 2(x-1); stated with a factor 2 of slack
         * each (scaling by 2 is exact), so that any libm with an error of a few ulp satisfies it */
        ASSUME(r <= (x - 1.0) * 0.5 && r >= -745.2);
        if (x >= 0.5) ASSUME(r >= (x - 1.0) * 4.0);
    } else {
        ASSUME(r >= 0.0 && r <= x);      /* log(x) <= x - 1 < x */
    }
    return r;
}

double log1p(double x)
{
    /* used by cmb_random_geometric as log1p(-p), 0 < p < 1 */
    if (isnan(x) || x < -1.0) return NAN;
    if (x == -1.0) return -INFINITY;
    if (x == 0.0) return x;
    if (isinf(x)) return INFINITY;
    double r = nondet_double();
    ASSUME(FIN(r));
    /* log1p(x) <= x, and log1p(x) >= x/(1+x); on (-1,0) the result is strictly negative and at least
     * log(2^-53) > -37 (1+x >= 2^-53 for a double x > -1); stated with a factor 2 of slack */
    if (x < 0.0) ASSUME(r <= x * 0.5 && r >= -745.2); else ASSUME(r >= 0.0 && r <= x * 2.0);
    return r;
}

double exp(double x)
{
    if (isnan(x)) return NAN;
    if (x == 0.0) return 1.0;
    if (isinf(x)) return x > 0.0 ? INFINITY : 0.0;
    double r = nondet_double();
    ASSUME(!isnan(r));
    if (x < 0.0) ASSUME(r >= 0.0 && r <= 1.0); else ASSUME(r >= 1.0);
    return r;
}

double sqrt(double x)
{
    if (isnan(x) || x < 0.0) return NAN;
    if (x == 0.0 || isinf(x)) return x;
    double r = nondet_double();
    ASSUME(FIN(r) && r > 0.0);
    /* sqrt is correctly rounded (IEEE 754) and monotone: x <= sqrt(x) <= 1 on (0,1], 1 <= sqrt(x) <= x on [1,inf) */
    if (x >= 1.0) ASSUME(r >= 1.0 && r <= x); else ASSUME(r >= x && r <= 1.0);
    return r;
}

double pow(double x, double y)
{
    if (isnan(x) || isnan(y)) return NAN;
    if (y == 0.0) return 1.0;
    __CPROVER_assert(x >= 0.0, "harness pow contract: only called with a non-negative base");
    __CPROVER_assume(x >= 0.0);
#ifdef H_PARETO
    __CPROVER_assert(x > 0.0, "C16-O1: the Pareto inversion formula is not evaluated at its pole u = 0");
#endif
    if (x == 0.0 && y > 0.0) return 0.0;
    double r = nondet_double();
    ASSUME(!isnan(r) && r >= 0.0);
    if (x <= 1.0 && y > 0.0) ASSUME(r <= 1.0);
    if (r == 0.0) r = 0.0;               /* a non-negative base never gives -0.0 */
    /* x >= 2^-53, 0 < y <= 16: x^y >= 2^-848; stated with slack (used by the Pareto group) */
    if (x >= 0x1p-53 && y > 0.0 && y <= 16.0) ASSUME(r >= 0x1p-900);
    return r;
}
#endif

/* ------------------------------------------------------------------ the real code */
#include "src/cmb_random.c"

/* Assume-guarantee contracts of the two ziggurat fall-back functions.  Used (through
 * goto-instrument --replace-calls) ONLY in groups that say so; the guarantee side is discharged,
 * bounded-unwind/partial, by C16.O4.exp_not_hot and C16.O4.nor_not_hot on the real bodies. */
double cmv_exp_not_hot_contract(uint64_t u_cand_x)
{
    (void)u_cand_x;
    double r = nondet_double();
    ASSUME(FIN(r) && r >= 0.0);
    return r;
}
double cmv_nor_not_hot_contract(int64_t i_cand_x)
{
    (void)i_cand_x;
    double r = nondet_double();
    ASSUME(FIN(r));
#ifdef C16_NOR_BOUNDED
    /* listed, UNDISCHARGED assumption of the gamma groups: a standard normal variate from the fall-back has
     * magnitude <= 1e100 (the real one is below 40: tail start + an exponential variate / tail start) */
    ASSUME(r >= -1e100 && r <= 1e100);
#endif
    return r;
}

#ifndef C16_N
#define C16_N 3
#endif

/* n in 1..C16_N, pa[i] probabilities, accepted by the library's own sums_to_one() */
static unsigned any_probabilities(double *pa)
{
    const unsigned n = nondet_u32();
    ASSUME(n >= 1u && n <= C16_N);
    for (unsigned i = 0; i < C16_N; i++) {
        pa[i] = nondet_double();
        ASSUME(pa[i] >= 0.0 && pa[i] <= 1.0);
    }
    ASSUME(sums_to_one(n, pa));
    return n;
}

/* ================================================================== O1: loop-free, all raw values */
#ifdef H_UNIT
void h_unit(void)
{
    const double u = cmb_random();
    OBT(T1, !isnan(u), "cmb_random() is not NaN");
    OBT(T1, u >= 0.0, "cmb_random() >= 0");
    OBT(T1, u < 1.0, "cmb_random() < 1 (half-open unit interval; the header says [0, 1])");
    OBT(T1, u <= 1.0 - 0x1p-53, "cmb_random() <= 1 - 2^-53");
    OBT(T1, cmv_raw_calls == 1u, "cmb_random() consumes exactly one raw value");
    CANARY("h_unit end");
}
#endif

#ifdef H_BERNOULLI
void h_bernoulli(void)
{
    const double p = nondet_double();
    ASSUME(p >= 0.0 && p <= 1.0);                      /* documented: 0 <= p <= 1 */
    const unsigned r = cmb_random_bernoulli(p);
    OBT(T1, r == 0u || r == 1u, "bernoulli(p) is 0 or 1");
    OBT(T1, p != 1.0 || r == 1u, "bernoulli(1) is 1 (support of Bernoulli(1) is {1})");
    OBT(T1, p != 0.0 || r == 0u, "bernoulli(0) is 0 (support of Bernoulli(0) is {0})");
    CANARY("h_bernoulli end");
}
#endif

#ifdef H_FLIP
void h_flip(void)
{
    flip_bits = nondet_u64();
    flip_bitpos = nondet_u8();
    ASSUME(flip_bitpos <= 64u);                        /* invariant: 0 initially, preserved (below) */
    const int r = cmb_random_flip();
    OBT(T1, r == 0 || r == 1, "flip() is 0 or 1");
    OBT(T1, flip_bitpos <= 63u, "flip(): the bit-cache position stays within 0..64 (invariant preserved)");
    CANARY("h_flip end");
}
#endif

#ifdef H_DICE
#ifndef C16_DICE_RANGE
#define C16_DICE_RANGE 2147483648L          /* |a|, |b| <= 2^31: listed assumption (no range is documented) */
#endif
void h_dice(void)
{
#ifdef C16_DICE_A
    const long a = C16_DICE_A, b = C16_DICE_B;
#else
    const long a = nondet_i64(), b = nondet_i64();
    ASSUME(a >= -C16_DICE_RANGE && a <= C16_DICE_RANGE && b >= -C16_DICE_RANGE && b <= C16_DICE_RANGE);
    ASSUME(a < b);                                     /* documented: a < b */
#endif
    const long r = cmb_random_dice(a, b);
    OBT(T1, r >= a, "dice(a,b) >= a");
    OBT(T1, r <= b, "dice(a,b) <= b");
    /* inverse-CDF cell: outcome a + k is returned exactly for u in [k/n, (k+1)/n), n = b - a + 1, i.e.
     * k = floor(n * u) (clamped to n - 1 where the product rounds up to n); equal cells = uniform choice */
#ifdef C16_DICE_A   /* constant a, b only: with symbolic bounds the two products are not proved equal in 200 s */
    {
        const double u = ldexp((double)(cmv_last_raw >> 11), -53);
        const double nu = (double)(b - a + 1) * u;
        long k = (long)floor(nu);
        if (k > b - a) k = b - a;
        OBT(T1, r - a == k, "dice(a,b) - a is the index floor((b-a+1)*u) of the cell of width 1/(b-a+1) that holds u");
    }
#endif
    CANARY("h_dice end");
}
#endif

#ifdef H_UNIFORM
#ifndef C16_UNI_BOUND
#define C16_UNI_BOUND 1.0e300
#endif
void h_uniform(void)
{
#ifdef C16_UNI_MIN
    const double lo = C16_UNI_MIN, hi = C16_UNI_MAX;
#else
    const double lo = nondet_double(), hi = nondet_double();
    ASSUME(FIN(lo) && FIN(hi));
    ASSUME(lo >= -C16_UNI_BOUND && hi <= C16_UNI_BOUND);
    ASSUME(lo < hi);                                   /* documented: min < max (released assertion) */
#endif
    const double r = cmb_random_uniform(lo, hi);       /* the library's own debug assertion (r in [min,max]) is an obligation */
    OBT(T1, !isnan(r), "uniform(min,max) is not NaN");
    OBT(T1, r >= lo && r <= hi, "uniform(min,max) lies in [min,max]");
    CANARY("h_uniform end");
}
#endif

#ifdef H_PARETO
void h_pareto(void)
{
#ifdef C16_PARETO_MODE
    const double shape = nondet_double(), mode = C16_PARETO_MODE;
#else
    const double shape = nondet_double(), mode = nondet_double();
#endif
    ASSUME(shape > 0.0 && FIN(shape) && mode > 0.0 && FIN(mode));
    /* listed assumption: the variate is representable - shape >= 1/16 and mode <= 2^100
     * (u >= 2^-53 gives mode / u^(1/shape) <= 2^100 * 2^848); smaller shapes overflow the double range */
#ifdef C16_PARETO_FINITE
    ASSUME(shape >= 0.0625 && mode <= 0x1p100);
#endif
    const double x = cmb_random_pareto(shape, mode);
    OBT(T1, !isnan(x), "pareto(shape,mode) is not NaN");
    OBT(T1, x >= mode, "pareto(shape,mode) >= mode");
#ifdef C16_PARETO_FINITE   /* experimental group: the division mode / r does not finish on any back end */
    OBT(T1, !isinf(x), "pareto(shape,mode) is finite");
#endif
    CANARY("h_pareto end");
}
#endif

#ifdef H_LOGISTIC
void h_logistic(void)
{
    const double m = nondet_double(), s = nondet_double();
    ASSUME(FIN(m) && FIN(s) && s > 0.0 && fabs(m) <= 1e300 && s <= 1.0);
    const double x = cmb_random_logistic(m, s);
    OBT(T1, !isnan(x), "logistic(m,s) is not NaN");
    OBT(T1, !isinf(x), "logistic(m,s) is finite");
    CANARY("h_logistic end");
}
#endif

#ifdef H_TRIANGULAR
#ifndef C16_TRI_BOUND
#define C16_TRI_BOUND 1.0e100
#endif
void h_triangular(void)
{
    const double lo = nondet_double(), md = nondet_double(), hi = nondet_double();
    ASSUME(FIN(lo) && FIN(md) && FIN(hi) && lo >= -C16_TRI_BOUND && hi <= C16_TRI_BOUND);
    ASSUME(lo <= md && md <= hi && lo < hi);
    const double x = cmb_random_triangular(lo, md, hi);
    OBT(T1, !isnan(x), "triangular(min,mode,max) is not NaN");
    OBT(T1, x >= lo && x <= hi, "triangular(min,mode,max) lies in [min,max]");
    CANARY("h_triangular end");
}
#endif

/* ================================================================== O2: bounded unwind, n <= C16_N */
#ifdef H_LOADED_DICE
void h_loaded_dice(void)
{
    double pa[C16_N];
    const unsigned n = any_probabilities(pa);
    const unsigned r = cmb_random_loaded_dice(n, pa);  /* the library's debug assertion (ui < n) is an obligation */
    OBT(T2, r < n, "loaded_dice(n,pa) < n for every pa accepted by sums_to_one");
    CANARY("h_loaded_dice end");
}
#endif

#ifdef H_ALIAS_CREATE
void h_alias_create(void)
{
    double pa[C16_N];
    const unsigned n = any_probabilities(pa);
    struct cmb_random_alias *ap = cmb_random_alias_create(n, pa);
    OBT(T2, ap != NULL && ap->uprob != NULL && ap->alias != NULL, "alias_create returns a table with both arrays");
    ASSUME(ap != NULL && ap->uprob != NULL && ap->alias != NULL);
    OBT(T2, ap->n == n, "alias_create: the table records n");
    OBT(T2, __CPROVER_OBJECT_SIZE(ap->uprob) == n * sizeof(uint64_t) && __CPROVER_POINTER_OFFSET(ap->uprob) == 0,
        "alias_create: uprob has exactly n entries");
    OBT(T2, __CPROVER_OBJECT_SIZE(ap->alias) == n * sizeof(unsigned) && __CPROVER_POINTER_OFFSET(ap->alias) == 0,
        "alias_create: alias has exactly n entries");
    for (unsigned i = 0; i < C16_N; i++) {
        if (i < n) OBT(T2, ap->alias[i] < n, "alias_create: every alias index is < n");
    }
    CANARY("h_alias_create end");
}
#endif

#ifdef H_ALIAS_SAMPLE
void h_alias_sample(void)
{
    /* any table satisfying alias_create's postcondition */
    struct cmb_random_alias t;
    t.n = nondet_u32();
    ASSUME(t.n >= 1u && t.n <= C16_N);
    t.uprob = malloc(t.n * sizeof(uint64_t));
    t.alias = malloc(t.n * sizeof(unsigned));
    for (unsigned i = 0; i < C16_N; i++) {
        if (i < t.n) {
            t.uprob[i] = nondet_u64();
            t.alias[i] = nondet_u32();
            ASSUME(t.alias[i] < t.n);
        }
    }
    const unsigned r = cmb_random_alias_sample(&t);    /* bounds/pointer checks on uprob[idx], alias[idx] */
    OBT(T2, r < t.n, "alias_sample(table) < n for every table satisfying alias_create's postcondition");
    CANARY("h_alias_sample end");
}
#endif

#ifdef H_BINOMIAL
void h_binomial(void)
{
    const unsigned n = nondet_u32();
    ASSUME(n >= 1u && n <= C16_N);
    const double p = nondet_double();
    ASSUME(p > 0.0 && p <= 1.0);
    const unsigned r = cmb_random_binomial(n, p);
    OBT(T2, r <= n, "binomial(n,p) <= n");
    OBT(T2, p != 1.0 || r == n, "binomial(n,1) == n");
    CANARY("h_binomial end");
}
#endif

#ifdef H_HYPEREXP
void h_hyperexp(void)
{
    double pa[C16_N], ma[C16_N];
    const unsigned n = any_probabilities(pa);
    for (unsigned i = 0; i < C16_N; i++) { ma[i] = nondet_double(); ASSUME(ma[i] > 0.0 && FIN(ma[i])); }
    /* the mean array has exactly n entries: an index >= n is an out-of-bounds read */
    double *m = malloc(n * sizeof(double));
    for (unsigned i = 0; i < C16_N; i++) if (i < n) m[i] = ma[i];
    const double x = cmb_random_hyperexponential(n, m, pa);   /* debug assertion ui < n and the read ma[ui] are obligations */
    OBT(T2, !isnan(x) && x >= 0.0, "hyperexponential(n,ma,pa) >= 0 and not NaN");
    CANARY("h_hyperexp end");
}
#endif

#ifdef H_HYPOEXP
void h_hypoexp(void)
{
    const unsigned n = nondet_u32();
    ASSUME(n >= 1u && n <= C16_N);
    double *m = malloc(n * sizeof(double));
    for (unsigned i = 0; i < C16_N; i++) if (i < n) { m[i] = nondet_double(); ASSUME(m[i] > 0.0 && FIN(m[i])); }
    const double x = cmb_random_hypoexponential(n, m);        /* every read ma[i] is bounds-checked */
    OBT(T2, !isnan(x) && x >= 0.0, "hypoexponential(n,ma) >= 0 and not NaN");
    CANARY("h_hypoexp end");
}
#endif

#ifdef H_GEOMETRIC
void h_geometric(void)
{
#ifdef C16_GEO_P
    const double p = C16_GEO_P;
#else
    const double p = nondet_double();
    ASSUME(p > 0.0 && p <= 1.0);                       /* documented / asserted: 0 < p <= 1 */
#endif
    const unsigned r = cmb_random_geometric(p);        /* debug assertion x >= 1u; conversion check on (unsigned)ceil(..) */
    OBT(T2, r >= 1u, "geometric(p) >= 1");
    CANARY("h_geometric end");
}
#endif

/* ================================================================== O3: table facts */
#define NENT(a) (sizeof(a) / sizeof((a)[0]))
#ifdef H_TABLES_EXP
void h_tables_exp(void)
{
    const unsigned top = cmi_random_exp_zig_max;
    OBT(T3, NENT(cmi_random_exp_zig_pdf_x) == 256 && NENT(cmi_random_exp_zig_pdf_y) == 256 && NENT(exp_zig_u_concavity) == 256
        && NENT(exp_zig_alias) == 256 && NENT(exp_zig_u_prob) == 256, "exp: every table has 256 entries, so any uint8_t index is in range");
    OBT(T3, top + 1u <= 255u, "exp: zig_max + 1 is a table index");
    for (unsigned i = 0; i < 256; i++) {
        OBT(T3, cmi_random_exp_zig_pdf_x[i] >= 0.0 && FIN(cmi_random_exp_zig_pdf_x[i]), "exp: pdf_x[i] is non-negative and finite");
        OBT(T3, cmi_random_exp_zig_pdf_y[i] >= 0.0 && FIN(cmi_random_exp_zig_pdf_y[i]), "exp: pdf_y[i] is non-negative and finite");
        if (i > 0) OBT(T3, cmi_random_exp_zig_pdf_x[i - 1] >= cmi_random_exp_zig_pdf_x[i], "exp: pdf_x is non-increasing, so (pdf_x[j-1] - pdf_x[j]) >= 0");
        if (i > 0 && i <= top + 1u) OBT(T3, cmi_random_exp_zig_pdf_y[i - 1] <= cmi_random_exp_zig_pdf_y[i], "exp: pdf_y is non-decreasing up to layer zig_max+1");
        if (i <= top) OBT(T3, cmi_random_exp_zig_pdf_x[i] > 0.0, "exp: pdf_x[i] > 0 on the hot layers i <= zig_max");
        OBT(T3, exp_zig_alias[i] <= top + 1u, "exp: every alias entry is a defined overhang (<= zig_max+1 <= 255)");
        OBT(T3, i <= top + 1u || exp_zig_u_prob[i] == 0u, "exp: layers above zig_max+1 are never selected themselves (u_prob == 0: always aliased)");
    }
    OBT(T3, exp_zig_u_prob[0] == UINT64_MAX || exp_zig_alias[0] == 0, "exp: entry 0 (tail) is consistent");
    OBT(T3, exp_zig_x_tail_start > 0.0 && FIN(exp_zig_x_tail_start), "exp: tail start is positive and finite");
    OBT(T3, FIN(cmi_random_exp_zig_pdf_x[0] * 0x1p64), "exp: the largest hot-path product pdf_x[0] * 2^64 is finite");
    CANARY("h_tables_exp end");
}
#endif

#ifdef H_TABLES_NOR
void h_tables_nor(void)
{
    const unsigned top = cmi_random_nor_zig_max;
    OBT(T3, NENT(cmi_random_nor_zig_pdf_x) == 256 && NENT(cmi_random_nor_zig_pdf_y) == 256 && NENT(nor_zig_i_concavity) == 256
        && NENT(nor_zig_i_convexity) == 256 && NENT(nor_zig_alias) == 256 && NENT(nor_zig_i_prob) == 256,
        "normal: every table has 256 entries, so any uint8_t index is in range");
    OBT(T3, top + 1u <= 255u, "normal: zig_max + 1 is a table index");
    OBT(T3, nor_zig_inflection >= 1u && nor_zig_inflection <= top + 1u, "normal: the inflection layer is a defined overhang with a left neighbour (dpx - 1 in range)");
    for (unsigned i = 0; i < 256; i++) {
        OBT(T3, cmi_random_nor_zig_pdf_x[i] >= 0.0 && FIN(cmi_random_nor_zig_pdf_x[i]), "normal: pdf_x[i] is non-negative and finite");
        OBT(T3, cmi_random_nor_zig_pdf_y[i] >= 0.0 && FIN(cmi_random_nor_zig_pdf_y[i]), "normal: pdf_y[i] is non-negative and finite");
        if (i > 0) OBT(T3, cmi_random_nor_zig_pdf_x[i - 1] >= cmi_random_nor_zig_pdf_x[i], "normal: pdf_x is non-increasing");
        if (i > 0 && i <= top + 1u) OBT(T3, cmi_random_nor_zig_pdf_y[i - 1] <= cmi_random_nor_zig_pdf_y[i], "normal: pdf_y is non-decreasing up to layer zig_max+1");
        OBT(T3, nor_zig_alias[i] <= top + 1u, "normal: every alias entry is a defined overhang (<= zig_max+1 <= 255)");
        OBT(T3, i <= top + 1u || nor_zig_i_prob[i] == 0, "normal: layers above zig_max+1 are never selected themselves (i_prob == 0: always aliased)");
        OBT(T3, nor_zig_i_prob[i] >= 0 && nor_zig_i_concavity[i] >= 0 && nor_zig_i_convexity[i] >= 0, "normal: scaled probabilities / concavity / convexity are non-negative (no signed overflow in i_dist + convexity)");
    }
    OBT(T3, nor_zig_x_tail_start > 0.0 && FIN(nor_zig_x_tail_start) && nor_zig_inv_tail_start > 0.0 && FIN(nor_zig_inv_tail_start), "normal: tail constants are positive and finite");
    OBT(T3, FIN(cmi_random_nor_zig_pdf_x[0] * 0x1p63), "normal: the largest hot-path product pdf_x[0] * 2^63 is finite");
    CANARY("h_tables_nor end");
}
#endif

#ifdef H_EXP_HOT
/* the inlined hot path of cmb_random_std_exponential for EVERY raw value that takes it */
void h_exp_hot(void)
{
    const double r = cmb_random_std_exponential();     /* C16_HOT_ONLY_EXP: idx <= zig_max; debug assertion r >= 0 is an obligation */
    OBT(T3, !isnan(r) && r >= 0.0, "std_exponential hot path: result >= 0 and not NaN for every raw value");
    OBT(T3, !isinf(r), "std_exponential hot path: result is finite for every raw value");
    OBT(T3, cmv_raw_calls == 1u, "std_exponential hot path: one raw value, fall-back not entered");
    CANARY("h_exp_hot end");
}
#endif

#ifdef H_NOR_HOT
void h_nor_hot(void)
{
    const double r = cmb_random_std_normal();
    OBT(T3, FIN(r), "std_normal hot path: result is finite for every raw value");
    CANARY("h_nor_hot end");
}
#endif

/* ================================================================== O4: partial correctness, loops cut */
#ifdef H_P_EXP_NOT_HOT
void h_p_exp_not_hot(void)
{
    const double r = cmi_random_exp_not_hot(nondet_u64());
    OBT(T4, !isnan(r) && r >= 0.0, "any value returned by cmi_random_exp_not_hot is >= 0 and not NaN");
    OBT(T4, !isinf(r), "any value returned by cmi_random_exp_not_hot is finite");
    CANARY("h_p_exp_not_hot end");
}
#endif

#ifdef H_P_NOR_NOT_HOT
void h_p_nor_not_hot(void)
{
    const double r = cmi_random_nor_not_hot(nondet_i64());
    OBT(T4, FIN(r), "any value returned by cmi_random_nor_not_hot is finite");
    CANARY("h_p_nor_not_hot end");
}
#endif

#ifdef H_P_STD_EXPONENTIAL
void h_p_std_exponential(void)
{
    const double r = cmb_random_std_exponential();
    OBT(T4, !isnan(r) && r >= 0.0, "any value returned by std_exponential is >= 0 and not NaN");
    CANARY("h_p_std_exponential end");
}
#endif

#ifdef H_P_EXPONENTIAL
void h_p_exponential(void)
{
    const double mean = nondet_double();
    ASSUME(mean > 0.0 && FIN(mean));
    const double r = cmb_random_exponential(mean);
    OBT(T4, !isnan(r) && r >= 0.0, "any value returned by exponential(mean) is >= 0 and not NaN");
    CANARY("h_p_exponential end");
}
#endif

#ifdef H_P_ERLANG
void h_p_erlang(void)
{
    const unsigned k = nondet_u32();
    const double m = nondet_double();
    ASSUME(k >= 1u && k <= 2u && m > 0.0 && FIN(m));
    const double r = cmb_random_erlang(k, m);
    OBT(T4, !isnan(r) && r >= 0.0, "any value returned by erlang(k<=2,m) is >= 0 and not NaN");
    CANARY("h_p_erlang end");
}
#endif

#ifdef H_P_WEIBULL
void h_p_weibull(void)
{
    const double shape = nondet_double(), scale = nondet_double();
    ASSUME(shape > 0.0 && FIN(shape) && scale > 0.0 && FIN(scale));
    const double r = cmb_random_weibull(shape, scale);
    OBT(T4, !isnan(r) && r >= 0.0, "any value returned by weibull(shape,scale) is >= 0 and not NaN");
    CANARY("h_p_weibull end");
}
#endif

#ifdef H_P_RAYLEIGH
void h_p_rayleigh(void)
{
    const double s = nondet_double();
    ASSUME(s > 0.0 && FIN(s));
    const double r = cmb_random_rayleigh(s);
    OBT(T4, !isnan(r) && r >= 0.0, "any value returned by rayleigh(s) is >= 0 and not NaN");
    CANARY("h_p_rayleigh end");
}
#endif

#ifdef H_P_STD_NORMAL
void h_p_std_normal(void)
{
    const double r = cmb_random_std_normal();
    OBT(T4, FIN(r), "any value returned by std_normal is finite");
    CANARY("h_p_std_normal end");
}
#endif

#ifdef H_P_STD_GAMMA
void h_p_std_gamma(void)
{
#ifdef C16_SHAPE
    const double shape = C16_SHAPE;
#else
    const double shape = nondet_double();
    ASSUME(shape > 0.0 && FIN(shape));                 /* documented: shape > 0 */
#ifdef C16_SHAPE_MIN
    ASSUME(shape >= C16_SHAPE_MIN);
#endif
#ifdef C16_SHAPE_BELOW
    ASSUME(shape < C16_SHAPE_BELOW);
#endif
#endif
    const double r = cmb_random_std_gamma(shape);      /* debug assertion ret >= 0 is an obligation */
    OBT(T4, !isnan(r) && r >= 0.0, "any value returned by std_gamma(shape) is >= 0 and not NaN");
    CANARY("h_p_std_gamma end");
}
#endif

#ifdef H_P_GAMMA
void h_p_gamma(void)
{
    const double shape = nondet_double(), scale = nondet_double();
    ASSUME(shape > 0.0 && FIN(shape) && scale > 0.0 && FIN(scale));
    const double r = cmb_random_gamma(shape, scale);
    OBT(T4, !isnan(r) && r >= 0.0, "any value returned by gamma(shape,scale) is >= 0 and not NaN");
    CANARY("h_p_gamma end");
}
#endif

#ifdef H_P_CHISQUARED
void h_p_chisquared(void)
{
    const double k = nondet_double();
    ASSUME(k > 0.0 && FIN(k));
    const double r = cmb_random_chisquared(k);
    OBT(T4, !isnan(r) && r >= 0.0, "any value returned by chisquared(k) is >= 0 and not NaN");
    CANARY("h_p_chisquared end");
}
#endif

/* For the beta family the gamma sampler is replaced by a contract, so that one query contains one
 * sampler.  Default contract: value > 0 and finite.  This is STRONGER than what C16.O4.std_gamma
 * establishes (>= 0, not NaN, and only for shape > 1/3): the strengthening (no exact 0, no +inf) is a
 * LISTED, UNDISCHARGED assumption (argument in NOTES.md).  With -DC16_GAMMA_WEAK the contract is
 * exactly the proved one (>= 0, not NaN) and std_beta then fails with 0/(0+0) and inf/(inf+y). */
double cmv_std_gamma_contract(double shape)
{
    __CPROVER_assert(shape > 0.0, "cmb_assert_release: shape > 0.0 (std_gamma precondition at the call)");
    double r = nondet_double();
#ifdef C16_GAMMA_WEAK
    ASSUME(!isnan(r) && r >= 0.0);
#else
    ASSUME(FIN(r) && r > 0.0);
#endif
    return r;
}

#ifdef H_P_STD_BETA
void h_p_std_beta(void)
{
    const double a = nondet_double(), b = nondet_double();
    ASSUME(a > 0.0 && FIN(a) && b > 0.0 && FIN(b));
    const double r = cmb_random_std_beta(a, b);        /* debug assertion 0 <= r <= 1 is an obligation */
    OBT(T4, !isnan(r) && r >= 0.0 && r <= 1.0, "any value returned by std_beta(a,b) lies in [0,1]");
    CANARY("h_p_std_beta end");
}
#endif

#ifdef H_P_BETA
void h_p_beta(void)
{
    const double a = nondet_double(), b = nondet_double(), lo = nondet_double(), hi = nondet_double();
    ASSUME(a > 0.0 && FIN(a) && b > 0.0 && FIN(b) && FIN(lo) && FIN(hi) && lo < hi && lo >= -1e300 && hi <= 1e300);
    const double r = cmb_random_beta(a, b, lo, hi);
    OBT(T4, !isnan(r) && r >= lo && r <= hi, "any value returned by beta(a,b,min,max) lies in [min,max]");
    CANARY("h_p_beta end");
}
#endif

#ifdef H_P_PERT
void h_p_pert(void)
{
    const double lo = nondet_double(), md = nondet_double(), hi = nondet_double();
    ASSUME(FIN(lo) && FIN(md) && FIN(hi) && lo < md && md < hi && lo >= -1e300 && hi <= 1e300);
    const double r = cmb_random_PERT(lo, md, hi);
    OBT(T4, !isnan(r) && r >= lo && r <= hi, "any value returned by PERT(min,mode,max) lies in [min,max]");
    CANARY("h_p_pert end");
}
#endif
