#!/usr/bin/env python3
"""
run.py <repo_path> <outdir> [--thorough] [--only SUBSTR] [--jobs N]

Property C16 (support sentence) on the working tree at <repo_path>:
  * regenerates cmi_random_exp_zig.inc / cmi_random_nor_zig.inc from <repo>/codegen (every run);
  * one CBMC query per group on h_c16.c (which #includes <repo>/src/cmb_random.c and, through it,
    <repo>/include/cmb_random.h); cmb_random_sfc64() is replaced by a stub returning an arbitrary
    64-bit value per call (goto-instrument --replace-calls);
  * every FAILED obligation is replayed natively on the real code with the counterexample's
    parameters and raw 64-bit values (replay_c16.c supplies cmb_random_sfc64()).
Prints ONE JSON document {"groups":[...]} on stdout.
Exit status: 0 all groups ok; 1 some group failed/undecided; 2 build break (goto-cc / codegen); 3 internal error.
Quick mode (default) keeps every query within QUICK_TIMEOUT; --thorough adds the groups marked
thorough, uses the 300 s time box and tries the alternative back ends on a timeout.
"""
import json
import os
import re
import struct
import subprocess
import sys
import threading
import time
from concurrent.futures import ThreadPoolExecutor

HERE = os.path.dirname(os.path.abspath(__file__))
HARNESS_DIR = os.environ.get('CMV_HARNESS_DIR', '/verif/harness')
HARNESS = os.path.join(HERE, 'h_c16.c')
REPLAY_SRC = os.path.join(HERE, 'replay_c16.c')
QUICK_TIMEOUT = int(os.environ.get('C16_QUICK_TIMEOUT', '200'))
FULL_TIMEOUT = int(os.environ.get('C16_TIMEOUT', '300'))

BASE = ['--drop-unused-functions', '--bounds-check', '--pointer-check', '--div-by-zero-check']
INTCHK = ['--signed-overflow-check', '--undefined-shift-check', '--conversion-check']
CONV = ['--conversion-check']
SAT, CADICAL, Z3 = [], ['--sat-solver', 'cadical'], ['--z3']
EXP_STUB = 'cmi_random_exp_not_hot:cmv_exp_not_hot_contract'
NOR_STUB = 'cmi_random_nor_not_hot:cmv_nor_not_hot_contract'
GAMMA_STUB = 'cmb_random_std_gamma:cmv_std_gamma_contract'


def UNW(n):
    return ['--unwind', str(n), '--unwinding-assertions']


PART = ['--unwind', '3', '--no-unwinding-assertions']          # loops cut after 2 iterations, NO unwinding assertions: partial correctness


# ---------------------------------------------------------------- native replay argument builders
def hexd(bits):
    """64-bit binary string of a double -> C99 hex-float literal (exact)"""
    v = struct.unpack('>d', int(bits, 2).to_bytes(8, 'big'))[0]
    if v != v:
        return 'nan'
    if v in (float('inf'), float('-inf')):
        return 'inf' if v > 0 else '-inf'
    return v.hex()


def nat_simple(mode, *names):
    def f(v, raws):
        return [mode] + [v[n] for n in names]
    return f


def nat_probs(mode, extra=()):
    def f(v, raws):
        n = int(v['n'])
        a = [mode, str(n)] + [v.get('pa[%d]' % i, '0') for i in range(n)]
        for e in extra:
            a += [v.get('%s[%d]' % (e, i), '1') for i in range(n)]
        return a
    return f


def nat_binomial(v, raws):
    return ['binomial', v['n'], v['p']]


# ---------------------------------------------------------------- groups
# id, entry, level, defs, repl (extra --replace-calls), flags, backends (tried in order in --thorough),
# native (builder or None), note, thorough (only run with --thorough), quick_timeout override
def G(gid, entry, level, defs=(), repl=(), flags=(), backends=(SAT,), native=None, note='', thorough=False, qt=None,
      expect='ok', cover=False, experimental=False):
    return dict(experimental=experimental, id=gid, entry=entry, level=level, defs=list(defs), repl=list(repl), flags=list(flags),
                backends=list(backends), native=native, note=note, thorough=thorough, qt=qt, expect=expect, cover=cover)


def GX(*a, **k):
    """experimental: does not finish in the time box (or is a contract-level probe); only run with --experimental"""
    return G(*a, experimental=True, **k)


GROUPS = [
    # ---- O1: loop-free, every 64-bit raw value
    G('C16.O1.unit_interval', 'h_unit', 'proved', native=nat_simple('unit')),
    G('C16.O1.bernoulli', 'h_bernoulli', 'proved', native=nat_simple('bernoulli', 'p'),
      note='before the fix commit: bernoulli(0) returns 1 when cmb_random() == 0.0 (raw < 2^11), comparison is <='),
    G('C16.O1.flip', 'h_flip', 'proved', flags=INTCHK, native=nat_simple('flip')),
    G('C16.O1.dice', 'h_dice', 'proved', flags=INTCHK, native=nat_simple('dice', 'a', 'b'), note='listed assumption |a|,|b| <= 2^31 (no range is documented)'),
    G('C16.O1.dice_126_131', 'h_dice', 'proved', defs=['C16_DICE_A=126', 'C16_DICE_B=131'], flags=INTCHK,
      native=lambda v, raws: ['dice', '126', '131'], note='constants a = 126, b = 131 (the rounding witness of the repaired defect); also the inverse-CDF cell obligation'),
    G('C16.O1.dice_m7_3', 'h_dice', 'proved', defs=['C16_DICE_A=(-7)', 'C16_DICE_B=3'], flags=INTCHK,
      native=lambda v, raws: ['dice', '-7', '3'], note='constants a = -7, b = 3 (negative lower bound); also the inverse-CDF cell obligation'),
    G('C16.O1.uniform_overflow', 'h_uniform', 'proved', defs=['C16_UNI_BOUND=DBL_MAX'], native=nat_simple('uniform', 'lo', 'hi'), expect='failed',
      note='any finite min < max: max - min overflows to +inf for |min|,|max| near DBL_MAX'),
    G('C16.O1.uniform_unit', 'h_uniform', 'proved', defs=['C16_UNI_MIN=0.0', 'C16_UNI_MAX=1.0'], native=lambda v, r: ['uniform', '0', '1']),
    GX('C16.O1.uniform', 'h_uniform', 'proved', backends=(SAT, CADICAL, Z3), native=nat_simple('uniform', 'lo', 'hi'), thorough=True,
      note='|min|,|max| <= 1e300; symbolic floating-point multiply'),
    GX('C16.O1.pareto_anymode', 'h_pareto', 'proved', backends=(SAT, CADICAL, Z3), native=nat_simple('pareto', 'shape', 'mode'),
      note='every mode > 0: mode / r >= mode for r in (0,1] is a division fact no back end finishes in 200 s'),
    G('C16.O1.pareto', 'h_pareto', 'proved', defs=['C16_PARETO_MODE=1.0'], native=lambda v, raws: ['pareto', str(v.get('shape', '1.0')), '1.0'],
      note='mode = 1.0 (listed bound; the result scales with mode, general mode is C16.O1.pareto_anymode, experimental); not NaN, >= mode, and the inversion formula is never evaluated at the pole u = 0 (cmi_random_open); finiteness for representable parameters is C16.O1.pareto_finite (experimental: undecided)'),
    GX('C16.O1.pareto_finite', 'h_pareto', 'proved', defs=['C16_PARETO_FINITE'], backends=(SAT, CADICAL, Z3), native=nat_simple('pareto', 'shape', 'mode'),
      note='shape >= 1/16, mode <= 2^100: mode / pow(u, 1/shape) is finite; no back end finishes the division in 300 s'),
    G('C16.O1.logistic', 'h_logistic', 'proved', native=nat_simple('logistic', 'm', 's'), note='the inversion formula is evaluated on (0,1) only (cmi_random_open)'),
    GX('C16.O1.triangular', 'h_triangular', 'proved', defs=['C16_EXACT_LIBM'], backends=(SAT, CADICAL), thorough=True,
      native=nat_simple('triangular', 'lo', 'md', 'hi'), note="CBMC's exact sqrt model; symbolic multiply/divide"),
    # ---- O2: bounded unwind n <= 3
    G('C16.O2.loaded_dice', 'h_loaded_dice', 'bounded-unwind', defs=['C16_N=2'], flags=UNW(3), native=nat_probs('loaded_dice'),
      note='n <= 2; before the fix commit: probabilities summing to 1 - eps (eps <= 1e-3, accepted by sums_to_one) fall through the cumulative search'),
    G('C16.O2.loaded_dice_n3', 'h_loaded_dice', 'bounded-unwind', flags=UNW(4), backends=(CADICAL, SAT), native=nat_probs('loaded_dice'), thorough=True,
      note='n <= 3 (MiniSat and z3 do not finish in 300 s, cadical about 2 min)'),
    G('C16.O2.alias_create', 'h_alias_create', 'bounded-unwind', defs=['C16_N=2'], flags=UNW(3) + CONV, native=nat_probs('alias'), note='n <= 2 (n <= 3 does not finish in 300 s: C16.O2.alias_create_n3, --thorough)'),
    GX('C16.O2.alias_create_n3', 'h_alias_create', 'bounded-unwind', flags=UNW(4) + CONV, backends=(SAT, ['--refine-arithmetic'], CADICAL), native=nat_probs('alias'), thorough=True, note='n <= 3'),
    G('C16.O2.alias_sample', 'h_alias_sample', 'bounded-unwind', flags=UNW(4) + CONV, native=None),
    G('C16.O2.binomial', 'h_binomial', 'bounded-unwind', flags=UNW(4), native=nat_binomial),
    G('C16.O2.hyperexponential', 'h_hyperexp', 'bounded-unwind', defs=['C16_N=2'], repl=[EXP_STUB], flags=UNW(3), native=nat_probs('hyperexp', extra=('ma',)),
      note='n <= 2; before the fix commit: inherits the loaded_dice defect, then reads ma[n]; cmi_random_exp_not_hot replaced by its contract (>= 0, finite)'),
    G('C16.O2.hypoexponential', 'h_hypoexp', 'bounded-unwind', repl=[EXP_STUB], flags=UNW(4), native=None,
      note='cmi_random_exp_not_hot replaced by its contract (>= 0, finite)'),
    G('C16.O2.geometric', 'h_geometric', 'bounded-unwind', defs=['C16_HOT_ONLY_EXP'], repl=[EXP_STUB], flags=CONV,
      native=nat_simple('geometric', 'p'),
      note='before the fix commit: (unsigned)ceil(exp/denom) out of range for tiny p, 0 for p = 1 or raw = 0; listed assumption: ziggurat hot path only (idx <= zig_max); log() is a contract, so the native replay is the arbiter of this counterexample'),
    G('C16.O2.geometric_p1', 'h_geometric', 'bounded-unwind', defs=['C16_HOT_ONLY_EXP', 'C16_GEO_P=1.0'], repl=[EXP_STUB], flags=CONV,
      native=lambda v, r: ['geometric', '1.0'], note='before the fix commit: p = 1 gives denom = -log(0) = +inf, quotient 0, result 0 on EVERY path (the canary is unreachable for that reason)'),
    G('C16.O2.geometric_tiny', 'h_geometric', 'bounded-unwind', defs=['C16_HOT_ONLY_EXP', 'C16_GEO_P=0x1p-60'], repl=[EXP_STUB], flags=CONV,
      native=lambda v, r: ['geometric', '0x1p-60'], note='before the fix commit: p < 2^-53 gives 1-p == 1, denom = -0.0, quotient -inf/NaN: float->unsigned conversion out of range on EVERY path'),
    # ---- O3: table facts
    G('C16.O3.tables_exp', 'h_tables_exp', 'proved', flags=['--unwind', '257', '--unwinding-assertions']),
    G('C16.O3.tables_nor', 'h_tables_nor', 'proved', flags=['--unwind', '257', '--unwinding-assertions']),
    G('C16.O3.exp_hot', 'h_exp_hot', 'proved', defs=['C16_HOT_ONLY_EXP'], repl=[EXP_STUB], backends=(SAT, CADICAL, Z3), native=nat_simple('std_exponential')),
    G('C16.O3.nor_hot', 'h_nor_hot', 'proved', defs=['C16_HOT_ONLY_NOR'], repl=[NOR_STUB], backends=(SAT, CADICAL, Z3), native=nat_simple('std_normal')),
    # ---- O4: partial correctness, loops cut (no unwinding assertions)
    G('C16.O4.exp_not_hot', 'h_p_exp_not_hot', 'bounded-unwind', flags=PART, native=None),
    G('C16.O4.nor_not_hot', 'h_p_nor_not_hot', 'bounded-unwind', repl=[EXP_STUB], flags=PART, native=None,
      note='tail branch: cmi_random_exp_not_hot replaced by its contract'),
    G('C16.O4.std_exponential', 'h_p_std_exponential', 'bounded-unwind', flags=PART, native=nat_simple('std_exponential')),
    G('C16.O4.exponential', 'h_p_exponential', 'bounded-unwind', repl=[EXP_STUB], flags=PART, native=None),
    G('C16.O4.erlang', 'h_p_erlang', 'bounded-unwind', repl=[EXP_STUB], flags=PART, native=None),
    G('C16.O4.weibull', 'h_p_weibull', 'bounded-unwind', repl=[EXP_STUB], flags=PART, native=nat_simple('weibull', 'shape', 'scale')),
    G('C16.O4.std_normal', 'h_p_std_normal', 'bounded-unwind', repl=[NOR_STUB], flags=PART, native=nat_simple('std_normal')),
    G('C16.O4.rayleigh', 'h_p_rayleigh', 'bounded-unwind', repl=[NOR_STUB], flags=PART, native=None),
    G('C16.O4.std_gamma_lt1', 'h_p_std_gamma', 'bounded-unwind', defs=['C16_SHAPE_BELOW=1.0', 'C16_SHAPE_MIN=0.001', 'C16_NOR_BOUNDED'], repl=[NOR_STUB], flags=PART,
      backends=(CADICAL,), qt=1400, thorough=True, native=nat_simple('std_gamma', 'shape'),
      note='0.001 <= shape < 1 (boosted inside std_gamma; the whole of (0,1) did not finish in 600 s); listed assumption: |normal variate| <= 1e100'),
    G('C16.O4.std_gamma_ge1', 'h_p_std_gamma', 'bounded-unwind', defs=['C16_SHAPE_MIN=1.0', 'C16_NOR_BOUNDED'], repl=[NOR_STUB], flags=PART,
      backends=(CADICAL, SAT), qt=600, native=nat_simple('std_gamma', 'shape'), note='shape >= 1; listed assumption: |normal variate| <= 1e100'),
    GX('C16.O4.gamma', 'h_p_gamma', 'bounded-unwind', repl=[NOR_STUB], flags=PART, native=nat_simple('gamma', 'shape', 'scale'), backends=(SAT, CADICAL), qt=150),
    GX('C16.O4.chisquared', 'h_p_chisquared', 'bounded-unwind', repl=[NOR_STUB], flags=PART, native=None, thorough=True),
    G('C16.O4.std_beta', 'h_p_std_beta', 'bounded-unwind', repl=[GAMMA_STUB], flags=PART, native=nat_simple('std_beta', 'a', 'b'),
      note='std_gamma replaced by the contract "> 0 and finite" (listed, UNDISCHARGED strengthening; and C16.O4.std_gamma FAILS for shape <= 1/3)'),
    GX('C16.O4.std_beta_weak', 'h_p_std_beta', 'bounded-unwind', defs=['C16_GAMMA_WEAK'], repl=[GAMMA_STUB], flags=PART, native=nat_simple('std_beta', 'a', 'b'), thorough=True, expect='failed',
      note='std_gamma replaced by exactly the proved contract (>= 0, not NaN): 0/(0+0) and inf/(inf+y) are NaN; contract-level counterexample - a native reproduction only happens when the chosen a or b is <= 1/3 (the std_gamma defect)'),
    G('C16.O4.beta', 'h_p_beta', 'bounded-unwind', repl=[GAMMA_STUB], flags=PART, native=None,
      backends=(SAT, CADICAL, Z3), note='std_gamma replaced by the contract "> 0 and finite"; a counterexample needs std_beta == 1.0 exactly (gamma outputs y < x * 2^-53), which raw-value injection cannot force: contract-level counterexample, NOT confirmed natively'),
    GX('C16.O4.PERT', 'h_p_pert', 'bounded-unwind', repl=[GAMMA_STUB], flags=PART, native=nat_simple('pert', 'lo', 'md', 'hi'),
      backends=(SAT, CADICAL, Z3), qt=150, note='std_gamma replaced by the contract "> 0 and finite"'),
]


# ---------------------------------------------------------------- plumbing
def _run(cmd, timeout, stdout=None):
    t0 = time.time()
    try:
        r = subprocess.run(['timeout', '-k', '5', str(timeout)] + cmd, stdout=stdout or subprocess.PIPE,
                           stderr=subprocess.PIPE, universal_newlines=(stdout is None))
    except Exception as e:
        return 'error', str(e), time.time() - t0
    if r.returncode in (124, 137):
        return 'timeout', '', time.time() - t0
    out = r.stdout if stdout is None else ''
    err = r.stderr if isinstance(r.stderr, str) else r.stderr.decode('utf-8', 'replace')
    return r.returncode, (out or '') + err, time.time() - t0


_gen_lock = threading.Lock()


def codegen(repo, outdir):
    """regenerate the two ziggurat include files from <repo>/codegen -> directory, or raise"""
    d = os.path.join(outdir, 'gen')
    os.makedirs(d, exist_ok=True)
    cmds = []
    for nm, short in (('exponential', 'exp'), ('normal', 'nor')):
        exe = os.path.join(d, 'calc_' + nm)
        cmd = ['gcc', '-O1', '-o', exe, os.path.join(repo, 'codegen', 'calc_%s.c' % nm), os.path.join(repo, 'codegen', 'calc_utils.c'), '-lm']
        cmds.append(' '.join(cmd))
        r = subprocess.run(cmd, stdout=subprocess.PIPE, stderr=subprocess.STDOUT, universal_newlines=True)
        if r.returncode != 0:
            raise RuntimeError('codegen build failed: ' + r.stdout[-800:])
        inc = os.path.join(d, 'cmi_random_%s_zig.inc' % short)
        with open(inc, 'wb') as f:
            r = subprocess.run(['timeout', '60', exe], stdout=f, stderr=subprocess.PIPE)
        cmds.append('%s > %s' % (exe, inc))
        if r.returncode != 0 or os.path.getsize(inc) == 0:
            raise RuntimeError('codegen run failed: calc_' + nm)
    return d, cmds


class Native(object):
    """builds the replay driver twice (debug assertions on / NDEBUG) against the real cmb_random.c"""

    def __init__(self, repo, outdir, gen):
        self.repo, self.dir, self.gen = repo, os.path.join(outdir, 'native'), gen
        self.lock = threading.Lock()
        self.built = None
        self.cmds = []

    def build(self):
        with self.lock:
            if self.built is not None:
                return self.built
            os.makedirs(self.dir, exist_ok=True)
            inc = ['-D_POSIX_C_SOURCE=200809L', '-I' + os.path.join(self.repo, 'include'), '-I' + os.path.join(self.repo, 'src'), '-I' + self.gen]
            log = ''
            ok = True
            for tag, d in (('dbg', []), ('ndebug', ['-DNDEBUG'])):
                o = os.path.join(self.dir, 'cmb_random_%s.o' % tag)
                exe = os.path.join(self.dir, 'replay_c16_' + tag)
                steps = [['gcc', '-O0', '-g'] + d + inc + ['-c', os.path.join(self.repo, 'src', 'cmb_random.c'), '-o', o],
                         ['objcopy', '-W', 'cmb_random_sfc64', o],
                         ['gcc', '-O0', '-g'] + d + inc + [REPLAY_SRC, o, '-lm', '-o', exe]]
                for c in steps:
                    self.cmds.append(' '.join(c))
                    r = subprocess.run(c, stdout=subprocess.PIPE, stderr=subprocess.STDOUT, universal_newlines=True)
                    if r.returncode != 0:
                        ok = False
                        log += r.stdout[-800:]
                        break
            self.built = (ok, log)
            return self.built

    def run(self, args, raws):
        ok, log = self.build()
        if not ok:
            return {'reproduced': False, 'output': 'native driver did not build: ' + log}
        out, rep, cmds = '', False, []
        for tag in ('dbg', 'ndebug'):
            cmd = [os.path.join(self.dir, 'replay_c16_' + tag)] + list(args) + ['--'] + list(raws)
            cmds.append(' '.join(cmd))
            try:
                r = subprocess.run(['timeout', '60'] + cmd, stdout=subprocess.PIPE, stderr=subprocess.STDOUT, universal_newlines=True)
                out += '$ %s\n%s(exit %d)\n' % (' '.join(cmd), r.stdout[-2500:], r.returncode)
                rep = rep or r.returncode == 1
            except Exception as e:
                out += '$ %s\nnative run failed: %r\n' % (' '.join(cmd), e)
        return {'reproduced': bool(rep), 'output': out, 'cmds': cmds}


def value_of(v):
    """trace value -> (display string, exact replay string)"""
    if not isinstance(v, dict):
        return str(v), str(v)
    b, data = v.get('binary'), v.get('data', v.get('name', '?'))
    if b and len(b) == 64 and isinstance(data, str) and not re.match(r'^-?\d+u?l*$', data) and v.get('name') != 'pointer':
        # a double: show exactly
        h = hexd(b)
        try:
            shown = repr(float.fromhex(h)) if h not in ('nan', 'inf', '-inf') else h
        except ValueError:
            shown = h
        return shown, h
    if isinstance(data, str):
        m = re.match(r'^(-?\d+)u?l*$', data)
        if m:
            return m.group(1), m.group(1)
    return str(data), str(data)


def extract_trace(r, entry):
    tr, vars_, raws = [], {}, []
    for s in r.get('trace', []):
        if s.get('hidden'):
            continue
        loc = s.get('sourceLocation', {})
        k = s.get('stepType')
        fn = loc.get('function', '')
        if k == 'assignment':
            shown, exact = value_of(s.get('value', {}))
            lhs = s.get('lhs', '')
            if lhs.startswith('return_value_') or lhs.startswith('goto_symex$$'):
                continue
            tr.append([lhs, shown, fn, loc.get('line', '')])
            if fn == 'cmv_raw' and lhs == 'raw':
                raws.append('0x%016x' % int(exact))
            elif fn in (entry, 'any_probabilities') and s.get('assignmentType') != 'actual-parameter':
                key = re.sub(r'\[(\d+)[ul]*\]', r'[\1]', lhs)
                vars_[key] = exact
        elif k == 'function-call':
            tr.append(['call', s.get('function', {}).get('displayName', '?'), fn, loc.get('line', '')])
        elif k == 'failure':
            tr.append(['FAILED', s.get('reason', loc.get('comment', '')), fn, loc.get('line', '')])
    if len(tr) > 120:
        tr = tr[:50] + [['...', '%d steps omitted' % (len(tr) - 110), '', '']] + tr[-60:]
    return tr, vars_, raws


def run_group(repo, outdir, gen, g, nat, thorough):
    gid, entry = g['id'], g['entry']
    t0 = time.time()
    wd = os.path.join(outdir, 'cbmc', gid)
    os.makedirs(wd, exist_ok=True)
    res = {'id': gid, 'status': 'ok', 'reason': '', 'seconds': 0, 'backend': 'cbmc/sat', 'level': g['level'], 'expected': g['expect'],
           'cmds': [], 'obligations': [], 'traces': {}, 'native': {}}

    def fin():
        res['seconds'] = round(time.time() - t0, 2)
        if g['note']:
            res['reason'] = (res['reason'] + '; ' if res['reason'] else '') + g['note']
        if g['level'] == 'bounded-unwind' and '--unwinding-assertions' not in g['flags']:
            res['reason'] += '; bounded-unwind/partial: loops cut after 2 iterations without unwinding assertions (only RETURNED values are constrained)'
        return res

    gb, gb2 = os.path.join(wd, 'a.gb'), os.path.join(wd, 'b.gb')
    cmd = ['goto-cc', '-I' + HARNESS_DIR, '-I' + repo, '-I' + os.path.join(repo, 'include'), '-I' + os.path.join(repo, 'src'), '-I' + gen,
           '-D_POSIX_C_SOURCE=200809L', '-D' + entry.upper()] + ['-D' + d for d in g['defs']] + ['--function', entry, HARNESS, '-o', gb]
    res['cmds'].append(' '.join(cmd))
    rc, out, dt = _run(cmd, 120)
    if rc != 0:
        res['status'] = 'error'
        res['reason'] = 'goto-cc failed (build break): ' + str(out)[-1500:]
        return fin()
    cmd = ['goto-instrument']
    for rp in ['cmb_random_sfc64:cmv_raw'] + g['repl']:
        cmd += ['--replace-calls', rp]
    cmd += [gb, gb2]
    res['cmds'].append(' '.join(cmd))
    rc, out, dt = _run(cmd, 120)
    if rc != 0:
        res['status'] = 'error'
        res['reason'] = 'goto-instrument --replace-calls failed (build break): ' + str(out)[-1500:]
        return fin()

    tmo = max(FULL_TIMEOUT, g['qt'] or 0) if thorough else (g['qt'] or QUICK_TIMEOUT)
    backends = g['backends'] if thorough else g['backends'][:1]
    data, tried = None, []
    for be in backends:
        outjson = os.path.join(wd, 'out.json')
        cmd = ['cbmc', gb2, '--json-ui', '--trace'] + BASE + g['flags'] + be
        res['cmds'].append('timeout %d ' % tmo + ' '.join(cmd))
        name = 'cbmc/' + (be[-1].lstrip('-') if be else 'sat')
        with open(outjson, 'wb') as f:
            rc, err, dt = _run(cmd, tmo, stdout=f)
        tried.append('%s %s in %.0f s' % (name, 'timed out' if rc == 'timeout' else 'finished', dt))
        if rc == 'timeout':
            continue
        res['backend'] = name
        try:
            data = json.load(open(outjson))
        except Exception as e:
            res['status'] = 'error'
            res['reason'] = 'cbmc output unparsable (rc=%s): %s %s' % (rc, e, err[-400:])
            return fin()
        break
    if data is None:
        res['status'] = 'undecided'
        res['reason'] = 'no back end finished in %d s (%s)' % (tmo, '; '.join(tried))
        return fin()
    results, msgs = None, []
    for o in data:
        if 'result' in o:
            results = o['result']
        if 'messageText' in o:
            msgs.append(o['messageText'])
    if results is None:
        res['status'] = 'error'
        res['reason'] = 'cbmc gave no result (rc=%s): %s' % (rc, '\n'.join(msgs)[-1200:])
        return fin()
    canaries = fired = 0
    folded = {}
    for r in results:
        sl = r.get('sourceLocation', {})
        desc = r['description']
        if desc.startswith('CANARY'):
            canaries += 1
            fired += r['status'] == 'FAILURE'
            continue
        named = desc.startswith('C16-')
        libassert = desc.startswith('cmb_assert') or desc.startswith('cmb_logger')
        hmodel = desc.startswith('harness ')
        cls = r['property'].split('.')[-2] if r['property'].count('.') >= 2 else 'check'
        if not named and not libassert and not hmodel and r['status'] == 'SUCCESS':
            folded[cls] = folded.get(cls, 0) + 1          # pointer/bounds/... checks: one summary line per class
            continue
        tag = 'C16-' + gid.split('.')[1]
        if not named:
            desc = '%s [%s]: %s' % (tag, 'library assertion' if libassert else ('harness model' if hmodel else 'built-in check'), desc)
        ob = {'name': r['property'], 'desc': desc, 'status': r['status'],
              'file': sl.get('file', ''), 'line': sl.get('line', ''), 'func': sl.get('function', '')}
        res['obligations'].append(ob)
        if r['status'] == 'FAILURE':
            res['status'] = 'failed'
            tr, vars_, raws = extract_trace(r, entry)
            res['traces'][ob['name']] = tr
            if g['native'] is not None:
                try:
                    args = g['native'](vars_, raws)
                    n = nat.run(args, raws)
                    res['native'][ob['name']] = {'reproduced': n['reproduced'], 'output': n['output']}
                    res['cmds'] += [c for c in n.get('cmds', []) if c not in res['cmds']]
                except Exception as e:
                    res['native'][ob['name']] = {'reproduced': False, 'output': 'could not build replay arguments from the trace: %r (vars %r)' % (e, vars_)}
            else:
                res['native'][ob['name']] = {'reproduced': False, 'output': 'no native replay defined for this group'}
        elif r['status'] != 'SUCCESS' and res['status'] == 'ok':
            res['status'] = 'undecided'
            res['reason'] = 'obligation %s has status %s' % (ob['name'], r['status'])
    for cls, n in sorted(folded.items()):
        res['obligations'].append({'name': '%s.%s.*' % (entry, cls), 'desc': 'C16-%s [built-in check]: %d %s checks on the path' % (gid.split('.')[1], n, cls),
                                   'status': 'SUCCESS', 'file': '', 'line': '', 'func': entry})
    if canaries == 1 and fired == 0 and res['status'] == 'failed':
        res['reason'] = 'the end of the entry is not reachable because EVERY path fails an obligation first (assert-then-assume); reachability up to the failing obligation is shown by its counterexample'
    elif canaries != 1 or fired != canaries:
        res['status'] = 'error'
        res['reason'] = 'vacuity guard: %d canaries, %d fired (assumptions contradictory or end of entry not reachable)' % (canaries, fired)
    else:
        res['reason'] = 'reachability canary fired as required' + ('; ' + res['reason'] if res['reason'] else '')
    if len(tried) > 1:
        res['reason'] += '; back ends: ' + '; '.join(tried)
    if res['status'] == 'failed' and res['native']:
        res['cmds'] += [c for c in nat.cmds if c not in res['cmds']]
    return fin()


def main(argv):
    argv = list(argv)
    only, jobs = None, None
    for opt in ('--only', '--jobs'):
        if opt in argv:
            i = argv.index(opt)
            if opt == '--only':
                only = argv[i + 1]
            else:
                jobs = int(argv[i + 1])
            del argv[i:i + 2]
    thorough = '--thorough' in argv
    args = [a for a in argv[1:] if not a.startswith('--')]
    if len(args) < 2:
        print(__doc__, file=sys.stderr)
        return 3
    repo, outdir = os.path.abspath(args[0]), os.path.abspath(args[1])
    os.makedirs(outdir, exist_ok=True)
    t0 = time.time()
    try:
        gen, gencmds = codegen(repo, outdir)
    except Exception as e:
        json.dump({'groups': [{'id': 'C16.codegen', 'status': 'error', 'reason': 'build break: %s' % e, 'seconds': round(time.time() - t0, 1),
                               'backend': 'gcc', 'level': 'proved', 'cmds': [], 'obligations': [], 'traces': {}, 'native': {}}]}, sys.stdout, indent=1)
        print()
        return 2
    nat = Native(repo, outdir, gen)
    specs = [g for g in GROUPS if (not only or only in g['id']) and (thorough or not g['thorough'])
             and ('--experimental' in argv or not g['experimental'])]
    workers = jobs or max(2, min(len(specs) or 1, (os.cpu_count() or 4) - 1))
    groups = []
    with ThreadPoolExecutor(max_workers=workers) as ex:
        futs = [(g, ex.submit(run_group, repo, outdir, gen, g, nat, thorough)) for g in specs]
        for g, f in futs:
            try:
                groups.append(f.result())
            except Exception as e:
                groups.append({'id': g['id'], 'status': 'error', 'reason': 'internal error: %r' % e, 'seconds': 0, 'backend': 'cbmc',
                               'level': g['level'], 'cmds': [], 'obligations': [], 'traces': {}, 'native': {}})
    for g in groups:
        g['cmds'] = gencmds + g['cmds']
    status = 0
    if any(g['status'] != 'ok' for g in groups):
        status = 1
    if any(g['status'] == 'error' and 'build break' in g['reason'] for g in groups):
        status = 2
    json.dump({'groups': groups, 'seconds': round(time.time() - t0, 1), 'repo': repo, 'mode': 'thorough' if thorough else 'quick',
               'not_decidable_here': 'second sentence of C16 (samples follow the stated distribution) is a statistical claim; not attempted'},
              sys.stdout, indent=1)
    print()
    return status


if __name__ == '__main__':
    sys.exit(main(sys.argv))
