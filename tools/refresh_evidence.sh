#!/bin/bash
# Re-run every claimed check (quick tier) on the CLEAN tree and validate the evidence files.
cd /verif || exit 2
if ! git -C /repo diff --quiet; then echo "/repo has uncommitted changes: refusing"; exit 2; fi
./cv manifest >/dev/null
props=$(python3 -c "import json; print(' '.join(c['property_id'] for c in json.load(open('/verif/MANIFEST.json'))['checks']))")
fail=0
for p in $props; do
  out=$(timeout 3000 ./cv check $p --tier quick 2>&1 | grep -v "^WARNING"); rc=$?
  echo "$out" | tail -1
  if echo "$out" | grep -q "^VIOLATION\|^UNDECIDED"; then echo "  !! $p is not quiet"; fail=1; fi
done
python3-vt - <<'P'
import json, jsonschema, glob, sys
m=json.load(open('/verif/MANIFEST.json'))
jsonschema.validate(m, json.load(open('/root/.vp/MANIFEST.schema.json')))
es=json.load(open('/root/.vp/EVIDENCE.schema.json'))
for c in m['checks']:
    e=json.load(open(c['evidence_file'])); jsonschema.validate(e, es)
    if e['level']!=c['level_claimed']['category']: print('LEVEL MISMATCH', c['property_id'], e['level'], c['level_claimed']['category'])
    if e['level']=='proof' and e['coverage']['obligations']!=e['coverage']['discharged']: print('PROOF but undischarged', c['property_id'])
print('evidence validated for', len(m['checks']), 'checks')
P
exit $fail
