#!/bin/bash
# Re-run every seeded change against the checks that are recorded as catching it (seeded/<id>/meta.json:
# detected_by), on a scratch worktree of /repo HEAD.  Prints one line per seeded change.
cd /verif || exit 2
# optional arguments: seeded ids to restrict the run to
list=""; if [ $# -gt 0 ]; then for a in "$@"; do list="$list seeded/$a/"; done; else list=$(echo seeded/C*/); fi
for d in $list; do
  id=$(basename "$d")
  read -r prop only < <(python3 - "$d" <<'P'
import json, re, sys
m = json.load(open(sys.argv[1] + '/meta.json'))
g = re.findall(r'C\d\d\.[A-Za-z0-9_]+(?:\.[A-Za-z0-9_]+)*', m.get('detected_by', ''))
only = g[0] if g else ''
# group ids may carry a trailing variant the text abbreviates (e.g. "C04.O3.guard_wait*"): cut to 3 components
only = '.'.join(only.split('.')[:3]) if only else ''
print(m['breaks_property'], only or '-')
P
)
  if [ "$only" = "-" ]; then echo "$id: no group recorded (detected_by: $(python3 -c "import json;print(json.load(open('$d/meta.json'))['detected_by'][:60])"))"; continue; fi
  out=$(ONLY="$only" tools/try_mutant.sh "/verif/$d/patch.diff" "$prop" 2>&1)
  v=$(echo "$out" | grep -c "^VIOLATION")
  rc=$(echo "$out" | grep -o "rc\[.*\]=[0-9]*" | tail -1)
  echo "$id: prop=$prop only=$only violations=$v $rc $(echo "$out" | grep -m1 'does not apply')"
done
