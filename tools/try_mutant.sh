#!/bin/bash
# usage: tools/try_mutant.sh <patch.diff> <Cxx> [more props...]
# Applies the patch to a SCRATCH worktree of /repo HEAD (never to /repo itself), runs the checks against
# it (CIMBA_REPO), and removes the worktree.  ONLY=<substr> restricts groups, TIER=thorough selects tier.
patch="$1"; shift
wt=$(mktemp -d /tmp/mt.XXXXXX); rmdir "$wt"
git -C /repo worktree add --detach "$wt" HEAD >/dev/null 2>&1 || { echo "worktree failed"; exit 2; }
cd "$wt"
if ! git apply "$patch" 2>/dev/null && ! patch -p1 --fuzz=3 -s < "$patch"; then echo "patch does not apply"; cd /; git -C /repo worktree remove --force "$wt"; exit 2; fi
cd /verif
for p in "$@"; do
  CIMBA_REPO="$wt" ./cv check "$p" --tier ${TIER:-quick} ${ONLY:+--only $ONLY} --no-evidence 2>&1 | grep -v "^WARNING" | cut -c1-400
  echo "rc[$p]=${PIPESTATUS[0]}"
done
cd /; git -C /repo worktree remove --force "$wt"
