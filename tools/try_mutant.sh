#!/bin/bash
# usage: tools/try_mutant.sh <patch.diff> <Cxx> [more props...]   - apply to /repo, run quick checks, revert
patch="$1"; shift
cd /repo || exit 2
if ! git diff --quiet; then echo "/repo is dirty, refusing"; exit 2; fi
if ! git apply "$patch" 2>/dev/null && ! patch -p1 --fuzz=3 -s < "$patch"; then echo "patch does not apply"; git reset -q --hard HEAD; exit 2; fi
git reset -q 2>/dev/null
cd /verif
for p in "$@"; do
  ./cv check "$p" --tier ${TIER:-quick} ${ONLY:+--only $ONLY} 2>&1 | grep -v "^WARNING" | cut -c1-400
  echo "rc[$p]=${PIPESTATUS[0]}"
done
git -C /repo reset -q --hard HEAD; find /repo -name '*.orig' -o -name '*.rej' | xargs -r rm -f; git -C /repo status --short | head -3
