#!/bin/bash
# usage: tools/verify_mutant.sh <mutant-dir with patch.diff, demo.c> <out-log>
# Confirms in a scratch worktree of /repo HEAD: demo passes on the clean tree; with the patch the library
# builds, the existing fast tests pass (random only when touched), and the demo fails.
set -u
md="$1"; tag=$(echo "$md" | tr '/' '_'); wt=/tmp/mv/$tag
mkdir -p /tmp/mv; rm -rf "$wt"; git -C /repo worktree prune
git -C /repo worktree add --detach "$wt" HEAD >/dev/null 2>&1 || { echo "RESULT worktree-failed"; exit 2; }
cd "$wt"
res=""
build() { (meson setup _build >/dev/null 2>&1 || true; meson compile -C _build >/dev/null 2>&1); }
demo() { gcc -O1 -g -I include -I src "$md/demo.c" -o _demo -L _build/src -lcimba -lm -lpthread -Wl,-rpath,$PWD/_build/src 2>_demo.err && timeout 120 ./_demo >_demo.out 2>&1; echo $?; }
build || { echo "RESULT base-build-failed"; }
base=$(demo)
git apply "$md/patch.diff" 2>/dev/null || git apply --3way "$md/patch.diff" 2>/dev/null || { echo "RESULT patch-does-not-apply base_demo=$base"; cd /; git -C /repo worktree remove --force "$wt"; exit 1; }
if meson compile -C _build >/dev/null 2>_build.err; then comp=ok; else comp=FAIL; fi
tests="buffer cimba condition coroutine data event hashheap logger mempool objectqueue priorityqueue process resource resourcepool"
if grep -q "cmb_random\|codegen" "$md/patch.diff"; then tests="$tests random"; fi
if meson test -C _build --no-rebuild $tests >_test.out 2>&1; then t=pass; else t=FAIL; fi
mut=$(demo)
echo "RESULT base_demo=$base compile=$comp tests=$t mutant_demo=$mut"
tail -3 _demo.out | cut -c1-200
cd /; git -C /repo worktree remove --force "$wt"
