#!/usr/bin/env python3
"""keep_mutant.py <id> <property> <srcdir> <patch> <needs> <detected_by> [note]  -> /verif/seeded/<id>/"""
import sys, os, shutil, json
sid, prop, src, patch, needs, det = sys.argv[1:7]
note = sys.argv[7] if len(sys.argv) > 7 else ''
d = os.path.join('/verif/seeded', sid)
os.makedirs(d, exist_ok=True)
shutil.copy(patch, os.path.join(d, 'patch.diff'))
for f in ('demo.c', 'README.md'):
    if os.path.exists(os.path.join(src, f)):
        shutil.copy(os.path.join(src, f), os.path.join(d, f))
json.dump(dict(id=sid, breaks_property=prop, needs_to_manifest=needs,
               origin='independent sub-agent given only the property text and a scratch worktree',
               confirmed='tools/verify_mutant.sh in a scratch worktree of /repo HEAD: demo exits 0 on the clean tree; with the patch the library builds, the 14 fast meson tests pass (random only if touched), demo exits non-zero',
               detected_by=det, note=note), open(os.path.join(d, 'meta.json'), 'w'), indent=1)
print('kept', d)
