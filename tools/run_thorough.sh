#!/bin/bash
# Run the thorough tier of every claimed check once (no evidence rewrite) and report what is not quiet.
cd /verif || exit 2
props=${*:-$(python3 -c "import json; print(' '.join(c['property_id'] for c in json.load(open('/verif/MANIFEST.json'))['checks']))")}
for p in $props; do
  out=$(timeout 7200 ./cv check $p --tier thorough --no-evidence 2>&1 | grep -v "^WARNING"); rc=$?
  echo "$out" | tail -1
  echo "$out" | grep "^VIOLATION\|^UNDECIDED" | cut -c1-250
done
