#!/usr/local/bin/python3-vt
"""
gsym_ext.py - extension of /verif/realarith/gsym.py (which is NOT modified) for functions that
loop over arrays with CONCRETE trip counts (cmb_dataset_ACF with concrete count / lag count).

Added on top of gsym.Executor (everything else still raises gsym.ExtractionBreak):

  * loops: a label may be reached again on one path.  Every conditional jump whose target lies
    at or before the jump itself (a back edge in the -O0 dump: `if (c) goto <body>; else goto <exit>;`)
    must be DECIDED (concretely, or by the path condition); an undecided one is an ExtractionBreak.
    Each label may be visited at most `max_visits` (64) times per function activation and path.
  * arrays: an array object is {'__array__': True, '__len__': n, 0: Val, 1: Val, ...}; a pointer
    into it is Val('ptr', (object id, element index)).  `p + k` needs a concrete k that is a multiple
    of the element size 8 (double).  `*p` / `*p = v` need 0 <= index < len: every access is logged in
    state.accesses, an out-of-range one is logged in state.oob (obligation failure, execution goes
    on: a load yields a fresh symbol `oob_k`, a store is dropped).  A load of a cell that was never
    written is an ExtractionBreak.
  * boolean temporaries: `_1 = a >= b; _2 = ~_1; if (_2 != 0) ...`  (Val kind 'bool', sympy boolean).
  * `cmi_logger_warning (...)`: no effect on the state, recorded in the trace.
  * the global `stderr` (and its GIMPLE temporary `stderr.31_18`) is an opaque pointer.
  * integer casts of concrete integers are reduced into the range of the target type (a wrap is
    noted in the trace); integer `/` and `%` only when both operands are concrete.
  * only the functions that are asked for are parsed out of the dump (parse_functions): the other
    functions of the translation unit use forms that gsym does not know.
"""
import os
import re
import sys

sys.path.insert(0, '/verif/realarith')
import sympy as sp          # noqa: E402
import gsym                 # noqa: E402
from gsym import ExtractionBreak, Val, Outcome, DEREF_RE, VAR_RE, short   # noqa: E402

ELEM = 8
GTEMP_RE = re.compile(r'^[A-Za-z_]\w*\.\d+_\d+$')          # stderr.31_18
OPAQUE_GLOBALS = ('stderr',)
NOOP_CALLS = ('cmi_logger_warning',)
CMP = ('<', '<=', '>', '>=', '==', '!=')
INT_RANGE = {
    'unsigned int': (0, 2 ** 32), 'uint32_t': (0, 2 ** 32), 'unsigned': (0, 2 ** 32),
    'long unsigned int': (0, 2 ** 64), 'uint64_t': (0, 2 ** 64), 'size_t': (0, 2 ** 64),
    'sizetype': (0, 2 ** 64),
    'int': (-2 ** 31, 2 ** 31), 'long int': (-2 ** 63, 2 ** 63), 'int64_t': (-2 ** 63, 2 ** 63),
}


# --------------------------------------------------------------------------- dump slicing
def slice_dump(dump, names, out):
    """Copy the text of the functions `names` from the dump into `out` (a smaller dump)."""
    with open(dump) as fh:
        lines = fh.read().split('\n')
    found, keep, cur = set(), [], None
    for raw in lines:
        if cur is None:
            if raw and not raw[0].isspace() and raw[0] not in '[{}' and raw.rstrip().endswith(')'):
                m = gsym.HDR_RE.match(raw.strip())
                if m:
                    cur = m.group('name')
                    if cur in names:
                        if cur in found:
                            raise ExtractionBreak('duplicate function %s in %s' % (cur, dump))
                        found.add(cur)
                        keep.append(raw)
            continue
        if cur in names:
            keep.append(raw)
        if raw == '}':
            if cur in names:
                keep.extend(['', ''])
            cur = None
    missing = [n for n in names if n not in found]
    if missing:
        raise ExtractionBreak('function(s) %s not found in %s' % (', '.join(missing), dump))
    with open(out, 'w') as fh:
        fh.write('\n'.join(keep) + '\n')
    return out


def parse_functions(dump, names):
    """-> gsym function table holding only `names` (parsed by gsym.parse_dump, unchanged)."""
    out = os.path.splitext(dump)[0] + '.slice.gimple'
    return gsym.load([slice_dump(dump, list(names), out)])


# --------------------------------------------------------------------------- state
class XState(gsym.State):
    def __init__(self):
        gsym.State.__init__(self)
        self.oob = []           # (object, index, len, 'load'|'store', func, line)
        self.accesses = []      # same tuples, every array access
        self.named = {}         # (func, variable) -> last Val stored to a named scalar local
        self.noob = 0

    def fork(self):
        n = XState()
        n.objs = {k: dict(v) for k, v in self.objs.items()}
        n.pc = list(self.pc)
        n.side = list(self.side)
        n.divisors = list(self.divisors)
        n.trace = list(self.trace)
        n.abort = self.abort
        n.nobj = self.nobj
        n.oob = list(self.oob)
        n.accesses = list(self.accesses)
        n.named = dict(self.named)
        n.noob = self.noob
        return n

    def new_array(self, name, cells=None, length=None):
        """cells: list of Val (defined) or None with `length` undefined cells."""
        o = {'__array__': True, '__len__': len(cells) if cells is not None else int(length)}
        for i, v in enumerate(cells or []):
            o[i] = v
        self.objs[name] = o
        return name


def aptr(oid, idx=0):
    return Val('ptr', (oid, int(idx)))


def is_aptr(v):
    return v is not None and v.kind == 'ptr' and isinstance(v.e, tuple)


# --------------------------------------------------------------------------- executor
class XExecutor(gsym.Executor):
    def __init__(self, table, decide=None, max_depth=12, max_paths=4096, max_visits=64):
        gsym.Executor.__init__(self, table, decide, max_depth, max_paths)
        self.max_visits = max_visits

    # -- control flow with bounded label revisits
    def exec_from(self, fn, frame, pc, state):
        stmts = fn.stmts
        if '__visits__' not in frame:
            frame['__visits__'] = {}
        while True:
            if pc >= len(stmts):
                return [Outcome(state, None)]
            st = stmts[pc]
            k = st.kind
            if k == 'label':
                v = frame['__visits__']
                v[st.a] = v.get(st.a, 0) + 1
                if v[st.a] > self.max_visits:
                    self.brk(fn, st, 'label visited more than %d times on one path (loop bound)' % self.max_visits)
                pc += 1
            elif k == 'goto':
                pc = self.target(fn, st, st.a)
            elif k == 'if':
                cond = self.cond(fn, frame, state, st, st.a)
                t, e = self.target(fn, st, st.b), self.target(fn, st, st.c)
                d = self.decide(cond, state)
                if d is True:
                    pc = t
                elif d is False:
                    pc = e
                else:
                    if t <= pc or e <= pc:
                        self.brk(fn, st, 'branch condition on a loop back edge is not decided (%s)' % short(cond))
                    self.npaths += 1
                    if self.npaths > self.max_paths:
                        self.brk(fn, st, 'more than %d paths' % self.max_paths)
                    s2, f2 = state.fork(), dict(frame)
                    f2['__visits__'] = dict(frame['__visits__'])
                    state.pc.append(cond)
                    s2.pc.append(sp.Not(cond))
                    return self.exec_from(fn, frame, t, state) + self.exec_from(fn, f2, e, s2)
            elif k == 'return':
                rv = self.operand(fn, frame, state, st, st.a) if st.a else None
                return [Outcome(state, rv)]
            elif k == 'zero':
                oid = self.local_obj(fn, frame, st, st.a)
                state.objs[oid] = {'__zero__': True}
                state.trace.append([st.a, '{}', fn.name, st.line])
                pc += 1
            elif k == 'clobber':
                oid = self.local_obj(fn, frame, st, st.a)
                state.objs[oid] = {'__dead__': True}
                pc += 1
            elif k == 'assign':
                v = self.rhs(fn, frame, state, st, st.b)
                self.store(fn, frame, state, st, st.a, v)
                pc += 1
            elif k == 'call':
                outs = self.do_call(fn, frame, state, st)
                if outs is None:
                    if state.abort is not None:
                        return [Outcome(state, None)]
                    pc += 1
                    continue
                res = []
                for o in outs:
                    if o.aborted:
                        res.append(o)
                        continue
                    fr = dict(frame)
                    fr['__visits__'] = dict(frame['__visits__'])
                    if st.a is not None:
                        if o.ret is None:
                            self.brk(fn, st, 'value of a void call used')
                        self.store(fn, fr, o.state, st, st.a, o.ret)
                    res.extend(self.exec_from(fn, fr, pc + 1, o.state))
                return res
            else:
                self.brk(fn, st, 'unknown statement kind')

    # -- calls
    def do_call(self, fn, frame, state, st):
        if st.b in NOOP_CALLS:
            if st.a is not None:
                self.brk(fn, st, 'value of the no-effect call %s used' % st.b)
            args = [self.operand(fn, frame, state, st, x) for x in st.c]      # must still be readable
            state.trace.append(['CALL', '%s (%d args): no effect on the state' % (st.b, len(args)), fn.name, st.line])
            return None
        return gsym.Executor.do_call(self, fn, frame, state, st)

    # -- expressions
    def compare(self, fn, st, op, a, b):
        if a.kind == 'bool' or b.kind == 'bool':
            if a.kind == 'bool' and b.kind == 'int' and b.e == 0 and op in ('!=', '=='):
                return a.e if op == '!=' else sp.Not(a.e)
            self.brk(fn, st, 'comparison form on a boolean temporary')
        if is_aptr(a) or is_aptr(b):
            if a.kind != 'ptr' or b.kind != 'ptr' or op not in ('==', '!='):
                self.brk(fn, st, 'pointer comparison form')
        return gsym.Executor.compare(self, fn, st, op, a, b)

    def rhs(self, fn, frame, state, st, text):
        m = re.match(r'^~(\S+)$', text)
        if m:
            a = self.operand(fn, frame, state, st, m.group(1))
            if a.kind != 'bool':
                self.brk(fn, st, 'bitwise complement of a non-boolean')
            return Val('bool', sp.Not(a.e))
        parts = text.split(' ')
        if len(parts) == 3 and parts[1] == '%':
            a = self.operand(fn, frame, state, st, parts[0])
            b = self.operand(fn, frame, state, st, parts[2])
            return self.binop(fn, state, st, '%', a, b)
        return gsym.Executor.rhs(self, fn, frame, state, st, text)

    def cast(self, fn, st, typ, v):
        t = typ.replace('const ', '').strip()
        if t in INT_RANGE and v.kind == 'int' and v.e.is_Integer:
            lo, hi = INT_RANGE[t]
            n = int(v.e)
            return Val('int', sp.Integer((n - lo) % (hi - lo) + lo))
        if v.kind == 'bool':
            self.brk(fn, st, 'cast of a boolean temporary to (%s)' % typ)
        if is_aptr(v) and not t.endswith('*'):
            self.brk(fn, st, 'cast of an array pointer to (%s)' % typ)
        return gsym.Executor.cast(self, fn, st, typ, v)

    def binop(self, fn, state, st, op, a, b):
        if op in CMP:
            if a.kind in ('int', 'real', 'zero') and b.kind in ('int', 'real', 'zero'):
                return Val('bool', gsym.Executor.compare(self, fn, st, op, a, b))
            self.brk(fn, st, 'comparison as a value on %s and %s' % (a.kind, b.kind))
        if is_aptr(a):
            if op != '+' or b.kind != 'int' or not b.e.is_Integer:
                self.brk(fn, st, 'pointer arithmetic needs `ptr + concrete integer`')
            off = int(b.e)
            if off % ELEM:
                self.brk(fn, st, 'pointer offset %d is not a multiple of the element size %d' % (off, ELEM))
            return Val('ptr', (a.e[0], a.e[1] + off // ELEM))
        if is_aptr(b) or a.kind == 'bool' or b.kind == 'bool':
            self.brk(fn, st, 'arithmetic on %s and %s' % (a.kind, b.kind))
        if op in ('/', '%') and a.kind == 'int' and b.kind == 'int':
            if not (a.e.is_Integer and b.e.is_Integer):
                self.brk(fn, st, 'integer division / modulo of non-concrete operands')
            x, y = int(a.e), int(b.e)
            if y == 0:
                self.brk(fn, st, 'integer division by zero')
            q = abs(x) // abs(y)
            if (x < 0) != (y < 0):
                q = -q                      # C: truncation towards zero
            return Val('int', sp.Integer(q if op == '/' else x - q * y))
        if op == '%':
            self.brk(fn, st, 'modulo on %s and %s' % (a.kind, b.kind))
        return gsym.Executor.binop(self, fn, state, st, op, a, b)

    def operand(self, fn, frame, state, st, text):
        text = text.strip()
        if GTEMP_RE.match(text):
            if text in frame:
                return frame[text]
            self.brk(fn, st, 'read of unassigned temporary %s' % text)
        if text in OPAQUE_GLOBALS and text not in frame and ('&' + text) not in frame:
            return Val('ptr', 'GLOBAL:' + text)
        m = DEREF_RE.match(text)
        if m and is_aptr(frame.get(m.group('base'))):
            return self.arr_load(fn, state, st, frame[m.group('base')])
        return gsym.Executor.operand(self, fn, frame, state, st, text)

    def store(self, fn, frame, state, st, lhs, v):
        if GTEMP_RE.match(lhs):
            if v.kind == 'obj':
                self.brk(fn, st, 'aggregate assigned to a scalar')
            frame[lhs] = v
            return
        m = DEREF_RE.match(lhs)
        if m and is_aptr(frame.get(m.group('base'))):
            self.arr_store(fn, state, st, frame[m.group('base')], v, lhs)
            return
        gsym.Executor.store(self, fn, frame, state, st, lhs, v)
        if VAR_RE.match(lhs) and not lhs.startswith('_') and lhs in frame:
            state.named[(fn.name, lhs)] = frame[lhs]

    # -- arrays
    def arr_obj(self, fn, state, st, p):
        o = state.objs.get(p.e[0])
        if o is None or '__array__' not in o:
            self.brk(fn, st, 'pointer into unknown array object %s' % (p.e[0],))
        return o

    def arr_load(self, fn, state, st, p):
        o = self.arr_obj(fn, state, st, p)
        oid, i = p.e
        rec = (oid, i, o['__len__'], 'load', fn.name, st.line)
        state.accesses.append(rec)
        if not (0 <= i < o['__len__']):
            state.oob.append(rec)
            state.noob += 1
            state.trace.append(['OOB', 'load %s[%d], length %d' % (oid, i, o['__len__']), fn.name, st.line])
            return Val('real', sp.Symbol('oob_%d' % state.noob, real=True))
        if i not in o:
            self.brk(fn, st, 'read of uninitialised array cell %s[%d]' % (oid, i))
        return o[i]

    def arr_store(self, fn, state, st, p, v, lhs):
        o = self.arr_obj(fn, state, st, p)
        oid, i = p.e
        if v.kind not in ('real', 'int', 'zero'):
            self.brk(fn, st, 'store of a %s into an array of double' % v.kind)
        rec = (oid, i, o['__len__'], 'store', fn.name, st.line)
        state.accesses.append(rec)
        if not (0 <= i < o['__len__']):
            state.oob.append(rec)
            state.trace.append(['OOB', 'store %s[%d], length %d' % (oid, i, o['__len__']), fn.name, st.line])
            return
        o[i] = Val('real', v.e if v.kind != 'zero' else sp.Integer(0))
        state.trace.append(['%s[%d]' % (oid.split('#')[0], i), short(o[i].e), fn.name, st.line])
