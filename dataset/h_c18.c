/*
 * h_c18.c - CBMC harness for property C18 (sorting, medians, quartiles, histograms respect their
 * definitions) and the last step of C14 (cmb_timeseries_add / cmb_timeseries_summarize).
 *
 * The verified text is the working-tree src/cmb_dataset.c and src/cmb_timeseries.c (#included below,
 * after the shared prologue /verif/harness/cmv_common.h that turns every cmb_assert_* site into a
 * named proof obligation).  Sizes are compile-time constants: -DN=<samples> -DCAP=<capacity>
 * -DNB=<bins>.  One entry point = one obligation group (run.py: --function <entry>).
 *
 * What is substituted (nothing else):
 *   malloc/calloc never return NULL (cmv_common.h); realloc = new block + element-wise copy + free;
 *   memcpy = element-wise copy of doubles (every memcpy in the two files copies a double array;
 *            the model asserts the size is a multiple of 8 and every element read/written is checked
 *            by CBMC's pointer checks, so an over-long copy is still found);
 *   fprintf  = no output; the 12-argument call (the two five-number summaries) records its five
 *            doubles in c18_five[]; fputc returns its character;
 *   cmb_datasummary_/cmb_wtdsummary_ initialize/add = recorders (they belong to property C17): the
 *            obligation on cmb_timeseries_summarize is the exact sequence of (x, w) pairs handed over;
 *   -DC18_NDEBUG: cmb_assert_debug compiled out exactly as the library's own NDEBUG build does
 *            (`do { (void)sizeof(x); } while (0)`), used where the debug helper
 *            cmi_dataset_is_max_heap (BFS with its own malloc inside an assertion) is too expensive.
 *   cmi_dataset_histogram_print is replaced by c18_hist_observer (goto-instrument --replace-calls)
 *            in the h_hist_auto* entries only: the obligations are checked on the histogram object the
 *            real code is about to print.
 */
#include "cmv_common.h"

/* ---- element-wise realloc / memcpy models (arrays of double only) ---- */
#undef realloc
static inline void *c18_realloc(void *q, size_t n)
{
    void *p = malloc(n);
    __CPROVER_assert(n % 8u == 0u, "harness realloc model: size is a multiple of 8");
    if (q != NULL) {
        const size_t old = __CPROVER_OBJECT_SIZE(q);
        const size_t m = old < n ? old : n;
        for (size_t i = 0; i < m / 8u; i++) ((double *)p)[i] = ((const double *)q)[i];
        free(q);
    }
    return p;
}
#define realloc(q, n) c18_realloc(q, n)

static inline void *c18_memcpy(void *d, const void *s, size_t n)
{
    __CPROVER_assert(n % 8u == 0u, "harness memcpy model: size is a multiple of 8");
    for (size_t i = 0; i < n / 8u; i++) ((double *)d)[i] = ((const double *)s)[i];
    return d;
}
#define memcpy(d, s, n) c18_memcpy(d, s, n)

/* ---- output capture ---- */
static double c18_five[5];
static unsigned c18_five_calls;
static inline int c18_fprintf_any(FILE *fp, const char *fmt, ...) { (void)fp; (void)fmt; return 1; }
static inline int c18_fprintf_five(FILE *fp, const char *fmt, const char *s1, double d1, const char *s2, double d2,
                                   const char *s3, double d3, const char *s4, double d4, const char *s5, double d5)
{
    (void)fp; (void)fmt; (void)s1; (void)s2; (void)s3; (void)s4; (void)s5;
    c18_five[0] = d1; c18_five[1] = d2; c18_five[2] = d3; c18_five[3] = d4; c18_five[4] = d5;
    c18_five_calls++;
    return 1;
}
#define C18_NARG_(_1, _2, _3, _4, _5, _6, _7, _8, _9, _10, _11, _12, K, ...) K
#define C18_NARG(...) C18_NARG_(__VA_ARGS__, five, any, any, any, any, any, any, any, any, any, any, any)
#define C18_CAT_(a, b) a##b
#define C18_CAT(a, b) C18_CAT_(a, b)
#define fprintf(...) C18_CAT(c18_fprintf_, C18_NARG(__VA_ARGS__))(__VA_ARGS__)
#define fputc(c, fp) ((void)(fp), (int)(c))

#ifdef C18_NDEBUG
#undef cmb_assert_debug
#undef cmb_assert
#define cmb_assert_debug(x) do { (void)sizeof(x); } while (0)
#define cmb_assert(x) cmb_assert_debug(x)
#endif

#include "src/cmb_dataset.c"
#include "src/cmb_timeseries.c"

#ifndef N
#define N 3
#endif
#ifndef CAP
#define CAP N
#endif
#ifndef NB
#define NB 2
#endif
#ifndef XBOUND
#define XBOUND 1e300          /* |sample| bound where the obligation is about values (see NOTES.md) */
#endif

/* ---- recorders for the summary layer (property C17 owns its arithmetic) ---- */
#define C18_LOG 8
static unsigned c18_ws_inits, c18_ws_adds;
static double c18_ws_x[C18_LOG], c18_ws_w[C18_LOG];
void cmb_wtdsummary_initialize(struct cmb_wtdsummary *wsp) { wsp->ds.cookie = CMI_INITIALIZED; wsp->ds.count = 0u; c18_ws_inits++; c18_ws_adds = 0u; }
uint64_t cmb_wtdsummary_add(struct cmb_wtdsummary *wsp, double x, double w)
{
    __CPROVER_assert(c18_ws_adds < C18_LOG, "harness: recorder capacity");
    c18_ws_x[c18_ws_adds] = x; c18_ws_w[c18_ws_adds] = w; c18_ws_adds++;
    return ++wsp->ds.count;
}
static unsigned c18_ds_inits, c18_ds_adds;
static double c18_ds_x[C18_LOG];
void cmb_datasummary_initialize(struct cmb_datasummary *dsp) { dsp->cookie = CMI_INITIALIZED; dsp->count = 0u; c18_ds_inits++; c18_ds_adds = 0u; }
uint64_t cmb_datasummary_add(struct cmb_datasummary *dsp, double y)
{
    __CPROVER_assert(c18_ds_adds < C18_LOG, "harness: recorder capacity");
    c18_ds_x[c18_ds_adds] = y; c18_ds_adds++;
    return ++dsp->count;
}

/* ---- states ---- */
static char c18_file_object[8];
#define C18_FP ((FILE *)(void *)c18_file_object)

static double nn_double(void) { double d = nondet_double(); ASSUME(d == d); return d; }
static double bounded_double(void) { double d = nondet_double(); ASSUME(d >= -XBOUND && d <= XBOUND); return d; }
static double small_int_double(void) { uint8_t k = nondet_u8(); return (double)k; }
#ifdef C18_WIDE     /* multiples of 2^26 up to +-2^33: ranges on both sides of 2^32 with few variable bits */
static double int8_double(void) { int k = nondet_u8(); return (double)(k - 128) * 67108864.0; }
#else
static double int8_double(void) { int k = nondet_u8(); return (double)(k - 128); }
#endif
#if (defined(C18_SMALLVALS) || defined(C18_WIDE)) && !defined(C18_FULLVALS)
#define C18_VALMODE 2
#else
#define C18_VALMODE 1
#endif

/* an arbitrary well-formed dataset: n samples, capacity cap >= n, min/max = extremes of the samples,
 * cookie/empty values from the REAL initialiser */
static void mk_dataset(struct cmb_dataset *ds, unsigned n, unsigned cap, int bounded)
{
    cmb_dataset_initialize(ds);
    if (cap > 0u) {
        ds->xa = malloc(cap * sizeof(double));
        ds->cursize = cap;
    }
    for (unsigned i = 0; i < N + 1; i++) {
        if (i < n) {
            const double x = (bounded == 2) ? int8_double() : bounded ? bounded_double() : nn_double();
            ds->xa[i] = x;
            if (x < ds->min) ds->min = x;
            if (x > ds->max) ds->max = x;
        }
    }
    ds->count = n;
}

/* an arbitrary well-formed time series: n samples, capacity cap, non-decreasing times, weight i =
 * t[i+1] - t[i], last weight 0.  intw: durations are small integers (exact sums in the obligations) */
static void mk_timeseries(struct cmb_timeseries *ts, unsigned n, unsigned cap, int bounded, int intw)
{
    cmb_timeseries_initialize(ts);
    mk_dataset(&ts->ds, n, cap, bounded);
    if (cap > 0u) {
        ts->ta = malloc(cap * sizeof(double));
        ts->wa = malloc(cap * sizeof(double));
    }
    if (intw) {
        double t = small_int_double();
        for (unsigned i = 0; i < N + 1; i++) {
            if (i < n) {
                const double w = (i + 1u < n) ? small_int_double() : 0.0;
                ts->ta[i] = t; ts->wa[i] = w; t += w;
            }
        }
    }
    else {
        for (unsigned i = 0; i < N + 1; i++) {
            if (i < n) {
                ts->ta[i] = bounded_double();
                ts->wa[i] = 0.0;
                if (i > 0u) {
                    ASSUME(ts->ta[i - 1u] <= ts->ta[i]);
                    ts->wa[i - 1u] = ts->ta[i] - ts->ta[i - 1u];
                }
            }
        }
    }
}

static unsigned occurrences(const double *a, unsigned n, double g)
{
    unsigned c = 0;
    for (unsigned i = 0; i < N + 1; i++) if (i < n && a[i] == g) c++;
    return c;
}
static unsigned occurrences3(const double *a, const double *b, const double *c3, unsigned n, double ga, double gb, double gc)
{
    unsigned c = 0;
    for (unsigned i = 0; i < N + 1; i++) if (i < n && a[i] == ga && b[i] == gb && c3[i] == gc) c++;
    return c;
}

/* ======================================================================= O1 sort */
void h_sort(void)
{
    struct cmb_dataset ds;
    mk_dataset(&ds, N, CAP, 0);
    const double g = nn_double();
    const unsigned before = occurrences(ds.xa, N, g);
    double *const xa0 = ds.xa;
    const double min0 = ds.min, max0 = ds.max;

    cmb_dataset_sort(&ds);

    for (unsigned i = 0; i + 1u < N; i++)
        OBT("C18-O1", ds.xa[i] <= ds.xa[i + 1u], "after cmb_dataset_sort the samples are in ascending order");
    OBT("C18-O1", occurrences(ds.xa, N, g) == before, "cmb_dataset_sort keeps the multiset: an arbitrary value occurs equally often before and after");
    OBT("C18-O1", ds.count == N && ds.cursize == CAP && ds.xa == xa0 && ds.min == min0 && ds.max == max0 && ds.cookie == CMI_INITIALIZED,
        "cmb_dataset_sort leaves count, capacity, min, max, cookie and the array pointer alone");
    CANARY("h_sort");
}

void h_ts_sort(void)
{
    struct cmb_timeseries ts;
    /* arbitrary triples: values and weights any non-NaN doubles, times non-decreasing (the sort functions
     * do not rely on weight = time difference, so that relation is not imposed here) */
    cmb_timeseries_initialize(&ts);
    mk_dataset(&ts.ds, N, CAP, 0);
    ts.ta = malloc(CAP * sizeof(double));
    ts.wa = malloc(CAP * sizeof(double));
    for (unsigned i = 0; i < N; i++) { ts.ta[i] = nn_double(); ts.wa[i] = nn_double(); if (i > 0) ASSUME(ts.ta[i - 1] <= ts.ta[i]); }
    double x0[N], t0[N], w0[N];
    _Bool strict = 1;
    for (unsigned i = 0; i < N; i++) { x0[i] = ts.ds.xa[i]; t0[i] = ts.ta[i]; w0[i] = ts.wa[i]; if (i > 0 && !(t0[i - 1] < t0[i])) strict = 0; }
    const double gx = nn_double(), gt = nn_double(), gw = nn_double();
    const unsigned before = occurrences3(x0, t0, w0, N, gx, gt, gw);

    cmb_timeseries_sort_x(&ts);

    for (unsigned i = 0; i + 1u < N; i++)
        OBT("C18-O1", ts.ds.xa[i] <= ts.ds.xa[i + 1u], "after cmb_timeseries_sort_x the samples are in ascending order of value");
    OBT("C18-O1", occurrences3(ts.ds.xa, ts.ta, ts.wa, N, gx, gt, gw) == before,
        "cmb_timeseries_sort_x keeps every (x, t, w) triple together: an arbitrary triple occurs equally often before and after");
    OBT("C18-O1", ts.ds.count == N && ts.ds.cursize == CAP, "cmb_timeseries_sort_x leaves count and capacity alone");

    cmb_timeseries_sort_t(&ts);

    for (unsigned i = 0; i + 1u < N; i++)
        OBT("C18-O1", ts.ta[i] <= ts.ta[i + 1u], "after cmb_timeseries_sort_t the samples are in ascending order of time");
    OBT("C18-O1", occurrences3(ts.ds.xa, ts.ta, ts.wa, N, gx, gt, gw) == before,
        "cmb_timeseries_sort_t keeps every (x, t, w) triple together");
    for (unsigned i = 0; i < N; i++)
        OBT("C18-O1", !strict || (ts.ds.xa[i] == x0[i] && ts.ta[i] == t0[i] && ts.wa[i] == w0[i]),
            "sort_x followed by sort_t restores the original sequence when the time stamps are distinct");
    CANARY("h_ts_sort");
}

/* ======================================================================= O2 copy */
void h_copy_ds(void)
{
    struct cmb_dataset src, tgt = { 0 };
    mk_dataset(&src, N, CAP, 0);
#ifdef C18_TGT_USED
    mk_dataset(&tgt, 1, 2, 0);          /* a target that already owns an array */
#endif
    const uint64_t i = nondet_u64();
    ASSUME(i < N);
    double *const sxa = src.xa;
    const double si = src.xa[i];

    const uint64_t r = cmb_dataset_copy(&tgt, &src);

    OBT("C18-O2", r == N && tgt.count == src.count, "cmb_dataset_copy: count equal (and returned)");
    OBT("C18-O2", tgt.min == src.min && tgt.max == src.max, "cmb_dataset_copy: min and max equal");
    OBT("C18-O2", tgt.cookie == CMI_INITIALIZED, "cmb_dataset_copy: the copy is an initialised dataset");
    OBT("C18-O2", tgt.xa != NULL && tgt.xa != src.xa, "cmb_dataset_copy: the copy owns its own array");
    OBT("C18-O2", tgt.xa[i] == si, "cmb_dataset_copy: element i equal for arbitrary i < count");
    OBT("C18-O2", tgt.count <= tgt.cursize && __CPROVER_OBJECT_SIZE(tgt.xa) >= tgt.cursize * sizeof(double),
        "cmb_dataset_copy: the copy is well-formed, count <= cursize <= allocated length of xa");
    OBT("C18-O2", src.count == N && src.cursize == CAP && src.xa == sxa && src.xa[i] == si, "cmb_dataset_copy: the source is unchanged");
    CANARY("h_copy_ds");
}

static void ts_wellformed_obligations(const struct cmb_timeseries *t)
{
    OBT("C18-O2", t->ds.count <= t->ds.cursize, "well-formed time series: count <= cursize");
    OBT("C18-O2", t->ds.xa != NULL && __CPROVER_OBJECT_SIZE(t->ds.xa) >= t->ds.cursize * sizeof(double),
        "well-formed time series: xa holds at least cursize samples");
    OBT("C18-O2", t->ta != NULL && __CPROVER_OBJECT_SIZE(t->ta) >= t->ds.cursize * sizeof(double),
        "well-formed time series: ta holds at least cursize time stamps (same length as xa)");
    OBT("C18-O2", t->wa != NULL && __CPROVER_OBJECT_SIZE(t->wa) >= t->ds.cursize * sizeof(double),
        "well-formed time series: wa holds at least cursize weights (same length as xa)");
}

void h_copy_ts(void)
{
    struct cmb_timeseries src, tgt = { 0 };
    mk_timeseries(&src, N, CAP, 1, 0);
    const uint64_t i = nondet_u64();
    ASSUME(i < N);
    const double sx = src.ds.xa[i], st = src.ta[i], sw = src.wa[i];

    const uint64_t r = cmb_timeseries_copy(&tgt, &src);

    OBT("C18-O2", r == N && tgt.ds.count == src.ds.count, "cmb_timeseries_copy: count equal (and returned)");
    OBT("C18-O2", tgt.ds.min == src.ds.min && tgt.ds.max == src.ds.max, "cmb_timeseries_copy: min and max equal");
    OBT("C18-O2", tgt.ds.xa[i] == sx && tgt.ta[i] == st && tgt.wa[i] == sw, "cmb_timeseries_copy: sample i keeps its value, time and weight for arbitrary i < count");
    OBT("C18-O2", tgt.ds.xa != src.ds.xa && tgt.ta != src.ta && tgt.wa != src.wa, "cmb_timeseries_copy: the copy owns its own arrays");
    ts_wellformed_obligations(&tgt);
    OBT("C18-O2", src.ds.count == N && src.ds.xa[i] == sx && src.ta[i] == st && src.wa[i] == sw, "cmb_timeseries_copy: the source is unchanged");
    CANARY("h_copy_ts");
}

/* the consequence of an ill-formed copy, on the real code: copy, then add one sample to the copy */
void h_copy_ts_then_add(void)
{
    struct cmb_timeseries src, tgt = { 0 };
    mk_timeseries(&src, N, CAP, 1, 0);
    (void)cmb_timeseries_copy(&tgt, &src);
    const double x = bounded_double(), t = bounded_double();
    ASSUME(t >= tgt.ta[N - 1]);
    const uint64_t r = cmb_timeseries_add(&tgt, x, t);      /* pointer checks of the real stores */
    OBT("C18-O2", r == N + 1u && tgt.ds.xa[N] == x && tgt.ta[N] == t && tgt.wa[N] == 0.0, "a sample added to a copy is stored in the copy");
    CANARY("h_copy_ts_then_add");
}

/* ======================================================================= O3 medians */
static void true_median_obligations(const double *v, unsigned n, double r)
{
    unsigned below = 0, above = 0;
    for (unsigned i = 0; i < N + 1; i++) if (i < n) { if (v[i] < r) below++; if (v[i] > r) above++; }
    OBT("C18-O3", 2u * below <= n, "median: at most half of the samples lie strictly below it");
    OBT("C18-O3", 2u * above <= n, "median: at most half of the samples lie strictly above it");
}

void h_array_median(void)       /* the static helper, on a sorted array */
{
    double v[N];
    for (unsigned i = 0; i < N; i++) { v[i] = bounded_double(); if (i > 0) ASSUME(v[i - 1] <= v[i]); }
    const double r = data_array_median(N, v);
    true_median_obligations(v, N, r);
    OBT("C18-O3", v[0] <= r && r <= v[N - 1], "median: inside the data range");
    CANARY("h_array_median");
}

void h_ds_median(void)          /* the public function: copy, sort, median, on unsorted data */
{
    struct cmb_dataset ds;
    mk_dataset(&ds, N, CAP, 1);
    double v[N];
    for (unsigned i = 0; i < N; i++) v[i] = ds.xa[i];
    const double r = cmb_dataset_median(&ds);
    true_median_obligations(v, N, r);
    OBT("C18-O3", ds.min <= r && r <= ds.max, "median: inside the data range [min, max]");
    for (unsigned i = 0; i < N; i++) OBT("C18-O3", ds.xa[i] == v[i], "cmb_dataset_median leaves the dataset itself unsorted and unchanged");
    CANARY("h_ds_median");
}

static void five_obligations(const double *v, unsigned n, double mn, double mx)
{
    OBT("C18-O3", c18_five_calls == 1u, "five-number summary: exactly one line is printed");
    OBT("C18-O3", c18_five[0] == mn && c18_five[4] == mx, "five-number summary: first and last number are the minimum and maximum of the data");
    OBT("C18-O3", c18_five[0] <= c18_five[1], "five-number summary: min <= Q1");
    OBT("C18-O3", c18_five[1] <= c18_five[2], "five-number summary: Q1 <= median");
    OBT("C18-O3", c18_five[2] <= c18_five[3], "five-number summary: median <= Q3");
    OBT("C18-O3", c18_five[3] <= c18_five[4], "five-number summary: Q3 <= max");
    (void)v; (void)n;
}

void h_ds_fivenum(void)
{
    struct cmb_dataset ds;
    mk_dataset(&ds, N, CAP, 1);
    double v[N];
    for (unsigned i = 0; i < N; i++) v[i] = ds.xa[i];
    cmb_dataset_fivenum_print(&ds, C18_FP, nondet_bool());      /* every index of the real code: CBMC pointer checks */
    five_obligations(v, N, ds.min, ds.max);
    true_median_obligations(v, N, c18_five[2]);
    CANARY("h_ds_fivenum");
}

/* weighted (by duration) median of a time series; durations are small integers, so the sums below are exact */
static void weighted_median_obligations(const double *x, const double *w, unsigned n, double r, const char *what)
{
    double W = 0.0, below = 0.0, above = 0.0;
    for (unsigned i = 0; i < N + 1; i++) if (i < n) { W += w[i]; if (x[i] < r) below += w[i]; if (x[i] > r) above += w[i]; }
    (void)what;
    OBT("C18-O3", 2.0 * below <= W, "weighted median: at most half of the total duration lies strictly below it");
    OBT("C18-O3", 2.0 * above <= W, "weighted median: at most half of the total duration lies strictly above it");
}

static void ts_case_assumptions(const struct cmb_timeseries *ts)
{
#ifdef C18_CASE_INTERVAL
    /* the value class with the smallest x holds at most half of the total duration, which is positive,
     * and the samples are distinct: the code does select an interpolation interval */
    double W = 0.0, wmin = 0.0;
    for (unsigned i = 0; i < N; i++) { W += ts->wa[i]; if (ts->ds.xa[i] == ts->ds.min) wmin += ts->wa[i]; }
    ASSUME(W > 0.0 && 2.0 * wmin <= W);
#endif
#ifdef C18_CASE_FIRSTHEAVY
    double W = 0.0, wmin = 0.0;
    for (unsigned i = 0; i < N; i++) { W += ts->wa[i]; if (ts->ds.xa[i] == ts->ds.min) wmin += ts->wa[i]; }
    ASSUME(2.0 * wmin > W);
#endif
    (void)ts;
}

void h_ts_median(void)
{
    struct cmb_timeseries ts;
    mk_timeseries(&ts, N, CAP, C18_VALMODE, 1);
    ts_case_assumptions(&ts);
    double x[N], w[N];
    for (unsigned i = 0; i < N; i++) { x[i] = ts.ds.xa[i]; w[i] = ts.wa[i]; }
    const double r = cmb_timeseries_median(&ts);
    weighted_median_obligations(x, w, N, r, "median");
    OBT("C18-O3", ts.ds.min <= r && r <= ts.ds.max, "weighted median: inside the data range [min, max]");
    for (unsigned i = 0; i < N; i++) OBT("C18-O3", ts.ds.xa[i] == x[i] && ts.wa[i] == w[i], "cmb_timeseries_median leaves the series itself unchanged");
    CANARY("h_ts_median");
}

void h_ts_fivenum(void)
{
    struct cmb_timeseries ts;
    mk_timeseries(&ts, N, CAP, C18_VALMODE, 1);
    ts_case_assumptions(&ts);
    double x[N], w[N];
    for (unsigned i = 0; i < N; i++) { x[i] = ts.ds.xa[i]; w[i] = ts.wa[i]; }
    cmb_timeseries_fivenum_print(&ts, C18_FP, nondet_bool());
    five_obligations(x, N, ts.ds.min, ts.ds.max);
    weighted_median_obligations(x, w, N, c18_five[2], "median");
    CANARY("h_ts_fivenum");
}

/* ======================================================================= O4 histograms */
/* values for the histogram entries: -DC18_SMALLVALS = integers -128..127 (the float divider then has few
 * variable bits and the queries finish); default = every non-NaN / bounded double (thorough tier) */
#ifdef C18_SMALLVALS
static double hist_value(void) { return int8_double(); }
static double hist_limit(void) { return int8_double(); }
#else
static double hist_value(void) { return nn_double(); }
static double hist_limit(void) { return bounded_double(); }
#endif
static void hist_obligations(const struct cmi_dataset_histogram *hp, unsigned nbins_inner, double total, double n_below, double n_above)
{
    OBT("C18-O4", hp->num_bins == nbins_inner + 2u && __CPROVER_OBJECT_SIZE(hp->hbins) == (nbins_inner + 2u) * sizeof(double),
        "histogram: requested bins plus the two overflow bins are allocated");
    double sum = 0.0, mx = 0.0;
    for (unsigned b = 0; b < NB + 2; b++) if (b < hp->num_bins) { sum += hp->hbins[b]; if (hp->hbins[b] > mx) mx = hp->hbins[b]; }
    OBT("C18-O4", sum == total, "histogram: the bins add up to the number of samples (total weight): every sample is counted exactly once");
    OBT("C18-O4", hp->hbins[0] == n_below, "histogram: the lower overflow bin holds exactly the samples below the range");
    OBT("C18-O4", hp->hbins[hp->num_bins - 1u] >= n_above, "histogram: samples above the range are in the upper overflow bin");
    OBT("C18-O4", hp->binmax == mx, "histogram: binmax is the largest bin");
}

void h_hist_fill(void)          /* create + fill, explicit range as the public wrapper passes it on */
{
    double xa[N];
    const double lo = hist_limit(), hi = hist_limit();
    ASSUME(lo < hi);
    ASSUME(NB == 1 || hi - lo > (double)(NB - 1));      /* NB <= ceil(hi - lo): established by cmb_dataset_histogram_print */
    double below = 0.0, above = 0.0;
    for (unsigned i = 0; i < N; i++) { xa[i] = hist_value(); if (xa[i] < lo) below += 1.0; if (xa[i] > hi) above += 1.0; }
    struct cmi_dataset_histogram *hp = cmi_dataset_histogram_create(NB, lo, hi);
    cmi_dataset_histogram_fill(hp, N, xa);              /* bin index: CBMC bounds/pointer/conversion checks */
    hist_obligations(hp, NB, (double)N, below, above);
    CANARY("h_hist_fill");
}

void h_ts_hist_fill(void)       /* weighted fill: sample i counts with its duration; the last one has none */
{
    double xa[N], wa[N];
    const double lo = hist_limit(), hi = hist_limit();
    ASSUME(lo < hi);
    ASSUME(NB == 1 || hi - lo > (double)(NB - 1));
    double below = 0.0, above = 0.0, total = 0.0;
    for (unsigned i = 0; i < N; i++) {
        xa[i] = hist_value();
        wa[i] = (i + 1u < N) ? small_int_double() : 0.0;
        total += wa[i];
        if (xa[i] < lo) below += wa[i];
        if (xa[i] > hi) above += wa[i];
    }
    struct cmi_dataset_histogram *hp = cmi_dataset_histogram_create(NB, lo, hi);
    timeseries_histogram_fill(hp, N, xa, wa);
    hist_obligations(hp, NB, total, below, above);
    CANARY("h_ts_hist_fill");
}

/* observer that replaces cmi_dataset_histogram_print (goto-instrument --replace-calls) */
static double c18_obs_total, c18_obs_below, c18_obs_above;
static unsigned c18_obs_calls;
void c18_hist_observer(const struct cmi_dataset_histogram *hp, FILE *fp)
{
    (void)fp;
    c18_obs_calls++;
    OBT("C18-O4", hp->num_bins >= 3u && hp->num_bins <= NB + 2u, "histogram (auto-scale): between 1 and the requested number of bins");
    double sum = 0.0;
    for (unsigned b = 0; b < NB + 2; b++) if (b < hp->num_bins) sum += hp->hbins[b];
    OBT("C18-O4", sum == c18_obs_total, "histogram (auto-scale): the bins add up to the number of samples: every sample is counted exactly once");
    OBT("C18-O4", hp->hbins[0] == c18_obs_below && hp->hbins[hp->num_bins - 1u] >= c18_obs_above, "histogram (auto-scale): overflow bins hold the out-of-range samples");
    OBT("C18-O4", hp->binsize > 0.0 || hp->low_lim == hp->high_lim, "histogram (auto-scale): the bin width is positive unless the limits coincide (constant data; the division by it is then a built-in check)");
}

void h_hist_auto(void)          /* the public function, low_lim == high_lim: range taken from the data */
{
    struct cmb_dataset ds;
    mk_dataset(&ds, N, CAP, C18_VALMODE);
#if defined(C18_CONST_DATA)
    ASSUME(ds.min == ds.max);
#elif defined(C18_WIDE)
    ASSUME(ds.min < ds.max);
#else
    ASSUME(ds.min < ds.max && ds.max - ds.min <= 1e9);
#endif
    const double lim = bounded_double();
    c18_obs_total = (double)N; c18_obs_below = 0.0; c18_obs_above = 0.0;
    cmb_dataset_histogram_print(&ds, C18_FP, NB, lim, lim);
    OBT("C18-O4", c18_obs_calls == 1u, "histogram (auto-scale): one histogram is produced");
    CANARY("h_hist_auto");
}

void h_ts_hist_auto(void)
{
    struct cmb_timeseries ts;
    mk_timeseries(&ts, N, CAP, C18_VALMODE, 1);
#if defined(C18_CONST_DATA)
    ASSUME(ts.ds.min == ts.ds.max);
#else
    ASSUME(ts.ds.min < ts.ds.max && ts.ds.max - ts.ds.min <= 1e9);
#endif
    double total = 0.0;
    for (unsigned i = 0; i < N; i++) total += ts.wa[i];
    const double lim = bounded_double();
    c18_obs_total = total; c18_obs_below = 0.0; c18_obs_above = 0.0;
    cmb_timeseries_histogram_print(&ts, C18_FP, NB, lim, lim);
    OBT("C18-O4", c18_obs_calls == 1u, "histogram (auto-scale): one histogram is produced");
    CANARY("h_ts_hist_auto");
}

/* ======================================================================= C14-O3 / O6 add and growth */
void h_ds_add(void)             /* N samples, capacity CAP (CAP == N: growth step; N == CAP == 0: first allocation) */
{
    struct cmb_dataset ds;
    mk_dataset(&ds, N, CAP, 0);
    const uint64_t g = nondet_u64();
    ASSUME(N == 0 || g < N);
    const double old_g = (N > 0) ? ds.xa[g] : 0.0;
    const double min0 = ds.min, max0 = ds.max;
    const double x = nn_double();

    const uint64_t r = cmb_dataset_add(&ds, x);

    OBT("C18-O2", r == N + 1u && ds.count == N + 1u, "cmb_dataset_add: count + 1 (and returned)");
    OBT("C18-O2", ds.xa[N] == x, "cmb_dataset_add: the new sample is stored last");
    OBT("C18-O2", N == 0 || ds.xa[g] == old_g, "cmb_dataset_add: earlier samples are preserved (arbitrary index)");
    OBT("C18-O2", ds.min == (x < min0 ? x : min0) && ds.max == (x > max0 ? x : max0), "cmb_dataset_add: min and max updated");
    OBT("C18-O2", ds.count <= ds.cursize && __CPROVER_OBJECT_SIZE(ds.xa) == ds.cursize * sizeof(double),
        "cmb_dataset_add: well-formed, count <= cursize == allocated length (the reallocated array is the one in use)");
    OBT("C18-O6", ds.cursize == ((N < CAP) ? CAP : (CAP == 0 ? CMI_DATASET_INIT_SZ : 2u * CAP)),
        "cmb_dataset_add: capacity unchanged below the threshold, first allocation CMI_DATASET_INIT_SZ, doubled at the threshold");
    CANARY("h_ds_add");
}

void h_ts_add(void)
{
    struct cmb_timeseries ts;
    mk_timeseries(&ts, N, CAP, 1, 0);
    const uint64_t g = nondet_u64();
    ASSUME(N == 0 || g < N);
    const double gx = (N > 0) ? ts.ds.xa[g] : 0.0, gt = (N > 0) ? ts.ta[g] : 0.0, gw = (N > 0) ? ts.wa[g] : 0.0;
    const double min0 = ts.ds.min, max0 = ts.ds.max;
    const double x = bounded_double(), t = bounded_double();
    const double tprev = (N > 0) ? ts.ta[(N > 0) ? N - 1 : 0] : 0.0;
    ASSUME(N == 0 || tprev <= t);

    const uint64_t r = cmb_timeseries_add(&ts, x, t);

    OBT("C14-O3", r == N + 1u && ts.ds.count == N + 1u, "cmb_timeseries_add: count + 1 (and returned)");
    OBT("C14-O3", ts.ds.xa[N] == x && ts.ta[N] == t, "cmb_timeseries_add: (x, t) appended");
    OBT("C14-O3", ts.wa[N] == 0.0, "cmb_timeseries_add: the new sample has weight 0");
    OBT("C14-O3", N == 0 || ts.wa[(N > 0) ? N - 1 : 0] == t - tprev, "cmb_timeseries_add: the weight of the previous sample becomes t - t_prev");
    OBT("C14-O3", N == 0 || (ts.ds.xa[g] == gx && ts.ta[g] == gt && (g == N - 1u || ts.wa[g] == gw)),
        "cmb_timeseries_add: earlier samples keep value and time, and weight except the previous one (arbitrary index)");
    OBT("C14-O3", ts.ds.min == (x < min0 ? x : min0) && ts.ds.max == (x > max0 ? x : max0), "cmb_timeseries_add: min and max updated");
    OBT("C14-O3", ts.ds.count <= ts.ds.cursize
                  && __CPROVER_OBJECT_SIZE(ts.ds.xa) == ts.ds.cursize * sizeof(double)
                  && __CPROVER_OBJECT_SIZE(ts.ta) == ts.ds.cursize * sizeof(double)
                  && __CPROVER_OBJECT_SIZE(ts.wa) == ts.ds.cursize * sizeof(double),
        "cmb_timeseries_add: the three arrays keep the same length cursize >= count");
    OBT("C18-O6", ts.ds.cursize == ((N < CAP) ? CAP : (CAP == 0 ? CMI_DATASET_INIT_SZ : 2u * CAP)),
        "cmb_timeseries_add: capacity unchanged below the threshold, first allocation CMI_DATASET_INIT_SZ, doubled at the threshold");
    CANARY("h_ts_add");
}

void h_ts_summarize(void)       /* C14-O3: (x_i, w_i), i < n-1, handed to the weighted summary in order */
{
    struct cmb_timeseries ts;
    mk_timeseries(&ts, N, CAP, 1, 0);
    struct cmb_wtdsummary ws;
    const uint64_t i = nondet_u64();
    ASSUME(N == 1 || i < N - 1u);
    const uint64_t r = cmb_timeseries_summarize(&ts, &ws);
    OBT("C14-O3", c18_ws_inits == 1u, "cmb_timeseries_summarize: the summary is initialised first (existing content overwritten)");
    OBT("C14-O3", r == N - 1u && c18_ws_adds == N - 1u, "cmb_timeseries_summarize: n - 1 samples are summarised (the last has no duration yet)");
    OBT("C14-O3", N == 1 || (c18_ws_x[i] == ts.ds.xa[i] && c18_ws_w[i] == ts.wa[i]),
        "cmb_timeseries_summarize: the i-th pair handed to cmb_wtdsummary_add is (x_i, w_i) (arbitrary i < n - 1)");
    CANARY("h_ts_summarize");
}

void h_ds_summarize(void)
{
    struct cmb_dataset ds;
    mk_dataset(&ds, N, CAP, 0);
    struct cmb_datasummary s;
    const uint64_t i = nondet_u64();
    ASSUME(i < N);
    const uint64_t r = cmb_dataset_summarize(&ds, &s);
    OBT("C18-O2", c18_ds_inits == 1u && r == N && c18_ds_adds == N, "cmb_dataset_summarize: initialises the summary and feeds every sample once");
    OBT("C18-O2", c18_ds_x[i] == ds.xa[i], "cmb_dataset_summarize: the i-th value handed to cmb_datasummary_add is x_i (arbitrary i < n)");
    CANARY("h_ds_summarize");
}
