#!/usr/local/bin/python3-vt
"""
run.py <repo_path> <outdir> [--thorough] [--only SUBSTR] [--no-cbmc] [--no-sympy] [--list]

Property C18 (sorting, medians, quartiles, histograms, correlograms respect their definitions) and the last
step of C14 (cmb_timeseries_add / cmb_timeseries_summarize) from the working tree at <repo_path>:
  * O1-O4, O6, C14-O3: CBMC 6.11 on h_c18.c, which #includes the working-tree src/cmb_dataset.c and
    src/cmb_timeseries.c behind /verif/harness/cmv_common.h (library assertions = obligations);
    one group = one entry point + compile-time sizes; groups run in parallel, each in a time box;
  * O5: GIMPLE -> sympy over the reals (o5_acf.py, gsym_ext.py on top of /verif/realarith/gsym.py);
  * every failed group is replayed natively on the real code (replay_c18.c linked with the working-tree
    .c files, built with -fsanitize=address,undefined).
Prints ONE JSON document {"groups":[...]} on stdout.
Exit status: 0 all groups ok; 1 some group failed/undecided; 2 extraction break (goto-cc / GIMPLE); 3 internal error.
"""
import json
import os
import subprocess
import sys
import time
from concurrent.futures import ThreadPoolExecutor

HERE = os.path.dirname(os.path.abspath(__file__))
sys.path.insert(0, HERE)
HARNESS_DIR = os.environ.get('CMV_HARNESS_DIR', '/verif/harness')
T_QUICK = int(os.environ.get('C18_CBMC_TIMEOUT', '240'))
T_THOROUGH = int(os.environ.get('C18_CBMC_TIMEOUT_THOROUGH', '900'))

FP = ['--float-overflow-check', '--float-div-by-zero-check', '--nan-check']
ND = ['C18_NDEBUG']

# Findings on the tree this was written against; appended to the reason of a FAILED group (never changes a status)
F_A = 'defect (a): five-number summary of ONE sample calls data_array_median(0, ..) which reads v[0/2 - 1u] and v[0]'
F_B = 'defect (b): cmb_timeseries_copy copies cursize but allocates ta/wa with count elements: the copy is ill-formed, a later add writes out of bounds'
F_C = 'defect (c): cmb_timeseries_median / fivenum select no interval when the smallest sample holds more than the target weight (or n = 1, or total duration 0): result 0.0, outside the data range'
F_F = 'finding (f): the time-series median interpolates between neighbouring sample VALUES; whenever an interval is selected the result lies below the weighted median and more than half of the duration is strictly above it'
F_D = 'defect (d): auto-scaled histogram of constant data: bin size 0, (x - low) / 0 = 0/0 converted to uint16_t (undefined; SIGFPE under the FP-exception mask of the coroutine context)'
F_G = 'finding (g): (unsigned)ceil(high - low) is undefined for ranges >= 2^32; on x86-64 it wraps, the requested bin count collapses (1 bin at range 2^32)'
F_H = 'finding (h): even-sized median computes (a + b) / 2, which overflows to +-inf for |values| > DBL_MAX / 2'


def G(gid, entry, n, cap=None, nb=None, defs=(), unwind=None, flags=(), tier='quick', observer=False, native=('control',),
      finding='', note=''):
    d = ['N=%d' % n] + (['CAP=%d' % cap] if cap is not None else []) + (['NB=%d' % nb] if nb is not None else []) + list(defs)
    return {'id': gid, 'entry': entry, 'defs': d, 'unwind': unwind or (max(n, nb or 0, 2) + 4), 'flags': list(flags), 'tier': tier,
            'observer': observer, 'native': list(native), 'finding': finding, 'note': note}


GROUPS = []
# ---- O1 sort
for n in (1, 2, 3, 4):
    GROUPS.append(G('C18.O1.sort_n%d' % n, 'h_sort', n))
GROUPS.append(G('C18.O1.sort_n5', 'h_sort', 5, defs=ND, tier='thorough', note='built with the library\'s NDEBUG semantics (cmi_dataset_is_max_heap not run)'))
for n in (1, 2, 3):
    GROUPS.append(G('C18.O1.ts_sort_n%d' % n, 'h_ts_sort', n))
GROUPS.append(G('C18.O1.ts_sort_n4', 'h_ts_sort', 4, defs=ND, tier='experimental', note='NDEBUG semantics; did not finish in 300 s in the probes'))
# ---- O2 copy (+ add, summarize of the dataset)
GROUPS.append(G('C18.O2.copy_ds_n3', 'h_copy_ds', 3, cap=5))
GROUPS.append(G('C18.O2.copy_ds_n1_full', 'h_copy_ds', 1, cap=1))
GROUPS.append(G('C18.O2.copy_ds_into_used', 'h_copy_ds', 3, cap=4, defs=['C18_TGT_USED']))
GROUPS.append(G('C18.O2.copy_ts_n3', 'h_copy_ts', 3, cap=5, native=('copyadd',), finding=F_B))
GROUPS.append(G('C18.O2.copy_ts_full', 'h_copy_ts', 3, cap=3, note='count == cursize: the only case in which the copy is well-formed'))
GROUPS.append(G('C18.O2.copy_ts_then_add', 'h_copy_ts_then_add', 3, cap=5, native=('copyadd',), finding=F_B))
GROUPS.append(G('C18.O2.ds_add', 'h_ds_add', 2, cap=3))
GROUPS.append(G('C18.O2.ds_summarize_n4', 'h_ds_summarize', 4, cap=4))
# ---- O3 medians, five numbers
for n in (1, 2, 3, 4, 5):
    GROUPS.append(G('C18.O3.array_median_n%d' % n, 'h_array_median', n))
GROUPS.append(G('C18.O3.array_median_fullrange_n2', 'h_array_median', 2, defs=['XBOUND=DBL_MAX'], native=('medianinf',), finding=F_H))
for n in (1, 2, 3):
    GROUPS.append(G('C18.O3.ds_median_n%d' % n, 'h_ds_median', n))
GROUPS.append(G('C18.O3.ds_median_n4', 'h_ds_median', 4, defs=ND, tier='thorough'))
GROUPS.append(G('C18.O3.ds_fivenum_n1', 'h_ds_fivenum', 1, native=('fivenum1',), finding=F_A))
for n in (2, 3):
    GROUPS.append(G('C18.O3.ds_fivenum_n%d' % n, 'h_ds_fivenum', n))
for n in (4, 5):
    GROUPS.append(G('C18.O3.ds_fivenum_n%d' % n, 'h_ds_fivenum', n, defs=ND, tier='experimental'))
for n in (1, 2):
    GROUPS.append(G('C18.O3.ts_median_n%d' % n, 'h_ts_median', n, native=('tsmedian', 'tsinterp'), finding=F_C + '; ' + F_F))
GROUPS.append(G('C18.O3.ts_median_n3', 'h_ts_median', 3, defs=['C18_SMALLVALS'], native=('tsmedian', 'tsinterp'), finding=F_C + '; ' + F_F,
                note='sample values restricted to integers -128..127 (with every double the midpoint arithmetic does not finish in 240 s)'))
GROUPS.append(G('C18.O3.ts_median_n4', 'h_ts_median', 4, defs=ND + ['C18_SMALLVALS'], tier='thorough', native=('tsmedian', 'tsinterp'), finding=F_C + '; ' + F_F))
GROUPS.append(G('C18.O3.ts_median_firstheavy_n2', 'h_ts_median', 2, defs=['C18_CASE_FIRSTHEAVY'], native=('tsmedian',), finding=F_C))
GROUPS.append(G('C18.O3.ts_median_interval_n2', 'h_ts_median', 2, defs=['C18_CASE_INTERVAL', 'C18_SMALLVALS'], native=('tsinterp',), finding=F_F,
                note='sample values restricted to integers -128..127 (the range obligation is a float multiply/divide proof)'))
GROUPS.append(G('C18.O3.ts_median_interval_n3', 'h_ts_median', 3, defs=['C18_CASE_INTERVAL', 'C18_SMALLVALS'], tier='thorough', native=('tsinterp',), finding=F_F))
for n in (2, 3):
    GROUPS.append(G('C18.O3.ts_fivenum_n%d' % n, 'h_ts_fivenum', n, defs=['C18_SMALLVALS'], native=('tsfivenum',), finding=F_C + '; ' + F_F,
                    note='sample values restricted to integers -128..127'))
# ---- O4 histograms
SV = ['C18_SMALLVALS']
HF = ['--conversion-check'] + FP
GROUPS.append(G('C18.O4.fill_n1_b3', 'h_hist_fill', 1, nb=3, defs=SV, flags=HF))
GROUPS.append(G('C18.O4.fill_n2_b2', 'h_hist_fill', 2, nb=2, defs=SV, flags=HF))
GROUPS.append(G('C18.O4.fill_n4_b1', 'h_hist_fill', 4, nb=1, defs=SV, flags=HF))
GROUPS.append(G('C18.O4.fill_n3_b3', 'h_hist_fill', 3, nb=3, defs=SV, flags=HF, tier='thorough'))
GROUPS.append(G('C18.O4.ts_fill_n3_b2', 'h_ts_hist_fill', 3, nb=2, defs=SV, flags=HF))
GROUPS.append(G('C18.O4.ts_fill_n4_b1', 'h_ts_hist_fill', 4, nb=1, defs=SV, flags=HF, tier='thorough'))
GROUPS.append(G('C18.O4.auto_n2_b3', 'h_hist_auto', 2, nb=3, defs=SV, flags=HF, observer=True))
GROUPS.append(G('C18.O4.auto_n3_b2', 'h_hist_auto', 3, nb=2, defs=SV, flags=HF, observer=True, tier='thorough'))
GROUPS.append(G('C18.O4.auto_const_n2', 'h_hist_auto', 2, nb=3, defs=['C18_CONST_DATA'], flags=HF, observer=True, native=('histconst', 'histtrap'), finding=F_D))
GROUPS.append(G('C18.O4.auto_wide_n2', 'h_hist_auto', 2, nb=3, defs=['C18_WIDE'], flags=HF, observer=True, native=('histwide',), finding=F_G,
                note='sample values are multiples of 2^26 in [-2^33, 2^33)'))
GROUPS.append(G('C18.O4.ts_auto_n3_b2', 'h_ts_hist_auto', 3, nb=2, defs=SV, flags=HF, observer=True))
GROUPS.append(G('C18.O4.auto_wide_fullrange_n2', 'h_hist_auto', 2, nb=3, defs=['C18_WIDE', 'C18_FULLVALS'], flags=HF, observer=True, tier='experimental', native=('histwide',), finding=F_G))
GROUPS.append(G('C18.O4.ts_auto_const_n2', 'h_ts_hist_auto', 2, nb=2, defs=['C18_CONST_DATA'], flags=HF, observer=True, native=('histconst', 'histtrap'), finding=F_D))
GROUPS.append(G('C18.O4.fill_fullrange_n1_b3', 'h_hist_fill', 1, nb=3, flags=HF, tier='thorough', note='every double: did not finish in 300 s in the probes'))
GROUPS.append(G('C18.O4.fill_fullrange_n2_b2', 'h_hist_fill', 2, nb=2, flags=HF, tier='experimental', note='every double: did not finish in 300 s in the probes'))
# ---- O6 growth, C14-O3 time-series add / summarize
GROUPS.append(G('C18.O6.ds_add_first', 'h_ds_add', 0, cap=0))
GROUPS.append(G('C18.O6.ds_add_grow_k2', 'h_ds_add', 2, cap=2))
GROUPS.append(G('C18.O6.ds_add_grow_k4', 'h_ds_add', 4, cap=4))
GROUPS.append(G('C18.O6.ds_add_grow_k1024', 'h_ds_add', 1024, cap=1024, unwind=1030, tier='experimental', note='the real threshold CMI_DATASET_INIT_SZ'))
GROUPS.append(G('C14.O3.ts_add_first', 'h_ts_add', 0, cap=0))
GROUPS.append(G('C14.O3.ts_add_n1', 'h_ts_add', 1, cap=3))
GROUPS.append(G('C14.O3.ts_add_n2', 'h_ts_add', 2, cap=3))
GROUPS.append(G('C18.O6.ts_add_grow_k1', 'h_ts_add', 1, cap=1))
GROUPS.append(G('C18.O6.ts_add_grow_k4', 'h_ts_add', 4, cap=4))
GROUPS.append(G('C18.O6.ts_add_grow_k1024', 'h_ts_add', 1024, cap=1024, unwind=1030, tier='experimental', note='the real threshold CMI_DATASET_INIT_SZ'))
for n in (1, 2, 4):
    GROUPS.append(G('C14.O3.ts_summarize_n%d' % n, 'h_ts_summarize', n, cap=n + 1))

NATIVE_O5 = {'C18.O5.acf_scale': ['acfscale'], 'C18.O5.acf_range': ['acfrange']}


def _run(cmd, timeout, stdout=None, env=None):
    t0 = time.time()
    try:
        r = subprocess.run(['timeout', '-k', '5', str(timeout)] + cmd, stdout=stdout or subprocess.PIPE, stderr=subprocess.PIPE,
                           universal_newlines=(stdout is None), env=env)
    except Exception as e:
        return 'error', str(e), time.time() - t0
    if r.returncode in (124, 137):
        return 'timeout', '', time.time() - t0
    out = r.stdout if stdout is None else ''
    err = r.stderr if isinstance(r.stderr, str) else r.stderr.decode('utf-8', 'replace')
    return r.returncode, (out or '') + err, time.time() - t0


def new_group(gid, backend='cbmc'):
    return {'id': gid, 'status': 'ok', 'reason': '', 'seconds': 0, 'backend': backend, 'cmds': [], 'obligations': [], 'traces': {}, 'native': {}}


def extract_trace(r):
    tr = []
    for s in r.get('trace', []):
        if s.get('hidden'):
            continue
        loc = s.get('sourceLocation', {})
        k = s.get('stepType')
        if k == 'assignment':
            v = s.get('value', {})
            val = v.get('data', v.get('name', '?')) if isinstance(v, dict) else str(v)
            lhs = s.get('lhs', '')
            if lhs.startswith('__CPROVER') or 'return_value_nondet' in lhs and False:
                continue
            tr.append([lhs, str(val), loc.get('function', ''), loc.get('line', '')])
        elif k == 'function-call':
            tr.append(['call', s.get('function', {}).get('displayName', '?'), loc.get('function', ''), loc.get('line', '')])
        elif k == 'failure':
            tr.append(['FAILED', s.get('reason', loc.get('comment', '')), loc.get('function', ''), loc.get('line', '')])
    if len(tr) > 120:
        tr = tr[:40] + [['...', '%d steps omitted' % (len(tr) - 110), '', '']] + tr[-70:]
    return tr


def run_group(repo, outdir, spec, thorough):
    gid = spec['id']
    t0 = time.time()
    wd = os.path.join(outdir, 'cbmc', gid)
    os.makedirs(wd, exist_ok=True)
    res = new_group(gid)

    def fin():
        res['seconds'] = round(time.time() - t0, 2)
        if spec['note']:
            res['reason'] = (res['reason'] + '; ' if res['reason'] else '') + spec['note']
        return res

    gb0 = os.path.join(wd, 'a0.gb')
    gb = os.path.join(wd, 'a.gb')
    cmd = ['goto-cc', '-I' + HARNESS_DIR, '-I' + repo, '-I' + os.path.join(repo, 'include'), '-I' + os.path.join(repo, 'src'),
           '-D_POSIX_C_SOURCE=200809L'] + ['-D' + d for d in spec['defs']] + \
          ['--function', spec['entry'], os.path.join(HERE, 'h_c18.c'), '-o', gb0 if spec['observer'] else gb]
    res['cmds'].append(' '.join(cmd))
    rc, out, dt = _run(cmd, 120)
    if rc != 0:
        res['status'] = 'error'
        res['reason'] = 'goto-cc failed (extraction break): ' + str(out)[-1500:]
        return fin()
    if spec['observer']:
        cmd = ['goto-instrument', '--replace-calls', 'cmi_dataset_histogram_print:c18_hist_observer', gb0, gb]
        res['cmds'].append(' '.join(cmd))
        rc, out, dt = _run(cmd, 120)
        if rc != 0:
            res['status'] = 'error'
            res['reason'] = 'goto-instrument --replace-calls failed (extraction break): ' + str(out)[-1500:]
            return fin()
    tmo = T_THOROUGH if (thorough and spec['tier'] == 'thorough') else T_QUICK
    outjson = os.path.join(wd, 'out.json')
    cmd = ['cbmc', gb, '--json-ui', '--trace', '--drop-unused-functions', '--slice-formula', '--sat-solver', 'cadical',
           '--bounds-check', '--pointer-check', '--div-by-zero-check', '--signed-overflow-check',
           '--unwind', str(spec['unwind']), '--unwinding-assertions'] + spec['flags']
    res['cmds'].append('timeout %d ' % tmo + ' '.join(cmd))
    with open(outjson, 'wb') as f:
        rc, err, dt = _run(cmd, tmo, stdout=f)
    if rc == 'timeout':
        res['status'] = 'undecided'
        res['reason'] = 'cbmc did not finish in %d s' % tmo
        return fin()
    if isinstance(rc, int) and rc < 0:
        res['status'] = 'undecided'
        res['reason'] = 'cbmc was killed by signal %d (SIGKILL = out of memory) after %.0f s' % (-rc, dt)
        return fin()
    try:
        data = json.load(open(outjson))
    except Exception as e:
        res['status'] = 'error'
        res['reason'] = 'cbmc output unparsable (rc=%s): %s %s' % (rc, e, err[-400:])
        return fin()
    results, msgs = None, []
    for o in data:
        if 'result' in o:
            results = o['result']
        if 'messageText' in o:
            msgs.append(o['messageText'])
    if results is None:
        res['status'] = 'error'
        res['reason'] = 'cbmc gave no result (rc=%s): %s' % (rc, '\n'.join(msgs)[-1200:])
        return fin()
    canaries = fired = 0
    folded = {}
    unwind_fail = []
    for r in results:
        sl = r.get('sourceLocation', {})
        desc = r['description']
        if desc.startswith('CANARY'):
            canaries += 1
            fired += r['status'] == 'FAILURE'
            continue
        named = desc.startswith('C18-') or desc.startswith('C14-')
        libassert = desc.startswith('cmb_assert') or desc.startswith('cmb_logger')
        parts = r['property'].split('.')
        cls = parts[-2] if len(parts) >= 2 else 'check'
        if cls == 'unwind' and r['status'] == 'FAILURE':
            unwind_fail.append(r['property'])
        if not named and not libassert and r['status'] == 'SUCCESS':
            folded[cls] = folded.get(cls, 0) + 1          # pointer/bounds/... checks: one summary line per class
            continue
        tag = 'C14-O3' if gid.startswith('C14') else 'C18-' + gid.split('.')[1]
        if not named:
            desc = '%s [%s]: %s' % (tag, 'library assertion' if libassert else 'built-in check on the real code' if not sl.get('file', '').endswith('h_c18.c') else 'harness check', desc)
        ob = {'name': r['property'], 'desc': desc, 'status': r['status'],
              'file': sl.get('file', ''), 'line': sl.get('line', ''), 'func': sl.get('function', '')}
        res['obligations'].append(ob)
        if r['status'] == 'FAILURE':
            res['status'] = 'failed'
            res['traces'][ob['name']] = extract_trace(r)
        elif r['status'] != 'SUCCESS' and res['status'] == 'ok':
            res['status'] = 'undecided'
            res['reason'] = 'obligation %s has status %s' % (ob['name'], r['status'])
    tag = 'C14-O3' if gid.startswith('C14') else 'C18-' + gid.split('.')[1]
    for cls, n in sorted(folded.items()):
        res['obligations'].append({'name': '%s.%s.*' % (spec['entry'], cls), 'desc': '%s [built-in check]: %d %s checks on the path hold' % (tag, n, cls),
                                   'status': 'SUCCESS', 'file': '', 'line': '', 'func': spec['entry']})
    if unwind_fail:
        res['status'] = 'error'
        res['reason'] = 'unwinding bound %d too small: %s' % (spec['unwind'], ', '.join(unwind_fail))
    elif canaries != 1 or fired != canaries:
        res['status'] = 'error'
        res['reason'] = 'vacuity guard: %d canaries, %d fired (assumptions contradictory or entry not reached)' % (canaries, fired)
    elif res['status'] == 'failed':
        nfail = sum(1 for o in res['obligations'] if o['status'] == 'FAILURE')
        res['reason'] = '%d obligation(s) fail' % nfail + ('; on the tree this was written against: ' + spec['finding'] if spec['finding'] else '')
    elif not res['reason']:
        res['reason'] = 'reachability canary fired as required'
    return fin()


class Native(object):
    def __init__(self, repo, outdir):
        self.repo, self.outdir = repo, outdir
        self.exe = os.path.join(outdir, 'replay_c18')
        src = os.path.join(repo, 'src')
        self.cmd = ['gcc', '-O1', '-g', '-fsanitize=address,undefined,float-cast-overflow,float-divide-by-zero', '-fno-omit-frame-pointer',
                    '-D_POSIX_C_SOURCE=200809L', '-I' + os.path.join(repo, 'include'), '-I' + src, os.path.join(HERE, 'replay_c18.c'),
                    os.path.join(src, 'cmb_dataset.c'), os.path.join(src, 'cmb_timeseries.c'), os.path.join(src, 'cmb_datasummary.c'),
                    os.path.join(src, 'cmb_wtdsummary.c'), '-lm', '-o', self.exe]
        self.built = None
        self.cache = {}

    def build(self):
        if self.built is None:
            r = subprocess.run(self.cmd, stdout=subprocess.PIPE, stderr=subprocess.STDOUT, universal_newlines=True)
            self.built = (r.returncode == 0, r.stdout[-1500:])
        return self.built

    def run(self, mode):
        if mode in self.cache:
            return self.cache[mode]
        ok, log = self.build()
        if not ok:
            res = {'reproduced': False, 'output': 'native driver did not build: ' + log, 'cmd': ' '.join(self.cmd)}
        else:
            env = dict(os.environ, ASAN_OPTIONS='detect_leaks=0')
            try:
                r = subprocess.run(['timeout', '60', self.exe, mode], stdout=subprocess.PIPE, stderr=subprocess.STDOUT,
                                   universal_newlines=True, env=env, errors='replace')
                out = r.stdout
                san = 'AddressSanitizer' in out or 'runtime error' in out
                if mode == 'control':
                    keep = [l for l in out.split('\n') if 'MISMATCH' in l or 'ASSERTION' in l or 'control:' in l or 'ERROR' in l or 'runtime error' in l or 'SUMMARY' in l]
                    out = '\n'.join(keep[:40])
                else:
                    lines = out.split('\n')
                    cut = [i for i, l in enumerate(lines) if l.startswith('Shadow bytes') or 'AddressSanitizer can not provide' in l]
                    if cut:
                        lines = lines[:cut[0]] + [l for l in lines[cut[0]:] if l.startswith('SUMMARY')]
                    out = '\n'.join(lines)
                rep = r.returncode == 1 or (r.returncode == 3 and 'ASSERTION' in out) or (r.returncode not in (0, 2, 124) and san) or r.returncode < 0
                res = {'reproduced': bool(rep), 'output': ('exit status %d\n' % r.returncode) + out[-3500:], 'cmd': 'ASAN_OPTIONS=detect_leaks=0 %s %s' % (self.exe, mode),
                       'build': ' '.join(self.cmd)}
            except Exception as e:
                res = {'reproduced': False, 'output': 'native run failed: %r' % e, 'cmd': '%s %s' % (self.exe, mode)}
        self.cache[mode] = res
        return res


def attach_native(g, modes, nat):
    failing = [o['name'] for o in g['obligations'] if o['status'] == 'FAILURE']
    if not failing:
        return
    runs = [nat.run(m) for m in modes]
    if not any(r['reproduced'] for r in runs) and 'control' not in modes:
        runs.append(nat.run('control'))
    merged = {'reproduced': any(r['reproduced'] for r in runs),
              'output': '\n'.join('$ %s\n%s' % (r['cmd'], r['output']) for r in runs)}
    for n in failing:
        g['native'][n] = merged
    g['cmds'] = list(g['cmds']) + [runs[0].get('build', '')] + [r['cmd'] for r in runs]


def main(argv):
    only = None
    argv = list(argv)
    if '--only' in argv:
        i = argv.index('--only')
        only = argv[i + 1]
        del argv[i:i + 2]
    thorough = '--thorough' in argv
    args = [a for a in argv[1:] if not a.startswith('--')]
    if '--list' in argv:
        for s in GROUPS:
            print('%-34s %-9s %-20s %s' % (s['id'], s['tier'], s['entry'], ' '.join(s['defs'])))
        return 0
    if len(args) < 2:
        print(__doc__, file=sys.stderr)
        return 3
    repo, outdir = os.path.abspath(args[0]), os.path.abspath(args[1])
    os.makedirs(outdir, exist_ok=True)
    t0 = time.time()
    status = 0
    groups = []
    ex = futs = None
    if '--no-cbmc' not in argv:
        specs = [s for s in GROUPS if (s['tier'] == 'quick' or (thorough and s['tier'] == 'thorough') or ('--experimental' in argv and s['tier'] == 'experimental'))
                 and (not only or only in s['id'])]
        # longest first, so that the tail of the schedule is short
        heavy = ('sort_n5', 'ts_sort_n4', 'k1024', 'fullrange', 'sort_n4', 'ts_sort_n3', 'fivenum_n', 'ts_median_n3', 'ts_median_n4', 'interval', 'O4.')
        specs.sort(key=lambda s: min([i for i, h in enumerate(heavy) if h in s['id']] + [99]))
        workers = int(os.environ.get('C18_WORKERS', str(max(2, (os.cpu_count() or 4) - 1))))
        ex = ThreadPoolExecutor(max_workers=workers)
        futs = [(s, ex.submit(run_group, repo, outdir, s, thorough)) for s in specs]
    o5 = []
    if '--no-sympy' not in argv and (not only or 'O5' in only or only in 'C18.O5.acf_lag0 C18.O5.acf_range C18.O5.acf_shift C18.O5.acf_scale'):
        try:
            import o5_acf
            o5, st = o5_acf.run_groups(repo, os.path.join(outdir, 'o5'), only)
            status = max(status, 2 if st == 2 else 0)
        except Exception as e:
            g = new_group('C18.O5', 'sympy')
            g['status'], g['reason'] = 'error', 'internal error in o5_acf: %r' % e
            o5 = [g]
            status = 3
    nat = Native(repo, outdir)
    if futs is not None:
        for s, f in futs:
            try:
                g = f.result()
            except Exception as e:
                g = new_group(s['id'])
                g['status'], g['reason'] = 'error', 'internal error: %r' % e
                status = max(status, 3)
            if g['status'] == 'failed':
                attach_native(g, s['native'], nat)
            if g['status'] == 'error' and 'extraction break' in g['reason']:
                status = max(status, 2)
            groups.append(g)
        ex.shutdown()
        order = {s['id']: i for i, s in enumerate(GROUPS)}
        groups.sort(key=lambda g: order.get(g['id'], 999))
    for g in o5:
        if g['status'] == 'failed':
            attach_native(g, NATIVE_O5.get(g['id'], ['control']), nat)
    groups += o5
    if status == 0 and any(g['status'] != 'ok' for g in groups):
        status = 1
    json.dump({'groups': groups, 'seconds': round(time.time() - t0, 1), 'repo': repo, 'tier': 'thorough' if thorough else 'quick'}, sys.stdout, indent=1)
    print()
    return status


if __name__ == '__main__':
    sys.exit(main(sys.argv))
