#!/bin/bash
# selftest.sh [repo] - teeth of the C18 / C14-O3 checker: every mutation of a scratch COPY of the sources must
# make a NAMED obligation fail (and the unmutated copy must pass the same groups).
# Nothing under the repository is modified. Exit status 0 iff every mutant is killed.
REPO=${1:-/repo}
HERE=$(cd "$(dirname "$0")" && pwd)
PY=/usr/local/bin/python3-vt
WORK=$(mktemp -d /tmp/c18-selftest.XXXXXX)
trap 'rm -rf "$WORK"' EXIT
fail=0

fresh_copy() {    # $1 = name -> $WORK/$1 with include/ and src/
    mkdir -p "$WORK/$1"
    cp -r "$REPO/include" "$REPO/src" "$WORK/$1/"
}

mutate() {        # $1 = copy, $2 = file, $3 = exact old text, $4 = new text (must occur exactly once)
    $PY - "$WORK/$1/$2" "$3" "$4" <<'EOF' || { echo "$1: MUTATION NOT APPLIED"; fail=1; }
import sys
p, old, new = sys.argv[1:4]
s = open(p).read()
if s.count(old) != 1:
    sys.exit('mutation site %r occurs %d times in %s' % (old, s.count(old), p))
open(p, 'w').write(s.replace(old, new))
EOF
}

# expect <copy> <--only substring> <group id> <regex over failing obligation descriptions | OK>
expect() {
    local name=$1 only=$2 gid=$3 rx=$4
    $PY "$HERE/run.py" "$WORK/$name" "$WORK/$name.out" --only "$only" > "$WORK/$name.json" 2> "$WORK/$name.err"
    local rc=$?
    $PY - "$WORK/$name.json" "$gid" "$rx" "$name" "$rc" <<'EOF'
import json, re, sys
path, gid, rx, name, rc = sys.argv[1:6]
try:
    d = json.load(open(path))
except Exception as e:
    print('%-26s BROKEN    run.py output unparsable: %s' % (name, e)); sys.exit(1)
g = [x for x in d['groups'] if x['id'] == gid]
if not g:
    print('%-26s SURVIVED  group %s not in the output' % (name, gid)); sys.exit(1)
g = g[0]
if rx == 'OK':
    ok = g['status'] == 'ok'
    print('%-26s %-8s  %s: status %s, %d obligations, %.1f s' % (name, 'ok' if ok else 'BROKEN', gid, g['status'], len(g['obligations']), g['seconds']))
    sys.exit(0 if ok else 1)
hits = [o for o in g['obligations'] if o['status'] == 'FAILURE' and re.search(rx, o['desc'])]
ok = bool(hits)
print('%-26s %-8s  %s (%s, %.1f s)' % (name, 'killed' if ok else 'SURVIVED', gid, g['status'], g['seconds']))
for o in hits[:3]:
    nat = g['native'].get(o['name'], {})
    print('      FAILURE %s %s:%s  "%s"  native reproduced: %s' % (o['name'], o['file'].split('/')[-1], o['line'], o['desc'][:120], nat.get('reproduced')))
if hits:
    nat = g['native'].get(hits[0]['name'], {})
    for l in [l for l in nat.get('output', '').split('\n') if 'MISMATCH' in l or 'ASSERTION' in l or 'SUMMARY' in l][:2]:
        print('              native: %s' % l[:150])
sys.exit(0 if ok else 1)
EOF
    [ $? -eq 0 ] || fail=1
}

echo "== unmutated copy: the groups used below pass"
fresh_copy base
expect base "O1.sort_n3" C18.O1.sort_n3 OK
expect base "ts_sort_n2" C18.O1.ts_sort_n2 OK
expect base "array_median_n3" C18.O3.array_median_n3 OK
expect base "fill_n1_b3" C18.O4.fill_n1_b3 OK
expect base "ts_add_n1" C14.O3.ts_add_n1 OK
expect base "copy_ds_n3" C18.O2.copy_ds_n3 OK
expect base "ds_add_grow_k2" C18.O6.ds_add_grow_k2 OK
expect base "ts_add_grow_k1" C18.O6.ts_add_grow_k1 OK
expect base "ts_summarize_n2" C14.O3.ts_summarize_n2 OK
expect base "acf_shift" C18.O5.acf_shift OK

echo "== mutants"
fresh_copy m1_heapify_child
mutate m1_heapify_child src/cmb_dataset.c "    uint64_t ucr = 2u * uroot + 2u;" "    uint64_t ucr = 2u * uroot + 3u;"
expect m1_heapify_child "O1.sort_n3" C18.O1.sort_n3 "ascending order|is_max_heap|is_sorted"

fresh_copy m2_median_index
mutate m2_median_index src/cmb_dataset.c "r = (double)(v[n / 2u]);" "r = (double)(v[n / 2u + 1u]);"
expect m2_median_index "array_median_n3" C18.O3.array_median_n3 "at most half of the samples lie strictly"

fresh_copy m3_hist_bin
mutate m3_hist_bin src/cmb_dataset.c "            bin = 1u + (uint16_t)((xa[ui] - hp->low_lim) / hp->binsize);" "            bin = 2u + (uint16_t)((xa[ui] - hp->low_lim) / hp->binsize);"
expect m3_hist_bin "fill_n1_b3" C18.O4.fill_n1_b3 "outside object bounds|bins add up|upper overflow bin"

fresh_copy m4_prev_weight
mutate m4_prev_weight src/cmb_timeseries.c "        tsp->wa[ui_prev] = dt;" "        (void)dt;"
expect m4_prev_weight "ts_add_n1" C14.O3.ts_add_n1 "weight of the previous sample becomes t - t_prev"

fresh_copy m5_copy_min
mutate m5_copy_min src/cmb_dataset.c "    tgt->min = src->min;" "    tgt->min = src->max;"
expect m5_copy_min "copy_ds_n3" C18.O2.copy_ds_n3 "min and max equal"

fresh_copy m6_triple_torn
mutate m6_triple_torn src/cmb_timeseries.c "            cmi_dataset_swap(&da2[uroot], &da2[ubig]);" "            /* weights stay behind */"
expect m6_triple_torn "ts_sort_n2" C18.O1.ts_sort_n2 "triple"

fresh_copy m7_realloc_unused
mutate m7_realloc_unused src/cmb_dataset.c "        dsp->xa = cmi_realloc(dsp->xa," "        (void)cmi_realloc(dsp->xa,"
expect m7_realloc_unused "ds_add_grow_k2" C18.O6.ds_add_grow_k2 "deallocated|outside object bounds|well-formed|preserved"

fresh_copy m8_wa_not_grown
mutate m8_wa_not_grown src/cmb_timeseries.c "        tsp->wa = cmi_realloc(tsp->wa, dsp->cursize * sizeof(*(tsp->wa)));" "        /* wa forgotten */"
expect m8_wa_not_grown "ts_add_grow_k1" C18.O6.ts_add_grow_k1 "three arrays keep the same length|outside object bounds"

fresh_copy m9_summarize_shift
mutate m9_summarize_shift src/cmb_timeseries.c "        const double w = tsp->wa[ui];" "        const double w = tsp->wa[ui + 1u];"
expect m9_summarize_shift "ts_summarize_n2" C14.O3.ts_summarize_n2 "i-th pair handed to cmb_wtdsummary_add"

fresh_copy m10_no_doubling
mutate m10_no_doubling src/cmb_dataset.c "        dsp->cursize *= 2;" "        dsp->cursize += 1;"
expect m10_no_doubling "ds_add_grow_k2" C18.O6.ds_add_grow_k2 "doubled at the threshold"

fresh_copy m11_acf_sign
mutate m11_acf_sign src/cmb_dataset.c "(dsp->xa[ui + ulag] - m1)" "(dsp->xa[ui + ulag] + m1)"
expect m11_acf_sign "acf_shift" C18.O5.acf_shift "ACF\(x \+ s\) == ACF\(x\)"

if [ $fail -eq 0 ]; then echo "SELFTEST OK: every mutant killed by a named obligation"; else echo "SELFTEST FAILED"; fi
exit $fail
