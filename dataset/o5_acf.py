#!/usr/local/bin/python3-vt
"""
o5_acf.py - property C18, obligation group O5: cmb_dataset_ACF over the REAL numbers.

The compiler's GIMPLE (-O0) of the working-tree src/cmb_dataset.c is executed symbolically into
sympy (gsym_ext.XExecutor on top of /verif/realarith/gsym.py) with CONCRETE dsp->count = N and lag
count n and SYMBOLIC samples x0..x{N-1}.  The input object is produced by executing the real
cmb_dataset_initialize, then count = cursize = N and xa -> array of N real symbols; acf -> array
of n+1 undefined cells.  The only branches that fork are the variance guard and the two halves of
the debug assertion `(acf[ulag] >= -1.0) && (acf[ulag] <= 1.0)` (abort paths via cmi_assert_failed).

Paths are classified by what they DO: 'high' divides by the local `var`, 'low' does not (it writes the
zeros).  The variance guard is the one branch condition that separates the two.  When it compares
`var` with a number eps: the repaired library has `if (!(var > 0.0))`, i.e. eps = 0 and the dividing
path carries `var > 0`; the former `if (var < min_acf_variance)` / `if (var < 1e-9)` gives eps = 1e-9
and `var >= 1e-9`.  Any other guard (e.g. `var > 1e-9 * fmax(1.0, m1 * m1)`, relative to the mean) is
executed as well (fmax -> Max): the definition is still proved on the dividing path under its path
condition, and whether the side of the guard depends on a shift / a scale of the data is decided by a
proof attempt (same guard expression / homogeneous of degree 2) and a witness search over rational
(x, s) / (x, c) points on the real-code paths.  A witness FAILS the obligation `the branch taken does
not depend on the shift s / the scale c` (with a native replay of both data sets); neither proof nor
witness leaves that one obligation UNDECIDED.  So an absolute threshold is a failed obligation of
C18.O5.acf_scale, a mean-relative one of C18.O5.acf_shift (and acf_scale) - not an extraction break.

Groups:  C18.O5.acf_lag0   acf[0] == 1, indices in bounds, divisors non-zero, acf[k] == definition,
                           constant data -> 0 (pinned)
         C18.O5.acf_range  can the debug assertion -1 <= acf[k] <= 1 fail? (N = 4, every legal lag)
         C18.O5.acf_shift  ACF(x + s) == ACF(x), var(x + s) == var(x); the branch taken does not depend on s
         C18.O5.acf_scale  ACF(c x) == ACF(x) for c > 0; the branch taken does not depend on c (proved when
                           the guard compares with 0; an absolute threshold fails with a witness: defect (e))

What is dropped: double arithmetic is real arithmetic; N and n are fixed small integers (N = 4,
n = 2; n = 3 for acf_range), so this is a proof for those sizes only.

usage: o5_acf.py <repo> <outdir> [substr]      -> {"groups": [...]} JSON; exit 0 ok / 1 failed / 2 break
"""
import itertools
import json
import os
import random
import sys
import time
import traceback

HERE = os.path.dirname(os.path.abspath(__file__))
sys.path.insert(0, HERE)
sys.path.insert(0, '/verif/realarith')
import sympy as sp              # noqa: E402
import gsym                     # noqa: E402
import gsym_ext as gx           # noqa: E402
from gsym import ExtractionBreak, vptr, vint, vreal, short      # noqa: E402

SRC = 'src/cmb_dataset.c'
FUNC = 'cmb_dataset_ACF'
INIT = 'cmb_dataset_initialize'
TAG = 'C18-O5'
N_MAIN, LAGS_MAIN = 4, 2
if os.environ.get('O5_SMALL'):          # cheaper variant (count = 3, n = 1) for lag0 / shift / scale
    N_MAIN, LAGS_MAIN = 3, 1
N_RANGE = 4                             # acf_range always uses count = 4 and every legal lag (n = 3)
ASSERT_TEXT = '(acf[ulag] >= -1.0) && (acf[ulag] <= 1.0)'


# =========================================================================== helpers
def norm(e):
    return sp.cancel(sp.together(e))


def rational_points(syms, k, seed):
    rnd = random.Random(seed)
    for _ in range(k):
        yield {s: sp.Rational(rnd.randint(-40, 40), rnd.randint(1, 9)) for s in syms}


def is_zero(e, seed=5):
    """-> (True, None) proved 0 | (False, witness dict) non-zero at a rational point | (None, note)."""
    e = sp.sympify(e)
    try:
        r = norm(e)
        if r == 0:
            return True, None
        if sp.count_ops(r) < 400:
            r2 = sp.simplify(r)
            if r2 == 0:
                return True, None
    except Exception:
        r = e
    syms = sorted(e.free_symbols, key=str)
    pos = [s for s in syms if s.is_positive]
    for pt in rational_points(syms, 12, seed):
        for s in pos:
            pt[s] = abs(pt[s]) + sp.Rational(1, 7)
        try:
            v = e.subs(pt)
            v = sp.nsimplify(v) if v.is_number else v
        except Exception:
            continue
        if v.is_number and v.is_finite and v != 0:
            return False, {'point': {str(k): str(x) for k, x in pt.items()}, 'value': str(sp.N(v, 12)),
                           'residual': short(r, 300)}
    return None, 'residual not reduced to 0 but 0 at 12 rational points: %s' % short(r, 300)


def pc_holds(pc, pt):
    """all conjuncts true at the (total, rational) point? -> True/False"""
    for p in pc:
        v = p.subs(pt)
        if v is sp.true or v is True:
            continue
        if v is sp.false or v is False:
            return False
        v = sp.simplify(v)
        if v is sp.true:
            continue
        return False
    return True


def fl(e):
    return float(sp.N(e, 20))


# =========================================================================== bookkeeping
class Group(object):
    def __init__(self, gid, cmds):
        self.id, self.cmds = gid, list(cmds)
        self.obls, self.traces, self.native = [], {}, {}
        self.t0 = time.time()
        self.reason = ''
        self.n = 0

    def ob(self, text, ok, line=0, trace=None, detail=None):
        """ok: True / False / None (undecided). detail: dict or list of (key, value) put in the trace."""
        self.n += 1
        name = '%s.%02d' % (self.id, self.n)
        o = {'name': name, 'desc': '%s: %s' % (TAG, text),
             'status': 'SUCCESS' if ok is True else ('FAILURE' if ok is False else 'UNDECIDED'),
             'file': SRC, 'line': int(line or 0), 'func': FUNC}
        self.obls.append(o)
        if ok is not True:
            tr = [[str(t[0]), str(t[1]), t[2], t[3]] for t in (trace or [])][-40:]
            items = detail.items() if isinstance(detail, dict) else (detail or [])
            for k, v in items:
                tr.append([str(k), v if isinstance(v, str) else json.dumps(v), FUNC, int(line or 0)])
            self.traces[name] = tr
        return o

    def done(self):
        st = 'ok'
        if any(o['status'] == 'FAILURE' for o in self.obls):
            st = 'failed'
        elif any(o['status'] == 'UNDECIDED' for o in self.obls):
            st = 'undecided'
        if not self.reason:
            self.reason = 'count = 3, n = 1 (O5_SMALL): ' if os.environ.get('O5_SMALL') else ''
            bad = [o['name'] for o in self.obls if o['status'] != 'SUCCESS']
            self.reason += ('%d obligations, all SUCCESS' % len(self.obls)) if not bad else \
                ('%d of %d obligations not SUCCESS: %s' % (len(bad), len(self.obls), ', '.join(bad)))
        return {'id': self.id, 'status': st, 'reason': self.reason, 'seconds': round(time.time() - self.t0, 2),
                'backend': 'sympy', 'cmds': self.cmds, 'obligations': self.obls, 'traces': self.traces,
                'native': self.native}


# =========================================================================== running the real code
class Ctx(object):
    def __init__(self, repo, outdir):
        self.repo, self.outdir = repo, outdir
        dump, cmd = gsym.compile_gimple(repo, SRC, outdir)
        self.cmds = [cmd]
        self.table = gx.parse_functions(dump, [INIT, FUNC])
        self.ex = gx.XExecutor(self.table)
        self.cache = {}

    def run(self, key, cells, n):
        """execute the real cmb_dataset_ACF on count = len(cells) samples `cells` (sympy), n lags."""
        if key in self.cache:
            return self.cache[key]
        r = Run(self, cells, n)
        self.cache[key] = r
        return r


class Path(object):
    def __init__(self, o, branch, acf_oid):
        self.o, self.state, self.branch = o, o.state, branch
        self.aborted = o.aborted
        a = o.state.objs[acf_oid]
        self.acf = {k: v.e for k, v in a.items() if isinstance(k, int)}


class Run(object):
    def __init__(self, cx, cells, n):
        N = len(cells)
        self.N, self.n, self.cells = N, n, list(cells)
        try:
            self.fn_line = int(cx.table[FUNC].stmts[0].line)
        except Exception:
            self.fn_line = 0
        st = gx.XState()
        st.new_object('ds#1', {'__undef__': True})
        good = [o for o in cx.ex.run(INIT, [vptr('ds#1')], st) if not o.aborted]
        if len(good) != 1:
            raise ExtractionBreak('%s has %d non-aborting paths' % (INIT, len(good)))
        st = good[0].state
        st.trace = []
        st.new_array('xa#1', [vreal(c) for c in cells])
        st.new_array('acf#1', length=n + 1)
        d = st.objs['ds#1']
        d['count'] = vint(N)
        d['cursize'] = vint(N)
        d['xa'] = gx.aptr('xa#1')
        self.outs = cx.ex.run(FUNC, [vptr('ds#1'), vint(n), gx.aptr('acf#1')], st)
        self.var = self.eps = self.strict = self.eps_name = self.guard_hi = None
        self.paths = []
        names = {}
        for o in self.outs:
            nm = o.state.named
            if (FUNC, 'var') not in nm:
                self.paths.append(Path(o, 'early', 'acf#1'))      # precondition abort
                continue
            var = nm[(FUNC, 'var')].e
            if self.var is None:
                self.var, names = var, nm
            elif self.var != var:
                raise ExtractionBreak('var differs between paths')
            # classified by what the path DOES: 'high' divides by var, 'low' does not (it writes the zeros)
            br = 'high' if any(d[0] == var for d in o.state.divisors) else 'low'
            self.paths.append(Path(o, br, 'acf#1'))
        if self.var is None:
            raise ExtractionBreak('no path of %s reaches the variance' % FUNC)
        # the variance guard: the one branch condition that separates the dividing paths from the others
        his = [p.state.pc for p in self.paths if p.branch == 'high']
        los = [p.state.pc for p in self.paths if p.branch == 'low']
        if his and los:
            k = 0
            while k < min(len(his[0]), len(los[0])) and his[0][k] == los[0][k]:
                k += 1
            if k >= min(len(his[0]), len(los[0])) or sp.Not(his[0][k]) != los[0][k]:
                raise ExtractionBreak('the dividing and the non-dividing paths are not separated by one branch condition: '
                                      '%s | %s' % (short(his[0]), short(los[0])))
            self.guard_hi = his[0][k]
            if any(pc[:k + 1] != his[0][:k + 1] for pc in his) or any(pc[:k + 1] != los[0][:k + 1] for pc in los):
                raise ExtractionBreak('the variance guard differs between paths')
        else:
            self.guard_hi = sp.true if his else sp.false         # no guard met: a single side exists
        # its form: `var OP number` (eps, strict), or something else (eps = None: e.g. a threshold relative to the mean)
        #   new code: `!(var > 0.0)`           -> 'var > 0' on the dividing side: strict, eps = 0
        #   old code: `var < min_acf_variance` -> 'var >= eps' on the dividing side: not strict, eps = 1e-9
        gd = guard_conjunct([self.guard_hi], self.var)
        if gd is not None and gd[0] in ('>', '>='):
            self.eps, self.strict = gd[1], gd[0] == '>'
            named = names.get((FUNC, 'min_acf_variance'))
            if named is not None and named.e == self.eps:
                self.eps_name = 'min_acf_variance'
        self._pretty = {self.var: sp.Symbol('var')}
        if (FUNC, 'm1') in names and not names[(FUNC, 'm1')].e.is_number:
            self._pretty[names[(FUNC, 'm1')].e] = sp.Symbol('m1')
        self.line_var = self.trace_line('var') or 615
        # the guard is the statement after the last one executed before it (acf[0] = 1.0, or the named threshold)
        self.line_guard = (self.trace_line(self.eps_name or 'acf[0]') or self.line_var + 2) + 1

    def trace_line(self, lhs):
        for p in self.paths:
            for t in p.state.trace:
                if t[0] == lhs and t[2] == FUNC:
                    try:
                        return int(t[3])
                    except (TypeError, ValueError):
                        return 0
        return 0

    def first_line(self):
        """line of the first statement of the function (the first precondition assertion)."""
        if self.fn_line:
            return self.fn_line
        for p in self.paths:
            for t in p.state.trace:
                if t[2] == FUNC and str(t[3]).isdigit():
                    return int(t[3])
        return 0

    # ---- the variance guard, as found in the path conditions
    def simple_guard(self):
        """the guard compares var with a number"""
        return self.eps is not None

    def eps_txt(self):
        if self.eps is None:
            return '?'
        return '0' if self.eps == 0 else ('%g' % float(self.eps)).replace('e-0', 'e-')

    def guard_txt(self):
        """the dividing side of the guard in terms of the locals var and m1, long rationals shown as floats"""
        e = self.guard_hi
        if e in (sp.true, sp.false):
            return 'no guard (%s)' % ('always divides' if e is sp.true else 'never divides')
        e = e.xreplace(self._pretty)
        e = e.xreplace({r: sp.Float(r, 6) for r in e.atoms(sp.Rational) if r.q > 10 ** 6})
        return short(e, 160)

    def hi_txt(self):
        if self.eps is None:
            return self.guard_txt()
        return 'var %s %s' % ('>' if self.strict else '>=', self.eps_txt())

    def lo_txt(self):
        if self.eps is None:
            return '!(%s)' % self.guard_txt()
        return ('!(var > %s)' if self.strict else 'var < %s') % self.eps_txt()

    def high_at(self, pt):
        """is the (total, rational) point on the dividing side of the guard?"""
        v = self.guard_hi.subs(pt)
        if v is sp.true or v is sp.false:
            return v is sp.true
        v = sp.simplify(v)
        if v is sp.true or v is sp.false:
            return v is sp.true
        raise ExtractionBreak('the guard is not decided at %s' % pt)

    def good(self, branch):
        return [p for p in self.paths if p.branch == branch and not p.aborted]

    def aborts(self, branch=None):
        return [p for p in self.paths if p.aborted and (branch is None or p.branch == branch)]

    def path_at(self, pt):
        """the path whose condition holds at the rational point pt."""
        try:
            hit = [p for p in self.paths if pc_holds(p.state.pc, pt)]
        except (TypeError, ValueError, ZeroDivisionError) as e:        # e.g. 0/0 in a conjunct at this point
            raise ExtractionBreak('path conditions cannot be evaluated at %s: %s' % (pt, e))
        if len(hit) != 1:
            raise ExtractionBreak('%d paths hold at %s' % (len(hit), pt))
        return hit[0]

    def line_of(self, obj, idx, kind='store', branch=None):
        for p in self.paths:
            if branch and p.branch != branch:
                continue
            for a in p.state.accesses:
                if a[0] == obj and a[1] == idx and a[3] == kind:
                    return a[5]
        return 0


OPS = {sp.StrictGreaterThan: '>', sp.GreaterThan: '>=', sp.StrictLessThan: '<', sp.LessThan: '<='}
FLIP = {'>': '<', '>=': '<=', '<': '>', '<=': '>='}


def guard_conjunct(pc, var):
    """the conjunct of the path condition that compares `var` with a number -> (op, eps) meaning `var op eps`, or None.
    gsym gives Gt(var, 0) / Le(var, 0) for `!(var > 0.0)` and its negation, Lt(var, eps) / Ge(var, eps) for `var < eps`."""
    for p in pc:
        op = OPS.get(type(p))
        if op is None:
            continue
        if p.lhs == var and p.rhs.is_number:
            return op, p.rhs
        if p.rhs == var and p.lhs.is_number:
            return FLIP[op], p.lhs
    return None


def scale_free(eps, strict):
    """is the guard `v > eps` (strict) / `v >= eps` invariant under v -> c^2 v for EVERY real v and c > 0?
    Decided by sympy's assumption system on w = v - eps: (w > 0 => c^2 (w + eps) - eps > 0) and
    (w <= 0 => c^2 (w + eps) - eps <= 0); likewise with >= / <.  True exactly when this is derivable, which it is
    for eps = 0 (c^2 w has the sign of w) and is not for eps > 0 (where it is false)."""
    c = sp.Symbol('c', positive=True)
    if strict:
        wh, wl = sp.Symbol('w', positive=True), sp.Symbol('w', nonpositive=True)
        a = (c ** 2 * (wh + eps) - eps).is_positive
        b = (c ** 2 * (wl + eps) - eps).is_nonpositive
    else:
        wh, wl = sp.Symbol('w', nonnegative=True), sp.Symbol('w', negative=True)
        a = (c ** 2 * (wh + eps) - eps).is_nonnegative
        b = (c ** 2 * (wl + eps) - eps).is_negative
    return a is True and b is True


def xsyms(N):
    return list(sp.symbols('x0:%d' % N, real=True))


def oracle(xs, k):
    """r_k from the definition (written once, independent of the code)."""
    N = len(xs)
    mean = sp.Add(*xs) / N
    num = sp.Rational(1, N - k) * sp.Add(*[(xs[i] - mean) * (xs[i + k] - mean) for i in range(N - k)])
    den = sp.Rational(1, N - 1) * sp.Add(*[(x - mean) ** 2 for x in xs])
    return num / den


def only_high(g, run, what):
    hi = run.good('high')
    if len(hi) != 1:
        g.ob('%s: exactly one non-aborting path with %s' % (what, run.hi_txt()), False, run.line_guard,
             detail={'paths': len(hi)})
        return None
    return hi[0]



# =========================================================================== native replay (double arithmetic)
DRIVER = r"""
#include <stdio.h>
#include <stdlib.h>
#include <stdarg.h>
#include "cmb_dataset.h"
/* replay driver for C18-O5 witnesses: the REAL cmb_dataset.c / cmb_datasummary.c, debug build (no NDEBUG);
 * only the assertion handler and the logger are replaced so that the outcome is printed. */
void cmi_assert_failed(const char *f, const char *fn, int line, const char *cond)
{ printf("ASSERT_FAILED %s:%d %s: %s\n", f, line, fn, cond); fflush(stdout); exit(3); }
void cmi_logger_warning(FILE *fp, const char *func, int line, char *fmt, ...)
{ (void)fp; printf("WARNING %s:%d %s\n", func, line, fmt); }
int main(int argc, char **argv)
{
    unsigned n = (unsigned)atoi(argv[1]);
    double acf[64];
    struct cmb_dataset ds;
    cmb_dataset_initialize(&ds);
    for (int i = 2; i < argc; i++) cmb_dataset_add(&ds, strtod(argv[i], NULL));
    cmb_dataset_ACF(&ds, n, acf);
    printf("ACF");
    for (unsigned k = 0; k <= n; k++) printf(" %.17g", acf[k]);
    printf("\n");
    return 0;
}
"""


def native_build(cx):
    """-> (exe or None, cmd text, error)"""
    if getattr(cx, 'native_exe', None):
        return cx.native_exe
    import subprocess
    src = os.path.join(cx.outdir, 'o5_replay.c')
    exe = os.path.join(cx.outdir, 'o5_replay')
    with open(src, 'w') as fh:
        fh.write(DRIVER)
    cmd = ['gcc', '-O0', '-g', '-D_POSIX_C_SOURCE=200809L', '-I' + os.path.join(cx.repo, 'include'),
           '-I' + os.path.join(cx.repo, 'src'), src, os.path.join(cx.repo, 'src', 'cmb_dataset.c'),
           os.path.join(cx.repo, 'src', 'cmb_datasummary.c'), '-lm', '-o', exe]
    try:
        r = subprocess.run(cmd, stdout=subprocess.PIPE, stderr=subprocess.STDOUT, universal_newlines=True, timeout=60)
        cx.native_exe = (exe if r.returncode == 0 else None, ' '.join(cmd), r.stdout[-600:] if r.returncode else '')
    except Exception as e:
        cx.native_exe = (None, ' '.join(cmd), str(e))
    return cx.native_exe


def native_run(cx, n, xs):
    """run the real library natively (doubles) on the data -> dict for group['native']"""
    import subprocess
    exe, cmd, err = native_build(cx)
    if exe is None:
        return {'build': cmd, 'error': err}
    argv = [exe, str(n)] + [repr(float(x)) for x in xs]
    try:
        r = subprocess.run(argv, stdout=subprocess.PIPE, stderr=subprocess.STDOUT, universal_newlines=True, timeout=20)
        return {'build': cmd, 'cmd': ' '.join(argv), 'exit': r.returncode, 'stdout': r.stdout.strip()[-600:]}
    except Exception as e:
        return {'build': cmd, 'cmd': ' '.join(argv), 'error': str(e)}


# =========================================================================== C18.O5.acf_lag0
def g_lag0(cx):
    g = Group('C18.O5.acf_lag0', cx.cmds)
    N, n = N_MAIN, LAGS_MAIN
    xs = xsyms(N)
    run = cx.run(('x', N, n), xs, n)
    l0 = run.line_of('acf#1', 0) or run.line_guard - 1
    lk = run.line_of('acf#1', 1, branch='high') or run.line_guard + 17

    # paths
    good = [p for p in run.paths if not p.aborted]
    early = [p for p in run.paths if p.branch == 'early']
    g.ob('no precondition assertion of cmb_dataset_ACF is reachable for an initialised dataset with count = %d, n = %d' % (N, n),
         not early, (early[0].state.abort[2] if early and early[0].state.abort else run.first_line()),
         detail=[('abort', str(p.state.abort)) for p in early])
    bad0 = [p for p in good if p.acf.get(0) != 1]
    g.ob('acf[0] == 1 on every non-aborting path (%d paths, N = %d, n = %d)' % (len(good), N, n),
         bool(good) and not bad0, l0, trace=bad0[0].state.trace if bad0 else None,
         detail=[('acf[0]', str(p.acf.get(0))) for p in bad0] or {'paths': len(good)})

    # bounds
    acc = [a for p in run.paths for a in p.state.accesses]
    oob = [a for p in run.paths for a in p.state.oob]
    xa_bad = sorted({a for a in acc if a[0] == 'xa#1' and not (0 <= a[1] < N)})
    acf_bad = sorted({a for a in acc if a[0] == 'acf#1' and not (0 <= a[1] <= n)})
    other = sorted({a for a in oob if a[0] not in ('xa#1', 'acf#1')})
    nx = len({(a[1], a[5]) for a in acc if a[0] == 'xa#1'})
    na = len({(a[1], a[5]) for a in acc if a[0] == 'acf#1'})
    g.ob('every index into dsp->xa is < count (%d distinct index/line pairs on all %d paths)' % (nx, len(run.paths)),
         nx > 0 and not xa_bad, xa_bad[0][5] if xa_bad else run.line_of('xa#1', 0, kind='load'),
         detail=[('out of bounds', '%s xa[%d], count %d, line %d' % (a[3], a[1], a[2], a[5])) for a in xa_bad])
    g.ob('every index into acf is <= n (%d distinct index/line pairs on all %d paths)' % (na, len(run.paths)),
         na > 0 and not acf_bad and not other, acf_bad[0][5] if acf_bad else lk,
         detail=[('out of bounds', '%s acf[%d], n %d, line %d' % (a[3], a[1], n, a[5])) for a in acf_bad + other])

    # divisors
    fails, nd = [], 0
    for p in run.paths:
        for d in p.state.divisors:
            nd += 1
            e = d[0]
            if e.is_number:
                if e == 0:
                    fails.append(('divisor is 0', 'line %d' % d[2]))
                continue
            ok = False
            for c in p.state.pc:
                if not (isinstance(c, (sp.Ge, sp.Gt)) and (c.lhs == e or (c.rhs.is_number and sp.expand(c.lhs - e) == 0))):
                    continue
                # e > r with r >= 0, or e >= r with r > 0, is a conjunct of the path condition: e != 0
                # (r a number, or an expression whose sign sympy derives, e.g. 1e-9 * Max(1, m1^2) > 0)
                r = c.rhs
                if not r.is_number and r.is_nonnegative is None:
                    try:
                        r = sp.factor(r)            # e.g. 1e-9 * m1 * m1 -> a square
                    except Exception:
                        pass
                if (isinstance(c, sp.Gt) and r.is_nonnegative is True) or (isinstance(c, sp.Ge) and r.is_positive is True):
                    ok = True
            if not ok:
                fails.append(('divisor not shown non-zero under the path condition', 'line %d: %s' % (d[2], short(e, 200))))
    why = '%s%s is a conjunct of the path condition' % (
        run.hi_txt(), ' > 0' if run.simple_guard() and not run.strict and run.eps > 0 else
        (' (right side >= 0)' if not run.simple_guard() else ''))
    g.ob('every real divisor met is non-zero under the path condition (ui + 1, count - 1, ustop concrete; '
         '%s on the path that divides by var; %d divisions on %d paths)' % (why, nd, len(run.paths)),
         nd > 0 and not fails, lk, detail=fails[:6])

    # definition on the dividing path
    hi = only_high(g, run, 'definition')
    mean = sp.Add(*xs) / N
    varref = sp.Add(*[(x - mean) ** 2 for x in xs]) / (N - 1)
    okv, wv = is_zero(run.var - varref)
    g.ob('var equals the sample variance sum (x_i - mean)^2 / (N - 1) of the definition (N = %d)' % N, okv, run.line_var,
         detail=wv if isinstance(wv, dict) else {'note': str(wv)})
    if hi is not None:
        for k in range(1, n + 1):
            if k not in hi.acf:
                g.ob('acf[%d] is written on the path %s' % (k, run.hi_txt()), False, lk, trace=hi.state.trace)
                continue
            ok, w = is_zero(hi.acf[k] - oracle(xs, k))
            det = {'code': short(norm(hi.acf[k]), 300), 'definition': short(norm(oracle(xs, k)), 300)}
            if isinstance(w, dict):
                det.update({'counterexample': w['point'], 'residual value there': w['value'], 'residual': w['residual']})
            elif w:
                det['note'] = str(w)
            g.ob('on the path %s the code\'s acf[%d] equals r_%d = [sum_{i<N-%d} (x_i - mean)(x_{i+%d} - mean) / (N - %d)]'
                 ' / [sum (x_i - mean)^2 / (N - 1)] (N = %d)' % (run.hi_txt(), k, k, k, k, k, N), ok, lk,
                 trace=hi.state.trace, detail=det)

    # pinned: the other side of the guard -> 0
    lo = run.good('low')
    okl = len(lo) == 1 and all(lo[0].acf.get(k) == 0 for k in range(1, n + 1)) and lo[0].acf.get(0) == 1
    g.ob('%s data: coefficients reported as 0 (pinned behaviour: on the path %s acf[k] == 0 for k = 1..%d, '
         'a warning is logged, nothing else changes)' % ('constant' if run.eps == 0 else 'near-constant', run.lo_txt(), n),
         okl, run.line_of('acf#1', 1, branch='low') or run.line_guard + 6,
         trace=lo[0].state.trace if lo else None, detail={'paths': len(lo), 'acf': str(lo[0].acf) if lo else ''})
    g.reason = ''
    return g.done()


# =========================================================================== C18.O5.acf_range
def psd(Q, xs):
    """is the quadratic form Q (polynomial of degree 2, homogeneous) positive semidefinite? exact:
    all principal minors of the Gram matrix >= 0.  -> (True/False, matrix)"""
    P = sp.Poly(sp.expand(Q), *xs)
    if P.total_degree() > 2 or any(sum(m) != 2 for m in P.monoms()):
        return None, None
    M = sp.hessian(P.as_expr(), xs) / 2
    m = len(xs)
    for r in range(1, m + 1):
        for idx in itertools.combinations(range(m), r):
            if M.extract(list(idx), list(idx)).det() < 0:
                return False, M
    return True, M


def candidate_points(xs, seed=11):
    N = len(xs)
    pts = []
    pts.append([1] + [0] * (N - 2) + [-1])                         # opposite end points
    pts.append([(-1) ** i for i in range(N)])                     # alternating
    pts.append([1 if i < N // 2 else -1 for i in range(N)])        # two clusters
    pts.append([0, 1, 0, 2][:N] + [0] * max(0, N - 4))
    for t in itertools.product((-1, 0, 1), repeat=N):              # simple grid
        pts.append(list(t))
    rnd = random.Random(seed)
    for _ in range(60):
        pts.append([sp.Rational(rnd.randint(-20, 20), rnd.randint(1, 5)) for _ in range(N)])
    for p in pts:
        yield {x: sp.Rational(v) for x, v in zip(xs, p)}


def g_range(cx):
    g = Group('C18.O5.acf_range', cx.cmds)
    N = N_RANGE
    n = N - 1                       # every lag the precondition n < count admits
    xs = xsyms(N)
    run = cx.run(('x', N, n), xs, n)
    hi = only_high(g, run, 'range')
    aline = (run.line_of('acf#1', 1, branch='high') or run.line_guard + 17) + 1
    ab = [p for p in run.aborts('high') if p.state.abort and p.state.abort[2]]
    if ab:
        aline = ab[0].state.abort[2]
    if hi is None:
        return g.done()
    var = run.var
    witness, proved, per_lag = None, {}, {}
    exprs = {k: norm(hi.acf[k]) for k in range(1, n + 1) if k in hi.acf}
    varn = norm(var)
    # numeric search first (cheap, exact rational evaluation)
    found = {}
    for pt in candidate_points(xs):
        v = varn.subs(pt)
        try:
            if not run.high_at(pt):
                continue
        except (ExtractionBreak, TypeError, ValueError):
            continue
        for k, e in exprs.items():
            if k in found:
                continue
            a = e.subs(pt)
            if not (a.is_number and a.is_real and a.is_finite):
                continue
            if a > 1 or a < -1:
                found[k] = (pt, a, v)
        if len(found) == len(exprs):
            break
    # proof attempt per lag: acf_k = P_k / var with quadratic forms; |acf_k| <= 1 <=> var -/+ P_k PSD
    for k, e in exprs.items():
        try:
            Pk = norm(e * var)
            up, _ = psd(sp.expand(var - Pk), xs)
            dn, _ = psd(sp.expand(var + Pk), xs)
        except Exception:
            up = dn = None
        proved[k] = (up, dn)
    for k in sorted(exprs):
        up, dn = proved[k]
        if k in found:
            pt, a, v = found[k]
            # confirm on the REAL abort path: the path whose condition holds at the point must abort in the assertion
            p = run.path_at(pt)
            conf = p.aborted and ASSERT_TEXT.replace(' ', '') in str(p.state.abort[3]).replace(' ', '')
            x = [str(pt[s]) for s in xs]
            det = [('witness x', '(%s)' % ', '.join(x)), ('count', str(N)), ('n', str(n)), ('lag', str(k)),
                   ('var(x)', '%s = %.6g (%s: the dividing path)' % (v, fl(v), run.hi_txt())),
                   ('acf[%d]' % k, '%s = %.6g' % (a, fl(a))),
                   ('path of the real code at the witness', 'ABORT %s' % (p.state.abort,) if p.aborted else 'no abort'),
                   ('quadratic forms', 'var - P_k PSD: %s, var + P_k PSD: %s' % (up, dn))]
            per_lag[k] = (False if conf else None, det, p.state.trace)
            if conf and witness is None:
                witness = (k, det, p.state.trace)
        elif up is True and dn is True:
            per_lag[k] = (True, [], None)
        else:
            per_lag[k] = (None, [('note', 'no witness in the search and no proof (PSD test: %s, %s)' % (up, dn))], None)
    for k in sorted(per_lag):
        ok, det, tr = per_lag[k]
        how = 'proved: var - P_k and var + P_k are positive semidefinite quadratic forms, acf[k] = P_k / var, var > 0' \
            if ok else 'N = %d' % N
        g.ob('debug assertion cannot fail at lag %d of count = %d (%s)' % (k, N, how), ok, aline, trace=tr, detail=det)
    if witness is not None:
        k, det, tr = witness
        nat = native_run(cx, n, [sp.Rational(v) for v in dict(det)['witness x'].strip('()').split(', ')])
        nat['agrees'] = bool(nat.get('exit') == 3 and 'ASSERT_FAILED' in nat.get('stdout', '') and ':%d ' % aline in nat.get('stdout', ''))
        g.native = {'debug-assert witness replay (real library, doubles, debug build)': nat}
        det = det + [('native replay', nat.get('stdout', nat.get('error', '')))]
        g.ob('debug assertion %s cannot fail' % ASSERT_TEXT, False, aline, trace=tr, detail=det)
        g.reason = ('NEW DEFECT: with the (N-k)/(N-1) normalisation |acf[k]| <= 1 does not hold over the reals; '
                    'debug builds abort on legitimate data, e.g. %s, lag %d: %s'
                    % (dict(det)['witness x'], k, dict(det)['acf[%d]' % k]))
    elif per_lag and all(v[0] is True for v in per_lag.values()):
        g.ob('debug assertion %s cannot fail' % ASSERT_TEXT, True, aline)
    else:
        g.ob('debug assertion %s cannot fail' % ASSERT_TEXT, None, aline,
             detail={'note': 'neither a witness nor a proof for every lag'})
    return g.done()


# =========================================================================== C18.O5.acf_shift
def pair_outputs(g, a, b, n, what, line):
    """outputs of the two runs on the path pair (both on the dividing side of the variance guard) identical."""
    ha, hb = only_high(g, a, what), only_high(g, b, what)
    if ha is None or hb is None:
        return
    for k in range(0, n + 1):
        if k not in ha.acf or k not in hb.acf:
            g.ob('%s: acf[%d] written by both runs' % (what, k), False, line)
            continue
        ok, w = is_zero(hb.acf[k] - ha.acf[k])
        det = {'acf[%d] of x' % k: short(norm(ha.acf[k]), 240), 'acf[%d] of the transformed data' % k: short(norm(hb.acf[k]), 240)}
        if isinstance(w, dict):
            det.update({'counterexample': w['point'], 'difference there': w['value']})
        elif w:
            det['note'] = str(w)
        g.ob('%s: acf[%d] identical on the path pair (both %s)' % (what, k, a.hi_txt()), ok, line, trace=hb.state.trace, detail=det)


# ---- does the side of the variance guard depend on the transformation parameter (shift s / scale c)?
def base_points(N):
    """data sets for the branch search: ordinary ones, small-variance ones (the x1000 smaller copies), constant ones"""
    pts = [[0, 1, 0, 2], [1, -1, 1, -1], [0, 0, 1, 1], [1, 2, 3, 5],
           [sp.Rational(-7, 3), sp.Rational(5, 2), 0, sp.Rational(1, 9)]]
    pts += [[sp.Rational(v) / 1000 for v in p] for p in pts[:2]]
    pts += [[1, 1, 1, 1], [0, 0, 0, 0]]
    return [[sp.Rational(v) for v in (p[-N:] if p == [0, 0, 1, 1] else p[:N])] for p in pts]


def branch_search(a, b, xs, par, vals):
    """rational points x and parameter values whose real-code paths (run a on x, run b on the transformed data) lie on
    different sides of the guard -> (witness or None, number of points on the same side, number skipped)"""
    same = skipped = 0
    for x0 in base_points(len(xs)):
        for val in vals:
            pt = dict(zip(xs, x0))
            ptb = dict(pt)
            ptb[par] = val
            try:
                pa, pb = a.path_at(pt), b.path_at(ptb)
            except ExtractionBreak:
                skipped += 1
                continue
            if pa.branch == pb.branch:
                same += 1
            elif not pa.aborted and not pb.aborted:
                return (x0, val, pt, ptb, pa, pb), same, skipped
            else:
                skipped += 1
    return None, same, skipped


def guard_diff(run):
    """D with: dividing side <=> D > 0 (or D >= 0) -> (D, relation type) or None"""
    e = run.guard_hi
    if isinstance(e, (sp.Gt, sp.Ge)):
        return e.lhs - e.rhs, type(e)
    if isinstance(e, (sp.Lt, sp.Le)):
        return e.rhs - e.lhs, {sp.Lt: sp.Gt, sp.Le: sp.Ge}[[t for t in (sp.Lt, sp.Le) if isinstance(e, t)][0]]
    return None


def branch_obligation(g, cx, a, b, n, xs, par, tname, text, proved, why_not, search, tdata, tag):
    """report `the branch taken does not depend on <par>`: a witness FAILS it (with the native replay of both data
    sets), a proof plus a clean cross-check makes it SUCCESS, otherwise it is UNDECIDED (the group goes on)."""
    wit, same, skipped = search
    text = text % {'same': same}
    if wit:
        x0, val, pt, ptb, pa, pb = wit
        oa = [fl(pa.acf[k].subs(pt)) for k in sorted(pa.acf)]
        ob = [fl(pb.acf[k].subs(ptb)) for k in sorted(pb.acf)]
        side = lambda r, q: r.hi_txt() if q.branch == 'high' else r.lo_txt()       # noqa: E731
        xt = '(%s)' % ', '.join(str(v) for v in x0)
        det = [('witness x', xt), ('witness %s' % par, '%s = %g' % (val, fl(val))),
               ('var(x)', '%.6g  -> branch %s' % (fl(a.var.subs(pt)), side(a, pa))),
               ('var(%s)' % tname, '%.6g  -> branch %s' % (fl(b.var.subs(ptb)), side(a, pb))),
               ('ACF(x)', json.dumps(oa)), ('ACF(%s)' % tname, json.dumps(ob)), tag]
        na = native_run(cx, n, x0)
        nb = native_run(cx, n, [tdata(v, val) for v in x0])

        def as_branch(nat, q):      # the native run took the same side of the guard as the symbolic path q
            out = nat.get('stdout', '')
            if q.branch == 'low':
                return 'WARNING' in out and out.endswith('ACF 1' + ' 0' * n)
            return 'WARNING' not in out
        agrees = bool(na.get('exit') == 0 and nb.get('exit') == 0 and as_branch(na, pa) and as_branch(nb, pb))
        g.native = {'ACF(x) replay': na, 'ACF(%s) replay' % tname: nb, 'agrees': agrees}
        det = det + [('native ACF(x)', na.get('stdout', na.get('error', ''))),
                     ('native ACF(%s)' % tname, nb.get('stdout', nb.get('error', '')))]
        g.ob(text, False, a.line_guard, trace=pb.state.trace, detail=det)
        g.reason = ('%s: x = %s, %s = %g: ACF(x) = %s but ACF(%s) = %s' % (tag[1].split(':')[0], xt, par, fl(val), oa, tname, ob))
    elif proved and same > 0:
        g.ob(text, True, a.line_guard)
    else:
        why = why_not
        if same == 0:
            why += '; no rational point could be cross-checked on the real-code paths'
        g.ob(text, None, a.line_guard,
             detail={'note': 'no witness among the candidate points (%d on the same side, %d skipped) and not proved: %s'
                             % (same, skipped, why)})


def g_shift(cx):
    g = Group('C18.O5.acf_shift', cx.cmds)
    N, n = N_MAIN, LAGS_MAIN
    xs = xsyms(N)
    s = sp.Symbol('s', real=True)
    a = cx.run(('x', N, n), xs, n)
    b = cx.run(('x+s', N, n), [x + s for x in xs], n)
    if (a.eps, a.strict) != (b.eps, b.strict):
        raise ExtractionBreak('the form of the variance guard differs between the runs on x and on x + s')
    okv, w = is_zero(b.var - a.var)
    g.ob('var(x+s) == var(x)', okv, a.line_var, detail=w if isinstance(w, dict) else {'note': str(w)})
    pair_outputs(g, a, b, n, 'ACF(x + s) == ACF(x)', a.line_of('acf#1', 1, branch='high') or a.line_guard + 17)
    # the branch: x and x + s on the same side of the guard.
    gd = '`%s`' % a.hi_txt()
    if a.simple_guard():
        proved = okv is True
        text = ('the branch taken does not depend on the shift s (proved: var(x+s) == var(x) and the guard %s depends on the '
                'data through var only; cross-checked on the real-code paths at %%(same)d rational (x, s) points)' % gd)
        why_not = 'var(x+s) == var(x) is not established'
    else:
        da, db = guard_diff(a), guard_diff(b)
        proved = False
        if okv is True and da and db and da[1] == db[1]:
            try:
                proved = is_zero(db[0] - da[0])[0] is True
            except Exception:
                proved = False
        text = ('the branch taken does not depend on the shift s (the guard %s is not a comparison of var with a constant%s; '
                '%%(same)d rational (x, s) points on the same side)' % (gd, ': proved to be the same expression for x and x + s' if proved else ''))
        why_not = 'the guard %s does not reduce to the same expression for x and x + s' % gd
    search = branch_search(a, b, xs, s, (sp.Integer(10 ** 3), sp.Integer(10 ** 6), sp.Integer(-10 ** 6), sp.Rational(-7, 2)))
    branch_obligation(g, cx, a, b, n, xs, 's', 'x + s', text, proved, why_not, search, lambda v, val: v + val,
                      ('defect', 'SHIFT DEPENDENCE: the ACF of x + s differs from the ACF of x because the variance guard is not shift invariant'))
    return g.done()


# =========================================================================== C18.O5.acf_scale
def g_scale(cx):
    g = Group('C18.O5.acf_scale', cx.cmds)
    N, n = N_MAIN, LAGS_MAIN
    xs = xsyms(N)
    c = sp.Symbol('c', positive=True)
    a = cx.run(('x', N, n), xs, n)
    b = cx.run(('c*x', N, n), [c * x for x in xs], n)
    if (a.eps, a.strict) != (b.eps, b.strict):
        raise ExtractionBreak('the form of the variance guard differs between the runs on x and on c x')
    lk = a.line_of('acf#1', 1, branch='high') or a.line_guard + 17
    pair_outputs(g, a, b, n, 'ACF(c x) == ACF(x), c > 0', lk)
    okv, wv = is_zero(b.var - c ** 2 * a.var)
    g.ob('var(c x) == c^2 var(x)', okv, a.line_var, detail=wv if isinstance(wv, dict) else {'note': str(wv)})
    # (ii) branch independence of c.
    #  proof:   var(c x) == c^2 var(x) (above, is_zero) and c > 0; the guard `v > eps` is invariant under v -> c^2 v for
    #           every real v exactly when eps == 0 (scale_free); then x and c x are always on the same side of the guard.
    #           A guard of another form `D(x) > 0` is scale free when D(c x) == c^2 D(x) (homogeneous), tried with is_zero.
    #  search:  rational points x and scales c whose real-code paths lie on different sides (finds the witness for an
    #           absolute threshold eps > 0 or a threshold that is not homogeneous; a sanity check of the proof otherwise).
    gd = '`%s`' % a.hi_txt()
    if a.simple_guard():
        proved = okv is True and scale_free(a.eps, a.strict)
        why_not = 'var(c x) == c^2 var(x) is not established' if okv is not True else \
            'the guard %s is not invariant under var -> c^2 var for every c > 0 (threshold %s != 0)' % (gd, a.eps_txt())
        if a.eps == 0:
            op = '>' if a.strict else '>='
            text = ('the branch taken does not depend on the scale c (proved: var(c x) == c^2 var(x) and c > 0, so c^2 var(x) has '
                    'the sign of var(x); the guard %s compares with 0, hence var(c x) %s 0 <=> var(x) %s 0 for every real x; '
                    'cross-checked on the real-code paths at %%(same)d rational (x, c) points)' % (gd, op, op))
        else:
            text = ('the branch taken does not depend on the scale c (var(c x) = c^2 var(x) is compared with the ABSOLUTE constant %s%s)'
                    % (a.eps_txt(), ' = ' + a.eps_name if a.eps_name else ''))
    else:
        da, db = guard_diff(a), guard_diff(b)
        proved = False
        if okv is True and da and db and da[1] == db[1]:
            try:
                proved = is_zero(db[0] - c ** 2 * da[0])[0] is True
            except Exception:
                proved = False
        text = ('the branch taken does not depend on the scale c (the guard %s is not a comparison of var with a constant%s; '
                '%%(same)d rational (x, c) points on the same side)' % (gd, ': proved homogeneous, D(c x) == c^2 D(x)' if proved else ''))
        why_not = 'the guard %s is not homogeneous of degree 2 in the data' % gd
    search = branch_search(a, b, xs, c, (sp.Rational(1, 10 ** 6), sp.Rational(1, 10 ** 3), sp.Integer(10 ** 6)))
    branch_obligation(g, cx, a, b, n, xs, 'c', 'c x', text, proved, why_not, search, lambda v, val: v * val,
                      ('known defect', 'known defect (e): scale invariance of the ACF is broken by the variance threshold'))
    return g.done()


# =========================================================================== driver
GROUPS = [('C18.O5.acf_lag0', g_lag0),
          ('C18.O5.acf_range', g_range),
          ('C18.O5.acf_shift', g_shift),
          ('C18.O5.acf_scale', g_scale)]


def err_group(gid, reason, cmds, secs=0):
    return {'id': gid, 'status': 'error', 'reason': reason, 'seconds': secs, 'backend': 'sympy', 'cmds': cmds,
            'obligations': [], 'traces': {}, 'native': {}}


def run_groups(repo, outdir, only=None):
    """-> (list of group dicts, exit status 0 ok / 1 some failed or undecided / 2 extraction break / 3 internal)"""
    sel = [(gid, f) for gid, f in GROUPS if not only or only in gid]
    try:
        cx = Ctx(repo, outdir)
    except ExtractionBreak as e:
        return [err_group(gid, 'EXTRACTION BREAK: %s' % e, []) for gid, _ in sel], 2
    out, status = [], 0
    for gid, f in sel:
        t1 = time.time()
        try:
            out.append(f(cx))
        except ExtractionBreak as e:
            out.append(err_group(gid, 'EXTRACTION BREAK: %s' % e, cx.cmds, round(time.time() - t1, 2)))
            status = 2
        except Exception:
            out.append(err_group(gid, 'internal error: %s' % traceback.format_exc()[-1500:], cx.cmds,
                                 round(time.time() - t1, 2)))
            if status != 2:
                status = 3
    if status == 0 and any(g['status'] != 'ok' for g in out):
        status = 1
    return out, status


if __name__ == '__main__':
    if len(sys.argv) < 3:
        print(__doc__)
        sys.exit(3)
    groups, status = run_groups(sys.argv[1], sys.argv[2], sys.argv[3] if len(sys.argv) > 3 else None)
    json.dump({'groups': groups}, sys.stdout, indent=1)
    print()
    sys.exit(status)
