#!/bin/bash
# o5_selfcheck.sh [repo] - self check of /verif/dataset/o5_acf.py (C18, group O5).
#   1. the unmodified tree must give exactly: acf_lag0 ok, acf_range failed (only the debug-assertion
#      obligations: known finding), acf_shift ok, acf_scale ok (the guard is `!(var > 0.0)`: the
#      branch-does-not-depend-on-shift / -scale obligations are PROVED);
#   2. four mutants applied with sed to a COPY of src/cmb_dataset.c must be killed:
#        m1  `dsp->xa[ui + ulag] - m1`  ->  `dsp->xa[ui + ulag] + m1`      (definition or shift obligation)
#        m2  `acov = dk / ((double)(ustop))` -> `dk / ((double)(dsp->count))` (definition obligation)
#        m3  `if (!(var > 0.0))` -> `if (var < 1e-9)`: the absolute threshold again (defect (e)); must be a
#            FAILED acf_scale (only the branch-depends-on-scale obligation, native replay agreeing), not an
#            extraction break, and must leave acf_lag0 / acf_shift ok
#        m4  `if (!(var > 0.0))` -> `if (!(var > 1e-9 * fmax(1.0, m1 * m1)))`: a threshold relative to the mean
#            (the seeded mutant C18-m2); must be a FAILED acf_shift (the branch-depends-on-shift obligation,
#            native replay agreeing), no group may be an error / extraction break, acf_lag0 stays ok
# The repo is never touched: src/ and include/ are copied to a mktemp -d scratch directory under
# ${O5_SCRATCH:-/var/tmp/p}, removed on exit.
# exit 0 iff everything is as expected.
REPO=${1:-/repo}
PY=/usr/local/bin/python3-vt
HERE=$(cd "$(dirname "$0")" && pwd)
SCRATCH=${O5_SCRATCH:-/var/tmp/p}
mkdir -p "$SCRATCH" || exit 3
W=$(mktemp -d "$SCRATCH/c18o5.selfcheck.XXXXXX") || exit 3
trap 'rm -rf "$W"' EXIT
rc=0

copy() {  # copy <name>
    mkdir -p "$W/$1" && cp -r "$REPO/src" "$REPO/include" "$W/$1/" || exit 3
}

run() {   # run <tree> <name>  -> $W/<name>.json, prints group statuses and failed obligations
    timeout -k 5 900 "$PY" "$HERE/o5_acf.py" "$1" "$W/$2.out" > "$W/$2.json" 2> "$W/$2.err"
    echo "  exit status $?"
    "$PY" - "$W/$2.json" <<'EOF' 2>/dev/null
import json, sys
d = json.load(open(sys.argv[1]))
for g in d['groups']:
    print('  %-20s %-9s %5.1fs' % (g['id'], g['status'], g['seconds']))
    if g['status'] == 'error':
        print('      ' + g['reason'][:300])
    for o in g['obligations']:
        if o['status'] != 'SUCCESS':
            print('      %s %s: %s' % (o['status'], o['name'], o['desc'][:140]))
EOF
}

check() { # check <name> <python expression over G (id -> group), F (id -> list of failed descs), NAT (id -> native replay)>
    "$PY" - "$W/$1.json" "$2" <<'EOF' 2>/dev/null
import json, sys
d = json.load(open(sys.argv[1]))
G = {g['id'].split('.')[-1]: g for g in d['groups']}
NAT = {k: g.get('native', {}) for k, g in G.items()}
F = {k: [o['desc'] for o in g['obligations'] if o['status'] != 'SUCCESS'] for k, g in G.items()}
sys.exit(0 if eval(sys.argv[2]) else 1)
EOF
}

echo "== unmodified tree ($REPO)"
copy base
run "$W/base" base
EXPECT_BASE='len(G) == 4 and G["acf_lag0"]["status"] == "ok" and G["acf_shift"]["status"] == "ok"
 and G["acf_range"]["status"] == "failed" and all("debug assertion" in x for x in F["acf_range"])
 and any("(acf[ulag] >= -1.0) && (acf[ulag] <= 1.0) cannot fail" in x for x in F["acf_range"])
 and G["acf_scale"]["status"] == "ok"
 and any("does not depend on the scale c (proved" in o["desc"] and "var > 0" in o["desc"] for o in G["acf_scale"]["obligations"])
 and any("does not depend on the shift s (proved" in o["desc"] and "var > 0" in o["desc"] for o in G["acf_shift"]["obligations"])
 and not any("1e-9" in o["desc"] for g in G.values() for o in g["obligations"])'
if check base "$(echo $EXPECT_BASE)"; then echo "  -> as expected"; else echo "  -> UNEXPECTED statuses on the unmodified tree"; rc=1; fi

echo "== mutant m1: dsp->xa[ui + ulag] - m1  ->  + m1"
copy m1
sed -i 's/dsp->xa\[ui + ulag\] - m1/dsp->xa[ui + ulag] + m1/' "$W/m1/src/cmb_dataset.c"
if cmp -s "$W/m1/src/cmb_dataset.c" "$REPO/src/cmb_dataset.c"; then echo "  -> mutant m1 did not apply"; rc=1; fi
run "$W/m1" m1
if check m1 'any("equals r_" in x for x in F["acf_lag0"]) or any("ACF(x + s) == ACF(x)" in x for x in F["acf_shift"])'; then
    echo "  -> killed (definition / shift obligation)"; else echo "  -> m1 SURVIVED"; rc=1; fi

echo "== mutant m2: acov = dk / ((double)(ustop))  ->  dk / ((double)(dsp->count))"
copy m2
sed -i 's/const double acov = dk \/ ((double)(ustop));/const double acov = dk \/ ((double)(dsp->count));/' "$W/m2/src/cmb_dataset.c"
if cmp -s "$W/m2/src/cmb_dataset.c" "$REPO/src/cmb_dataset.c"; then echo "  -> mutant m2 did not apply"; rc=1; fi
run "$W/m2" m2
if check m2 'any("equals r_" in x for x in F["acf_lag0"])'; then
    echo "  -> killed (definition obligation)"; else echo "  -> m2 SURVIVED"; rc=1; fi

echo "== mutant m3: if (!(var > 0.0))  ->  if (var < 1e-9)   (absolute variance threshold, defect (e))"
copy m3
sed -i 's/if (!(var > 0\.0)) {/if (var < 1e-9) {/' "$W/m3/src/cmb_dataset.c"
if cmp -s "$W/m3/src/cmb_dataset.c" "$REPO/src/cmb_dataset.c"; then echo "  -> mutant m3 did not apply"; rc=1; fi
run "$W/m3" m3
EXPECT_M3='G["acf_scale"]["status"] == "failed" and len(F["acf_scale"]) == 1
 and "does not depend on the scale c" in F["acf_scale"][0] and "ABSOLUTE constant 1e-9" in F["acf_scale"][0]
 and NAT["acf_scale"].get("agrees") is True
 and G["acf_lag0"]["status"] == "ok" and G["acf_shift"]["status"] == "ok"'
if check m3 "$(echo $EXPECT_M3)"; then
    echo "  -> killed (acf_scale: branch depends on the scale c; native witness agrees)"; else echo "  -> m3 SURVIVED (or was not reported as a failed acf_scale)"; rc=1; fi

echo "== mutant m4: if (!(var > 0.0))  ->  if (!(var > 1e-9 * fmax(1.0, m1 * m1)))   (threshold relative to the mean)"
copy m4
sed -i 's/if (!(var > 0\.0)) {/if (!(var > 1e-9 * fmax(1.0, m1 * m1))) {/' "$W/m4/src/cmb_dataset.c"
if cmp -s "$W/m4/src/cmb_dataset.c" "$REPO/src/cmb_dataset.c"; then echo "  -> mutant m4 did not apply"; rc=1; fi
run "$W/m4" m4
EXPECT_M4='len(G) == 4 and not any(g["status"] == "error" for g in G.values())
 and G["acf_shift"]["status"] == "failed" and len(F["acf_shift"]) == 1
 and "does not depend on the shift s" in F["acf_shift"][0] and "Max(1, m1**2)" in F["acf_shift"][0]
 and NAT["acf_shift"].get("agrees") is True
 and G["acf_lag0"]["status"] == "ok"'
if check m4 "$(echo $EXPECT_M4)"; then
    echo "  -> killed (acf_shift: branch depends on the shift s; native witness agrees)"; else echo "  -> m4 SURVIVED (or was not reported as a failed acf_shift)"; rc=1; fi

if [ $rc -eq 0 ]; then echo "SELFCHECK OK"; else echo "SELFCHECK FAILED"; fi
exit $rc
