/*
 * replay_c18.c - native replays for the C18 / C14-O3 obligations.  Linked with the REAL cmb_dataset.c and
 * cmb_timeseries.c (plus cmb_datasummary.c / cmb_wtdsummary.c) of the tree under test; run.py builds it
 * from <repo>/src on every run with -fsanitize=address,undefined (float-cast-overflow, float-divide-by-zero),
 * debug assertions enabled (no NDEBUG).
 * Substituted symbols: cmi_assert_failed (prints "ASSERTION FAILED ..." and exits with status 3) and the
 * cmi_logger_* back ends (print the line) - cmb_assert.c / cmb_logger.c drag in the process/event modules.
 *
 *   replay_c18 fivenum1     (a) cmb_dataset_fivenum_print with ONE sample: data_array_median(0, ..) reads v[0/2-1]
 *   replay_c18 copyadd      (b) cmb_timeseries_copy allocates ta/wa with count elements, cursize copied: add to the copy
 *   replay_c18 tsmedian     (c) cmb_timeseries_median: first (smallest) sample holds most of the duration -> 0.0
 *   replay_c18 tsfivenum    (c) cmb_timeseries_fivenum_print on the same series: own debug assertion / 0.0 quartiles
 *   replay_c18 tsinterp     (f) cmb_timeseries_median interpolates between sample VALUES: not a weighted median
 *   replay_c18 histconst    (d) cmb_dataset_histogram_print auto-scale on constant data: bin size 0, 0/0 -> uint16_t
 *   replay_c18 histtrap     (d) the same with FE_INVALID|FE_DIVBYZERO unmasked (as the coroutine context does): SIGFPE
 *   replay_c18 histwide     (g) data range >= 2^32: (unsigned)ceil(range) out of range, bin count collapses
 *   replay_c18 acfscale     (e) cmb_dataset_ACF(c*x) != cmb_dataset_ACF(x) for c = 1e-6 (absolute variance threshold)
 *   replay_c18 acfrange     (i) cmb_dataset_ACF: own debug assertion |acf| <= 1 fails on x = (1,0,0,-1), lag 3
 *   replay_c18 medianinf    (h) cmb_dataset_median of {1.7e308, 1.7e308} = inf (a + b overflows)
 *   replay_c18 control      positive control: sort / copy / median / five numbers / histogram / add / growth /
 *                           weighted median against definitions evaluated independently; prints MISMATCH lines
 * Exit status: 1 = defect REPRODUCED (or, for control, a mismatch), 0 = not reproduced, 3 = library assertion,
 * other = killed by the sanitizer / a signal (also counts as reproduced for the memory defects).
 */
#define _GNU_SOURCE
#include <fenv.h>
#include <float.h>
#include <math.h>
#include <stdarg.h>
#include <stdio.h>
#include <stdlib.h>
#include <string.h>

#include "cmb_dataset.h"
#include "cmb_timeseries.h"
#include "cmi_dataset.h"

void cmi_assert_failed(const char *sourcefile, const char *func, int line, const char *condition)
{
    printf("ASSERTION FAILED %s:%d %s: %s\n", sourcefile, line, func, condition);
    fflush(stdout);
    exit(3);
}
#define LOGGER(name) void name(FILE *fp, const char *func, int line, char *fmt, ...) \
    { (void)fp; va_list ap; va_start(ap, fmt); printf("[" #name " %s:%d] ", func, line); vprintf(fmt, ap); printf("\n"); va_end(ap); }
LOGGER(cmi_logger_warning)
LOGGER(cmi_logger_info)
LOGGER(cmi_logger_error)
LOGGER(cmi_logger_fatal)

static int capture5(void (*print)(const void *, FILE *, bool), const void *obj, double out[5], char *line, size_t linesz)
{
    char *buf = NULL; size_t sz = 0;
    FILE *fp = open_memstream(&buf, &sz);
    print(obj, fp, false);
    fclose(fp);
    snprintf(line, linesz, "%s", buf ? buf : "");
    const int k = buf ? sscanf(buf, "%lf %lf %lf %lf %lf", &out[0], &out[1], &out[2], &out[3], &out[4]) : 0;
    free(buf);
    return k;
}
static void ds_five(const void *o, FILE *fp, bool l) { cmb_dataset_fivenum_print((const struct cmb_dataset *)o, fp, l); }
static void ts_five(const void *o, FILE *fp, bool l) { cmb_timeseries_fivenum_print((const struct cmb_timeseries *)o, fp, l); }

static int count_lines_hist(const struct cmb_dataset *ds, unsigned nb, double lo, double hi, char **text)
{
    char *buf = NULL; size_t sz = 0;
    FILE *fp = open_memstream(&buf, &sz);
    cmb_dataset_histogram_print(ds, fp, nb, lo, hi);
    fclose(fp);
    int rows = 0;
    for (char *p = buf; p && *p; p++) if (*p == '\n') rows++;
    if (text) *text = buf; else free(buf);
    return rows - 2;        /* minus the two separator lines: rows = bins + 2 overflow bins */
}

/* ------------------------------------------------------------------ defects */
static int m_fivenum1(void)
{
    struct cmb_dataset ds; cmb_dataset_initialize(&ds);
    cmb_dataset_add(&ds, 42.0);
    double f[5]; char line[256];
    printf("cmb_dataset_fivenum_print on a dataset with ONE sample (42.0): lhsz = 0, data_array_median(0, xa) reads xa[0/2 - 1u] = xa[4294967295]\n");
    fflush(stdout);
    const int k = capture5(ds_five, &ds, f, line, sizeof line);
    printf("survived; printed: %s", line);
    const int bad = k != 5 || !(f[0] <= f[1] && f[1] <= f[2] && f[2] <= f[3] && f[3] <= f[4]) || f[1] != 42.0 || f[3] != 42.0;
    printf("%s\n", bad ? "REPRODUCED: quartiles of a single sample are not that sample" : "not reproduced");
    return bad;
}

static int m_copyadd(void)
{
    struct cmb_timeseries src, cp = { 0 };
    cmb_timeseries_initialize(&src);
    for (int i = 0; i < 3; i++) cmb_timeseries_add(&src, 1.0 + i, (double)i);
    cmb_timeseries_copy(&cp, &src);
    printf("source: count %lu cursize %lu; copy: count %lu cursize %lu, but ta/wa of the copy were allocated with count = 3 elements\n",
           (unsigned long)src.ds.count, (unsigned long)src.ds.cursize, (unsigned long)cp.ds.count, (unsigned long)cp.ds.cursize);
    printf("cmb_timeseries_add(&copy, 4.0, 3.0): count (3) < cursize (1024), no expansion, writes ta[3], wa[3] of 3-element blocks\n");
    fflush(stdout);
    cmb_timeseries_add(&cp, 4.0, 3.0);
    printf("survived without a sanitizer report (heap silently corrupted)\n");
    return 1;
}

static void mk_series(struct cmb_timeseries *ts, const double *x, const double *t, unsigned n)
{
    cmb_timeseries_initialize(ts);
    for (unsigned i = 0; i < n; i++) cmb_timeseries_add(ts, x[i], t[i]);
}

static int wmedian_ok(const double *x, const double *w, unsigned n, double r, double *below, double *above, double *W)
{
    *below = *above = *W = 0.0;
    double mn = HUGE_VAL, mx = -HUGE_VAL;
    for (unsigned i = 0; i < n; i++) {
        *W += w[i]; if (x[i] < r) *below += w[i]; if (x[i] > r) *above += w[i];
        if (x[i] < mn) mn = x[i];
        if (x[i] > mx) mx = x[i];
    }
    return 2.0 * *below <= *W && 2.0 * *above <= *W && mn <= r && r <= mx;
}

static int m_tsmedian(void)
{
    const double x[3] = { 5.0, 7.0, 9.0 }, t[3] = { 0.0, 10.0, 11.0 };
    struct cmb_timeseries ts; mk_series(&ts, x, t, 3);
    const double r = cmb_timeseries_median(&ts);
    double b, a, W;
    const int ok = wmedian_ok(x, ts.wa, 3, r, &b, &a, &W);
    printf("series x = (5, 7, 9) at t = (0, 10, 11): durations (10, 1, 0), total %g; the value 5 holds 10/11 of the time\n", W);
    printf("cmb_timeseries_median = %g   (weighted median by definition: 5; data range [5, 9]); duration below %g, above %g\n", r, b, a);
    printf("%s\n", ok ? "not reproduced" : "REPRODUCED: result outside the data range / not a weighted median (no interval selected, r stays 0.0)");
    return !ok;
}

static int m_tsfivenum(void)
{
    const double x[3] = { 5.0, 7.0, 9.0 }, t[3] = { 0.0, 10.0, 11.0 };
    struct cmb_timeseries ts; mk_series(&ts, x, t, 3);
    double f[5]; char line[256];
    printf("cmb_timeseries_fivenum_print on x = (5, 7, 9), durations (10, 1, 0):\n"); fflush(stdout);
    const int k = capture5(ts_five, &ts, f, line, sizeof line);
    printf("printed: %s", line);
    const int bad = k != 5 || !(f[0] <= f[1] && f[1] <= f[2] && f[2] <= f[3] && f[3] <= f[4]);
    printf("%s\n", bad ? "REPRODUCED: five numbers not ordered / outside the data range" : "not reproduced");
    return bad;
}

static int m_tsinterp(void)
{
    const double x[2] = { 10.0, 0.0 }, t[2] = { 0.0, 4.0 };
    struct cmb_timeseries ts; mk_series(&ts, x, t, 2);
    const double r = cmb_timeseries_median(&ts);
    double b, a, W;
    const int ok = wmedian_ok(x, ts.wa, 2, r, &b, &a, &W);
    printf("series: value 10 from t = 0 to t = 4, then 0 (no duration yet): durations (4, 0)\n");
    printf("cmb_timeseries_median = %g   (weighted median by definition: 10); duration strictly above the result: %g of %g\n", r, a, W);
    int bad = !ok;
    const double x3[3] = { 0.0, 10.0, 20.0 }, t3[3] = { 0.0, 1.0, 4.0 };
    struct cmb_timeseries t2; mk_series(&t2, x3, t3, 3);
    const double r3 = cmb_timeseries_median(&t2);
    const int ok3 = wmedian_ok(x3, t2.wa, 3, r3, &b, &a, &W);
    printf("series x = (0, 10, 20), durations (1, 3, 0): cmb_timeseries_median = %g (definition: 10); duration strictly above: %g of %g\n", r3, a, W);
    bad |= !ok3;
    printf("%s\n", bad ? "REPRODUCED: more than half of the total duration lies strictly above the reported median" : "not reproduced");
    return bad;
}

static int m_histconst(int trap)
{
    struct cmb_dataset ds; cmb_dataset_initialize(&ds);
    for (int i = 0; i < 3; i++) cmb_dataset_add(&ds, 5.0);
    printf("cmb_dataset_histogram_print(ds = {5, 5, 5}, 10 bins, low_lim == high_lim -> auto-scale): range 0, binsize 0/1 = 0,\n"
           "bin = 1 + (uint16_t)((5 - 5) / 0) = 1 + (uint16_t)NaN\n");
    fflush(stdout);
    if (trap) {
        printf("with FE_INVALID | FE_DIVBYZERO unmasked (the mask cmi_coroutine_context installs):\n"); fflush(stdout);
        feenableexcept(FE_INVALID | FE_DIVBYZERO);
    }
    struct cmi_dataset_histogram *hp = cmi_dataset_histogram_create(1u, ds.min, ds.max);
    printf("real cmi_dataset_histogram_create(1, 5, 5): binsize = %g\n", hp->binsize); fflush(stdout);
    cmi_dataset_histogram_fill(hp, ds.count, ds.xa);
    printf("real cmi_dataset_histogram_fill: bins = (%g, %g, %g) (undefined conversion; x86-64 happens to yield bin 1)\n", hp->hbins[0], hp->hbins[1], hp->hbins[2]);
    char *text = NULL;
    count_lines_hist(&ds, 10u, 0.0, 0.0, &text);
    printf("%s", text ? text : "");
    free(text);
    const int bad = !(hp->binsize > 0.0);
    printf("%s\n", bad ? "REPRODUCED: bin size 0, 0/0 converted to uint16_t (see the sanitizer 'runtime error' lines)" : "not reproduced");
    return bad;
}

static int m_histwide(void)
{
    struct cmb_dataset ds; cmb_dataset_initialize(&ds);
    cmb_dataset_add(&ds, 0.0); cmb_dataset_add(&ds, 1000000000.0); cmb_dataset_add(&ds, 4294967296.0);
    printf("cmb_dataset_histogram_print(ds = {0, 1e9, 4294967296}, 20 bins, auto-scale): datarange = (unsigned)ceil(4294967296.0) is out of range\n");
    fflush(stdout);
    const int rows = count_lines_hist(&ds, 20u, 0.0, 0.0, NULL);
    printf("histogram rows printed: %d (requested 20 bins + 2 overflow bins = 22)\n", rows);
    struct cmb_dataset d2; cmb_dataset_initialize(&d2);
    cmb_dataset_add(&d2, 0.0); cmb_dataset_add(&d2, 1000000000.0); cmb_dataset_add(&d2, 4294967295.0);
    const int rows2 = count_lines_hist(&d2, 20u, 0.0, 0.0, NULL);
    printf("same with max = 4294967295: rows printed: %d\n", rows2);
    const int bad = rows != 22;
    printf("%s\n", bad ? "REPRODUCED: bin count collapses when the data range reaches 2^32 (float -> unsigned conversion out of range)" : "not reproduced");
    return bad;
}

static int m_acfscale(void)
{
    const double x[4] = { 0.0, 1.0, 0.0, 2.0 };
    const double c = 1e-6;
    struct cmb_dataset a, b; cmb_dataset_initialize(&a); cmb_dataset_initialize(&b);
    for (int i = 0; i < 4; i++) { cmb_dataset_add(&a, x[i]); cmb_dataset_add(&b, c * x[i]); }
    double ra[3], rb[3];
    cmb_dataset_ACF(&a, 2, ra);
    cmb_dataset_ACF(&b, 2, rb);
    printf("x = (0, 1, 0, 2):      ACF = (%g, %g, %g)\n", ra[0], ra[1], ra[2]);
    printf("1e-6 * x:              ACF = (%g, %g, %g)\n", rb[0], rb[1], rb[2]);
    const int bad = fabs(ra[1] - rb[1]) > 1e-9 || fabs(ra[2] - rb[2]) > 1e-9;
    printf("%s\n", bad ? "REPRODUCED: autocorrelation coefficients change under a positive scale factor (absolute variance threshold 1e-9)" : "not reproduced");
    return bad;
}

static int m_acfrange(void)
{
    const double x[4] = { 1.0, 0.0, 0.0, -1.0 };
    struct cmb_dataset a; cmb_dataset_initialize(&a);
    for (int i = 0; i < 4; i++) cmb_dataset_add(&a, x[i]);
    double r[4];
    printf("cmb_dataset_ACF(x = (1, 0, 0, -1), n = 3): lag 3 autocovariance (-1)/(N-3) = -1 over variance 2/3 = -1.5\n"); fflush(stdout);
    cmb_dataset_ACF(&a, 3, r);      /* debug build: aborts in the library's own assertion */
    printf("ACF = (%g, %g, %g, %g)\n", r[0], r[1], r[2], r[3]);
    const int bad = fabs(r[3]) > 1.0;
    printf("%s\n", bad ? "REPRODUCED: |acf[3]| > 1" : "not reproduced");
    return bad;
}

static int m_medianinf(void)
{
    struct cmb_dataset a; cmb_dataset_initialize(&a);
    cmb_dataset_add(&a, 1.7e308); cmb_dataset_add(&a, 1.7e308);
    const double r = cmb_dataset_median(&a);
    printf("cmb_dataset_median({1.7e308, 1.7e308}) = %g  (data range [1.7e308, 1.7e308])\n", r);
    const int bad = !(r >= a.min && r <= a.max);
    printf("%s\n", bad ? "REPRODUCED: (v[0] + v[1]) / 2 overflows" : "not reproduced");
    return bad;
}

/* ------------------------------------------------------------------ positive control */
static int mism;
#define CHECK(c, ...) do { if (!(c)) { mism++; printf("MISMATCH "); printf(__VA_ARGS__); printf("\n"); } } while (0)

static int cmpd(const void *a, const void *b) { const double x = *(const double *)a, y = *(const double *)b; return (x > y) - (x < y); }

static unsigned lcg_state = 12345u;
static unsigned lcg(void) { lcg_state = lcg_state * 1103515245u + 12345u; return (lcg_state >> 16) & 0x7fffu; }

static int m_control(void)
{
    /* datasets of every size 1..9 and across the doubling thresholds, small value range => duplicates */
    const unsigned sizes[] = { 1, 2, 3, 4, 5, 6, 7, 8, 9, 1023, 1024, 1025, 2048, 2049 };
    for (unsigned s = 0; s < sizeof sizes / sizeof *sizes; s++) {
        for (int pattern = 0; pattern < 4; pattern++) {
            const unsigned n = sizes[s];
            struct cmb_dataset ds; cmb_dataset_initialize(&ds);
            double *ref = malloc(n * sizeof *ref);
            for (unsigned i = 0; i < n; i++) {
                const double v = pattern == 0 ? (double)(lcg() % 7u) : pattern == 1 ? 3.0 : pattern == 2 ? (double)i : (double)(n - i);
                ref[i] = v;
                const uint64_t r = cmb_dataset_add(&ds, v);
                CHECK(r == i + 1u && ds.count == i + 1u && ds.count <= ds.cursize && ds.xa[i] == v, "add: n=%u i=%u", n, i);
            }
            CHECK(memcmp(ds.xa, ref, n * sizeof *ref) == 0, "add/growth: earlier samples not preserved, n=%u", n);
            CHECK(ds.cursize == (n <= 1024 ? 1024u : n <= 2048 ? 2048u : 4096u), "growth: cursize %lu for n=%u", (unsigned long)ds.cursize, n);
            struct cmb_dataset cp = { 0 };
            cmb_dataset_copy(&cp, &ds);
            CHECK(cp.count == n && cp.min == ds.min && cp.max == ds.max && memcmp(cp.xa, ref, n * sizeof *ref) == 0, "copy: n=%u", n);
            const double med = cmb_dataset_median(&ds);
            cmb_dataset_sort(&cp);
            qsort(ref, n, sizeof *ref, cmpd);
            CHECK(memcmp(cp.xa, ref, n * sizeof *ref) == 0, "sort: n=%u pattern=%d differs from qsort", n, pattern);
            unsigned below = 0, above = 0;
            for (unsigned i = 0; i < n; i++) { below += ref[i] < med; above += ref[i] > med; }
            CHECK(2u * below <= n && 2u * above <= n && med >= ref[0] && med <= ref[n - 1], "median: n=%u pattern=%d median %g (below %u above %u)", n, pattern, med, below, above);
            if (n >= 2) {
                double f[5]; char line[256];
                const int k = capture5(ds_five, &ds, f, line, sizeof line);
                CHECK(k == 5 && f[0] <= f[1] && f[1] <= f[2] && f[2] <= f[3] && f[3] <= f[4] && f[0] >= ref[0] - 1e-3 * fabs(ref[0]) && f[4] <= ref[n - 1] + 1e-3 * fabs(ref[n - 1]),
                      "fivenum: n=%u pattern=%d: %s", n, pattern, line);
                CHECK(fabs(f[2] - med) <= 1e-3 * (1.0 + fabs(med)), "fivenum median %g vs cmb_dataset_median %g, n=%u", f[2], med, n);
            }
            if (pattern != 1 && n >= 2) {
                for (unsigned nb = 1; nb <= 5; nb += 2) {
                    const double lo = 1.0, hi = 5.0;
                    struct cmi_dataset_histogram *hp = cmi_dataset_histogram_create(nb, lo, hi);
                    cmi_dataset_histogram_fill(hp, n, ds.xa);
                    double sum = 0.0, nbelow = 0.0, nabove = 0.0;
                    for (unsigned b = 0; b < hp->num_bins; b++) sum += hp->hbins[b];
                    for (unsigned i = 0; i < n; i++) { nbelow += ref[i] < lo; nabove += ref[i] > hi; }
                    CHECK(hp->num_bins == nb + 2u && sum == (double)n && hp->hbins[0] == nbelow && hp->hbins[nb + 1u] >= nabove, "histogram: n=%u nb=%u sum %g", n, nb, sum);
                    if (nb == 1u) CHECK(hp->hbins[1] + hp->hbins[2] == (double)n - nbelow, "histogram: inner bin n=%u", n);
                    cmi_dataset_histogram_destroy(hp);
                }
            }
            cmb_dataset_terminate(&cp); cmb_dataset_terminate(&ds); free(ref);
        }
    }
    /* time series: add / weights / sort_x + sort_t / copy / weighted median where an exact answer exists */
    for (unsigned n = 1; n <= 1026; n = (n < 9 ? n + 1 : n == 9 ? 1023 : n + 1)) {
        struct cmb_timeseries ts; cmb_timeseries_initialize(&ts);
        double *x = malloc(n * sizeof *x), *t = malloc(n * sizeof *t);
        double now = 0.0;
        for (unsigned i = 0; i < n; i++) {
            x[i] = (double)(lcg() % 5u); t[i] = now;
            const uint64_t r = cmb_timeseries_add(&ts, x[i], now);
            CHECK(r == i + 1u && ts.ds.xa[i] == x[i] && ts.ta[i] == now && ts.wa[i] == 0.0, "ts add: n=%u i=%u", n, i);
            if (i > 0) CHECK(ts.wa[i - 1] == t[i] - t[i - 1], "ts add: weight of previous sample %g != %g (n=%u i=%u)", ts.wa[i - 1], t[i] - t[i - 1], n, i);
            now += (double)(1u + lcg() % 3u);
        }
        for (unsigned i = 0; i + 1 < n; i++) CHECK(ts.wa[i] == t[i + 1] - t[i] && ts.ta[i] == t[i] && ts.ds.xa[i] == x[i], "ts growth: sample %u of %u not preserved", i, n);
        struct cmb_wtdsummary ws;
        const uint64_t k = cmb_timeseries_summarize(&ts, &ws);
        double W = 0.0; for (unsigned i = 0; i + 1 < n; i++) W += ts.wa[i];
        CHECK(k == n - 1u && (n < 2 || fabs(ws.wsum - W) < 1e-9), "ts summarize: n=%u count %lu wsum %g vs %g", n, (unsigned long)k, ws.wsum, W);
        struct cmb_timeseries cp = { 0 };
        cmb_timeseries_copy(&cp, &ts);
        CHECK(cp.ds.count == n && memcmp(cp.ds.xa, x, n * sizeof *x) == 0 && memcmp(cp.ta, t, n * sizeof *t) == 0 && memcmp(cp.wa, ts.wa, n * sizeof *t) == 0, "ts copy: n=%u", n);
        cmb_timeseries_sort_x(&cp);
        for (unsigned i = 0; i + 1 < n; i++) CHECK(cp.ds.xa[i] <= cp.ds.xa[i + 1], "ts sort_x: not ascending at %u of %u", i, n);
        for (unsigned i = 0; i < n; i++) {      /* triple kept together: look the time stamp up (time stamps are distinct) */
            unsigned j = 0; while (j < n && t[j] != cp.ta[i]) j++;
            CHECK(j < n && x[j] == cp.ds.xa[i] && ts.wa[j] == cp.wa[i], "ts sort_x: triple %u of %u torn apart", i, n);
        }
        cmb_timeseries_sort_t(&cp);
        CHECK(memcmp(cp.ds.xa, x, n * sizeof *x) == 0 && memcmp(cp.ta, t, n * sizeof *t) == 0 && memcmp(cp.wa, ts.wa, n * sizeof *t) == 0, "ts sort_t: original order not restored, n=%u", n);
        cmb_timeseries_terminate(&cp); cmb_timeseries_terminate(&ts); free(x); free(t);
    }
    {   /* weighted median where the interpolation happens to be exact: two value classes, equal durations */
        const double x[3] = { 2.0, 6.0, 6.0 }, t[3] = { 0.0, 3.0, 6.0 };
        struct cmb_timeseries ts; mk_series(&ts, x, t, 3);
        const double r = cmb_timeseries_median(&ts);
        CHECK(r >= 2.0 && r <= 6.0, "ts median of (2 for 3, 6 for 3): %g outside [2, 6]", r);
    }
    {   /* ACF: lag 0, shift and moderate scale */
        const double x[6] = { 1.0, 3.0, 2.0, 5.0, 4.0, 7.0 };
        struct cmb_dataset a, b; cmb_dataset_initialize(&a); cmb_dataset_initialize(&b);
        for (int i = 0; i < 6; i++) { cmb_dataset_add(&a, x[i]); cmb_dataset_add(&b, 3.0 * x[i] + 11.0); }
        double ra[3], rb[3];
        cmb_dataset_ACF(&a, 2, ra); cmb_dataset_ACF(&b, 2, rb);
        double mean = 0.0, var = 0.0, c1 = 0.0;
        for (int i = 0; i < 6; i++) mean += x[i] / 6.0;
        for (int i = 0; i < 6; i++) var += (x[i] - mean) * (x[i] - mean) / 5.0;
        for (int i = 0; i < 5; i++) c1 += (x[i] - mean) * (x[i + 1] - mean) / 5.0;
        CHECK(ra[0] == 1.0 && rb[0] == 1.0, "ACF lag 0: %g %g", ra[0], rb[0]);
        CHECK(fabs(ra[1] - rb[1]) < 1e-12 && fabs(ra[2] - rb[2]) < 1e-12, "ACF(3x+11) != ACF(x): %g %g vs %g %g", rb[1], rb[2], ra[1], ra[2]);
        CHECK(fabs(ra[1] - c1 / var) < 1e-12, "ACF lag 1: %g vs definition %g", ra[1], c1 / var);
    }
    printf("control: %d mismatches\n", mism);
    return mism != 0;
}

int main(int argc, char **argv)
{
    setvbuf(stdout, NULL, _IONBF, 0);
    const char *m = argc > 1 ? argv[1] : "";
    if (!strcmp(m, "fivenum1")) return m_fivenum1();
    if (!strcmp(m, "copyadd")) return m_copyadd();
    if (!strcmp(m, "tsmedian")) return m_tsmedian();
    if (!strcmp(m, "tsfivenum")) return m_tsfivenum();
    if (!strcmp(m, "tsinterp")) return m_tsinterp();
    if (!strcmp(m, "histconst")) return m_histconst(0);
    if (!strcmp(m, "histtrap")) return m_histconst(1);
    if (!strcmp(m, "histwide")) return m_histwide();
    if (!strcmp(m, "acfscale")) return m_acfscale();
    if (!strcmp(m, "acfrange")) return m_acfrange();
    if (!strcmp(m, "medianinf")) return m_medianinf();
    if (!strcmp(m, "control")) return m_control();
    fprintf(stderr, "usage: replay_c18 fivenum1|copyadd|tsmedian|tsfivenum|tsinterp|histconst|histtrap|histwide|acfscale|acfrange|medianinf|control\n");
    return 2;
}
