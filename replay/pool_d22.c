/*
 * pool_d22.c - native scenario for C07: a multi-step acquire is granted and preempted in the same
 * instant, the grant is delivered first.  Pool capacity 5.
 *   t=0  P (priority 0) acquires 2; A (priority 5) acquires 2.
 *   t=0.5 P asks for 3 more: takes the 1 that is free (holds 3), waits for 2.
 *   t=1  A releases 2  -> the guard grants P (SUCCESS wake-up scheduled at t=1).
 *        A then preempts 4: takes the 2 free, takes P's whole record (3), keeps 2 of them, puts 1 back,
 *        and posts the PREEMPTED notice for P (after the grant, same instant).
 *   t=1  P's grant fires first: P takes the 1 free unit (new record: 1) and waits again.
 *   t=1  the PREEMPTED notice arrives: the acquire rolls back.
 * Property: in_use == sum of holdings <= capacity, and the preempted P holds nothing afterwards.
 * exit 1 = violated (or aborted).
 */
#include <inttypes.h>
#include <stdio.h>
#include "cmb_event.h"
#include "cmb_logger.h"
#include "cmb_process.h"
#include "cmb_resourcepool.h"
static struct cmb_resourcepool *pool; static struct cmb_process *pp, *pa; static int bad; static int64_t psig = 99;
static void check(const char *w)
{
    uint64_t s = cmb_resourcepool_held_by_process(pool, pp) + cmb_resourcepool_held_by_process(pool, pa);
    printf("t=%g %s: in_use %" PRIu64 " P holds %" PRIu64 " A holds %" PRIu64 "\n", cmb_time(), w, pool->in_use, cmb_resourcepool_held_by_process(pool, pp), cmb_resourcepool_held_by_process(pool, pa));
    if (pool->in_use != s || pool->in_use > 5) { printf("VIOLATED at %s: in_use %" PRIu64 " != sum of holdings %" PRIu64 " (capacity 5)\n", w, pool->in_use, s); bad = 1; }
}
static void *fp(struct cmb_process *me, void *c) { (void)me; (void)c; cmb_resourcepool_acquire(pool, 2); cmb_process_hold(0.5); psig = cmb_resourcepool_acquire(pool, 3); check("after P's second acquire returned");
    if (psig == CMB_PROCESS_PREEMPTED && cmb_resourcepool_held_by_process(pool, pp) != 0) { printf("VIOLATED: P was preempted (signal %ld) but still holds %" PRIu64 "\n", (long)psig, cmb_resourcepool_held_by_process(pool, pp)); bad = 1; }
    cmb_process_hold(10.0); return NULL; }
static void *fa(struct cmb_process *me, void *c) { (void)me; (void)c; cmb_resourcepool_acquire(pool, 2); cmb_process_hold(1.0); cmb_resourcepool_release(pool, 2); cmb_resourcepool_preempt(pool, 4); check("after A's preempt"); cmb_process_hold(5.0); check("end"); return NULL; }
static void endsim(void *s, void *o) { (void)s; (void)o; cmb_event_queue_clear(); }
int main(void)
{
    cmb_logger_flags_off(CMB_LOGGER_INFO | CMB_LOGGER_WARNING);
    cmb_event_queue_initialize(0.0);
    pool = cmb_resourcepool_create(); cmb_resourcepool_initialize(pool, "pool", 5);
    pp = cmb_process_create(); pa = cmb_process_create();
    cmb_process_initialize(pp, "P", fp, NULL, 0); cmb_process_initialize(pa, "A", fa, NULL, 5);
    cmb_process_start(pp); cmb_process_start(pa);
    cmb_event_schedule(endsim, NULL, NULL, 8.0, 0);
    cmb_event_queue_execute();
    printf("P's second acquire returned %ld\n", (long)psig);
    return bad;
}
