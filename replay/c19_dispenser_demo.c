/*
 * demo.c (C19 / m1) - does cimba_run_experiment call the trial function
 * exactly once for every element of the trial array, with its own element,
 * and return only when all calls are done - for trial counts below, at and
 * above the number of cores, and when several workers finish at the same
 * instant?
 *
 * The trial array is followed by a strip of canary elements that are not part
 * of the experiment (num_trials does not include them), so a call that is
 * handed an element past the end is caught without corrupting the heap.
 *
 * The first min(num_trials, ncores) trials of each round meet at a rendezvous
 * before they return. This is just one particular mix of trial durations: it
 * makes that many workers come back to the trial dispenser together, with only
 * a few (or no) trials left to hand out.
 *
 * Exit 0: property holds in every round.  Exit 1: violated.
 */
#include <inttypes.h>
#include <sched.h>
#include <stdint.h>
#include <stdio.h>
#include <stdlib.h>
#include <string.h>
#include <sys/sysinfo.h>
#include <time.h>

#include "cimba.h"

/* Deliberately not a multiple of eight bytes */
struct trial {
    uint32_t id;        /* Parameter: own index in the array */
    uint32_t meet;      /* Parameter: nonzero if this trial joins the rendezvous */
    uint32_t calls;     /* Outcome: number of times this element was run */
};

static struct trial *base;
static uint64_t cur_trials;
static uint64_t cur_meeters;

static uint64_t total_calls;
static uint64_t in_flight;
static uint64_t arrived;
static uint64_t out_of_range;
static uint64_t wrong_element;
static uint64_t stuck;

static double now(void)
{
    struct timespec ts;
    clock_gettime(CLOCK_MONOTONIC, &ts);
    return (double)ts.tv_sec + 1.0e-9 * (double)ts.tv_nsec;
}

static void trial_func(void *vtrl)
{
    struct trial *trl = vtrl;
    __atomic_fetch_add(&in_flight, 1u, __ATOMIC_SEQ_CST);
    __atomic_fetch_add(&total_calls, 1u, __ATOMIC_SEQ_CST);

    const uint64_t idx = (uint64_t)(trl - base);
    if (idx >= cur_trials) {
        __atomic_fetch_add(&out_of_range, 1u, __ATOMIC_SEQ_CST);
    }
    else if (trl->id != idx) {
        __atomic_fetch_add(&wrong_element, 1u, __ATOMIC_SEQ_CST);
    }

    __atomic_fetch_add(&(trl->calls), 1u, __ATOMIC_SEQ_CST);

    if (trl->meet != 0u) {
        /* Long trial: ends when all the long trials of this round are running */
        __atomic_fetch_add(&arrived, 1u, __ATOMIC_SEQ_CST);
        const double deadline = now() + 30.0;
        uint64_t spins = 0u;
        while (__atomic_load_n(&arrived, __ATOMIC_SEQ_CST) < cur_meeters) {
            if ((++spins % 1024u) == 0u) {
                sched_yield();
                if (now() > deadline) {
                    __atomic_fetch_add(&stuck, 1u, __ATOMIC_SEQ_CST);
                    break;
                }
            }
        }
    }
    else {
        /* Short trial */
        for (volatile unsigned ui = 0u; ui < 50u; ui++) { }
    }

    __atomic_fetch_sub(&in_flight, 1u, __ATOMIC_SEQ_CST);
}

static unsigned run_round(const uint64_t ntrials, const uint64_t ncores)
{
    const uint64_t ncanaries = 2u * ncores + 8u;
    struct trial *arr = calloc(ntrials + ncanaries, sizeof(*arr));
    const uint64_t nmeet = (ntrials < ncores) ? ntrials : ncores;
    for (uint64_t ui = 0u; ui < ntrials + ncanaries; ui++) {
        arr[ui].id = (uint32_t)ui;
        arr[ui].meet = (ui < nmeet) ? 1u : 0u;
        arr[ui].calls = 0u;
    }

    base = arr;
    cur_trials = ntrials;
    cur_meeters = nmeet;
    total_calls = in_flight = arrived = 0u;
    out_of_range = wrong_element = stuck = 0u;

    cimba_run_experiment(arr, ntrials, sizeof(*arr), trial_func);

    unsigned nbad = 0u;
    const uint64_t still_running = __atomic_load_n(&in_flight, __ATOMIC_SEQ_CST);
    const uint64_t ncalls = __atomic_load_n(&total_calls, __ATOMIC_SEQ_CST);
    if (still_running != 0u) {
        printf("  %" PRIu64 " trial calls still running at return\n", still_running);
        nbad++;
    }
    if (ncalls != ntrials) {
        printf("  %" PRIu64 " trial calls made for %" PRIu64 " trials\n", ncalls, ntrials);
        nbad++;
    }
    if (out_of_range != 0u) {
        printf("  %" PRIu64 " calls were handed an element past the end of the array\n",
               out_of_range);
        nbad++;
    }
    if (wrong_element != 0u) {
        printf("  %" PRIu64 " calls were handed a misplaced element\n", wrong_element);
        nbad++;
    }
    if (stuck != 0u) {
        printf("  rendezvous timed out, %" PRIu64 " of %" PRIu64 " long trials started\n",
               arrived, nmeet);
        nbad++;
    }
    for (uint64_t ui = 0u; ui < ntrials; ui++) {
        if (arr[ui].calls != 1u) {
            printf("  trial %" PRIu64 " was run %u times\n", ui, arr[ui].calls);
            nbad++;
        }
    }
    for (uint64_t ui = ntrials; ui < ntrials + ncanaries; ui++) {
        if (arr[ui].calls != 0u) {
            printf("  element %" PRIu64 " (not part of the experiment) was run %u times\n",
                   ui, arr[ui].calls);
            nbad++;
        }
    }

    free(arr);
    return nbad;
}

int main(void)
{
    const uint64_t ncores = (uint64_t)get_nprocs();
    const uint64_t counts[] = {
        1u, 2u,
        (ncores > 1u) ? ncores - 1u : 1u,
        ncores,
        ncores + 1u,
        ncores + 2u,
        ncores + (ncores / 2u) + 1u,
        2u * ncores + 1u,
        5u * ncores + 3u
    };
    const unsigned ncounts = sizeof(counts) / sizeof(counts[0]);

    printf("%" PRIu64 " cores\n", ncores);
    for (unsigned rep = 0u; rep < 40u; rep++) {
        for (unsigned k = 0u; k < ncounts; k++) {
            const unsigned nbad = run_round(counts[k], ncores);
            if (nbad != 0u) {
                printf("FAIL: repetition %u, experiment of %" PRIu64 " trials on %" PRIu64
                       " cores\n", rep, counts[k], ncores);
                return 1;
            }
        }
    }

    printf("PASS: every trial run exactly once with its own element, all done at return\n");
    return 0;
}
