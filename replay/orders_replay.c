/*
 * Native replay of an order-function counterexample: the real comparison function (the
 * working-tree .c file is #included, so the static function is the real one) is called with
 * the verifier's three tags; the same five facts are re-evaluated.
 * argv: key_a dbits_a i_a  key_b dbits_b i_b  key_c dbits_c i_c   (doubles as raw 64-bit patterns)
 * exit 1 = at least one fact is false natively (violation reproduced), 0 = all hold.
 */
#include <stdio.h>
#include <stdlib.h>
#include <string.h>
#include <stdint.h>
#include <stdbool.h>
#if defined(ORDER_EVENT)
#include "src/cmb_event.c"
#define CMP heap_order_check
#define SPEC(a,b) ((a)->dsortkey < (b)->dsortkey || ((a)->dsortkey == (b)->dsortkey && \
        ((a)->isortkey > (b)->isortkey || ((a)->isortkey == (b)->isortkey && (a)->key < (b)->key))))
#elif defined(ORDER_GUARD)
#include "src/cmb_resourceguard.c"
#define CMP guard_queue_check
#define SPEC(a,b) ((a)->isortkey > (b)->isortkey || ((a)->isortkey == (b)->isortkey && \
        ((a)->dsortkey < (b)->dsortkey || ((a)->dsortkey == (b)->dsortkey && (a)->key < (b)->key))))
#elif defined(ORDER_HOLDER)
#include "src/cmb_resourcepool.c"
#define CMP holder_queue_check
#define SPEC(a,b) ((a)->isortkey < (b)->isortkey || ((a)->isortkey == (b)->isortkey && (a)->key > (b)->key))
#elif defined(ORDER_PRIOQ)
#include "src/cmb_priorityqueue.c"
#define CMP compare_func
#define SPEC(a,b) ((a)->isortkey > (b)->isortkey || ((a)->isortkey == (b)->isortkey && (a)->key < (b)->key))
#elif defined(ORDER_DEFAULT)
#include "src/cmi_hashheap.c"
#define CMP default_order_check
#define SPEC(a,b) ((a)->dsortkey < (b)->dsortkey)
#define WEAK_ONLY 1
#endif

static void rd(struct cmi_heap_tag *t, char **av)
{
    memset(t, 0, sizeof *t);
    t->key = strtoull(av[0], NULL, 0);
    uint64_t bits = strtoull(av[1], NULL, 0);
    memcpy(&t->dsortkey, &bits, 8);
    t->isortkey = strtoll(av[2], NULL, 0);
}

int main(int argc, char **argv)
{
    if (argc < 10) return 2;
    struct cmi_heap_tag a, b, c;
    rd(&a, argv + 1); rd(&b, argv + 4); rd(&c, argv + 7);
    int bad = 0;
    const bool ab = CMP(&a, &b), ba = CMP(&b, &a), bc = CMP(&b, &c), ac = CMP(&a, &c), ca = CMP(&c, &a), cb = CMP(&c, &b);
    printf("a=(key %lu, t %g, pri %ld) b=(key %lu, t %g, pri %ld) c=(key %lu, t %g, pri %ld)\n",
           a.key, a.dsortkey, a.isortkey, b.key, b.dsortkey, b.isortkey, c.key, c.dsortkey, c.isortkey);
    printf("cmp(a,b)=%d cmp(b,a)=%d cmp(b,c)=%d cmp(a,c)=%d spec(a,b)=%d\n", ab, ba, bc, ac, (int)SPEC(&a, &b));
    if (ab != (bool)SPEC(&a, &b)) { printf("VIOLATED: compare(a,b) differs from the specified order\n"); bad = 1; }
    if (CMP(&a, &a)) { printf("VIOLATED: irreflexive\n"); bad = 1; }
    if (ab && ba) { printf("VIOLATED: asymmetric\n"); bad = 1; }
    if (ab && bc && !ac) { printf("VIOLATED: transitive\n"); bad = 1; }
#ifndef WEAK_ONLY
    if (a.key != b.key && !ab && !ba) { printf("VIOLATED: total\n"); bad = 1; }
#else
    if (!ab && !ba && !bc && !cb && (ac || ca)) { printf("VIOLATED: incomparability transitive\n"); bad = 1; }
#endif
    return bad;
}
