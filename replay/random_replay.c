/*
 * random_replay.c - native replay for C15: real library vs the documented generator.
 * argv: seed prior_draws prior_flips
 * The thread first seeds with another seed, draws `prior_draws` raw values and `prior_flips` coin
 * flips (its "history"), then seeds with `seed`; the next 8 raw outputs, then 70 flips, must
 * equal the reference stream (splitmix64 bootstrap a,b,c,d + 20 discards; sfc64).
 * exit 1 = differs.
 */
#include <stdio.h>
#include <stdlib.h>
#include <stdint.h>
#include <inttypes.h>
#include "cmb_random.h"
static uint64_t A, B, C, D;
static uint64_t ref(void) { uint64_t t = A + B + D++; A = B ^ (B >> 11); B = C + (C << 3); C = ((C << 24) | (C >> 40)) + t; return t; }
static uint64_t sm(uint64_t *x) { uint64_t z = (*x += 0x9e3779b97f4a7c15ull); z = (z ^ (z >> 30)) * 0xbf58476d1ce4e5b9ull; z = (z ^ (z >> 27)) * 0x94d049bb133111ebull; return z ^ (z >> 31); }
int main(int argc, char **argv)
{
    uint64_t seed = argc > 1 ? strtoull(argv[1], 0, 0) : 42; int pd = argc > 2 ? atoi(argv[2]) : 3, pf = argc > 3 ? atoi(argv[3]) : 5, bad = 0;
    cmb_random_initialize(seed ^ 0x1234567);
    for (int i = 0; i < pd; i++) (void)cmb_random_sfc64();
    for (int i = 0; i < pf; i++) (void)cmb_random_flip();
    (void)cmb_random_std_gamma(2.5); (void)cmb_random_geometric(0.3);
    cmb_random_initialize(seed);
    uint64_t x = seed; A = sm(&x); B = sm(&x); C = sm(&x); D = sm(&x); for (int i = 0; i < 20; i++) (void)ref();
    if (cmb_random_curseed() != seed) { printf("VIOLATED: curseed\n"); bad = 1; }
    for (int i = 0; i < 8; i++) { uint64_t g = cmb_random_sfc64(), e = ref(); if (g != e) { printf("VIOLATED: raw output %d after seeding with %" PRIu64 " is %016" PRIx64 ", documented generator gives %016" PRIx64 "\n", i, seed, g, e); bad = 1; } }
    uint64_t w = 0; int left = 0;
    for (int i = 0; i < 70; i++) { if (!left) { w = ref(); left = 64; } int e = (int)((w >> --left) & 1), g = cmb_random_flip(); if (g != e) { printf("VIOLATED: flip %d after seeding is %d, expected %d\n", i, g, e); bad = 1; break; } }
    printf(bad ? "stream differs from the documented generator\n" : "stream equals the documented generator\n");
    return bad;
}
