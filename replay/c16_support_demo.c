/* C16 native demo with the REAL generator: support violations that need no raw-value injection.
 * exit 0 = every sample stayed inside its support. */
#include <stdio.h>
#include <math.h>
#include <stdint.h>
#include "cmb_random.h"
int main(void)
{
    int bad = 0;
    cmb_random_initialize(12345u);
    const double mn = -0x1.000004p-33, mx = 0x1.fffffffdfffffp-2;
    for (int i = 0; i < 2000; i++) {
        const double r = cmb_random_beta(2.0, 0.01, mn, mx);
        if (!(r >= mn && r <= mx)) { printf("beta(2,0.01,%a,%a) = %a outside [min,max]\n", mn, mx, r); bad++; break; }
    }
    for (int i = 0; i < 2000; i++) {
        const double g = cmb_random_std_gamma(0.2);
        if (!(g >= 0.0) || isinf(g)) { printf("std_gamma(0.2) = %g\n", g); bad++; break; }
    }
    for (int i = 0; i < 2000; i++) {
        const double g = cmb_random_std_beta(0.3, 0.25);
        if (!(g >= 0.0 && g <= 1.0)) { printf("std_beta(0.3,0.25) = %g\n", g); bad++; break; }
    }
    for (int i = 0; i < 100; i++) {
        const unsigned k = cmb_random_geometric(1.0);
        if (k != 1u) { printf("geometric(1.0) = %u, must be 1\n", k); bad++; break; }
    }
    for (int i = 0; i < 2000; i++) {
        const unsigned k = cmb_random_geometric(1e-12);
        if (k < 1u) { printf("geometric(1e-12) = %u\n", k); bad++; break; }
    }
    for (int i = 0; i < 100; i++) {
        const unsigned k = cmb_random_negative_binomial(3u, 1.0);
        if (k != 0u) { printf("negative_binomial(3,1.0) = %u, must be 0\n", k); bad++; break; }
    }
    return bad ? 1 : 0;
}
