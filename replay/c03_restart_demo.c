/*
 * C03 / m2 demo: when a coroutine's function returns, the returned value
 * becomes its exit value and control goes back to the coroutine that started
 * it - also when the coroutine is a finished one that has been reset and is
 * started again by somebody else than the first time around.
 *
 * Sequence needed:
 *   1. main starts worker W; W runs to completion, control returns to main.
 *   2. main starts supervisor S. S resets W and starts it again.
 *   3. W's function returns. Control and W's return value must surface in S
 *      (inside its cmi_coroutine_start call), which then finishes normally and
 *      hands its own return value to main.
 *
 * Exit 0 = property holds, non-zero = violated.
 */
#include <stdint.h>
#include <stdio.h>

#include "cmi_coroutine.h"

#define W_CONTEXT   ((void *)0xC0FFEE)
#define S_EXIT      ((void *)0x5E11)

static struct cmi_coroutine *cpW, *cpS;
static int failures = 0;
static int w_runs = 0;
static int s_saw_w_return = 0;
static void *s_received = NULL;

static void *worker(struct cmi_coroutine *me, void *context)
{
    if (me != cpW || context != W_CONTEXT) {
        printf("FAIL: W launched with wrong handle/context (%p, %p)\n",
               (void *)me, context);
        failures++;
    }

    w_runs++;
    /* A different return value for each run: 0xE001, 0xE002, ... */
    return (void *)(uintptr_t)(0xE000 + w_runs);
}

static void *supervisor(struct cmi_coroutine *me, void *context)
{
    (void)me;
    (void)context;

    /* Re-use the finished worker rather than creating a new one */
    cmi_coroutine_reset(cpW);
    s_received = cmi_coroutine_start(cpW, NULL);

    /* W returned: we started it, so this is where control has to come */
    s_saw_w_return = 1;

    return S_EXIT;
}

int main(void)
{
    cpW = cmi_coroutine_create();
    cpS = cmi_coroutine_create();
    cmi_coroutine_initialize(cpW, worker, W_CONTEXT, NULL, 32 * 1024);
    cmi_coroutine_initialize(cpS, supervisor, NULL, NULL, 32 * 1024);

    /* First run of W, started from the main stack */
    void *r = cmi_coroutine_start(cpW, NULL);
    if (r != (void *)0xE001
            || cmi_coroutine_status(cpW) != CMI_COROUTINE_FINISHED
            || cmi_coroutine_exit_value(cpW) != (void *)0xE001) {
        printf("FAIL: first run of W: got %p, status %d, exit value %p\n",
               r, (int)cmi_coroutine_status(cpW), cmi_coroutine_exit_value(cpW));
        failures++;
    }

    /* Second run of W, started from inside S */
    r = cmi_coroutine_start(cpS, NULL);

    if (cmi_coroutine_current() != cmi_coroutine_main()) {
        printf("FAIL: not on the main coroutine at the end\n");
        failures++;
    }

    if (w_runs != 2
            || cmi_coroutine_status(cpW) != CMI_COROUTINE_FINISHED
            || cmi_coroutine_exit_value(cpW) != (void *)0xE002) {
        printf("FAIL: second run of W: runs %d, status %d, exit value %p\n",
               w_runs, (int)cmi_coroutine_status(cpW), cmi_coroutine_exit_value(cpW));
        failures++;
    }

    if (!s_saw_w_return || s_received != (void *)0xE002) {
        printf("FAIL: S started W, but W's return did not come back to S "
               "(S resumed: %d, S received %p, expected 0xe002)\n",
               s_saw_w_return, s_received);
        failures++;
    }

    if (r != S_EXIT) {
        printf("FAIL: main's start(S) returned %p, expected S's exit value %p\n",
               r, S_EXIT);
        failures++;
    }

    if (cmi_coroutine_status(cpS) != CMI_COROUTINE_FINISHED) {
        printf("FAIL: S is left suspended inside its start(W) call\n");
        failures++;
        cmi_coroutine_stop(cpS, NULL);
    }
    else if (cmi_coroutine_exit_value(cpS) != S_EXIT) {
        printf("FAIL: S exit value %p, expected %p\n",
               cmi_coroutine_exit_value(cpS), S_EXIT);
        failures++;
    }

    cmi_coroutine_terminate(cpW);
    cmi_coroutine_terminate(cpS);
    cmi_coroutine_destroy(cpW);
    cmi_coroutine_destroy(cpS);

    if (failures != 0) {
        printf("C03 m2 demo: %d failure(s): exit did NOT return to the starter\n", failures);
        return 1;
    }

    printf("C03 m2 demo: OK, exit returned control and value to the starting coroutine\n");
    return 0;
}
