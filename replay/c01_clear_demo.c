/*
 * demo.c (C01 / m2) - handle queries and cancel after cmb_event_queue_clear().
 *
 * Phase 1 schedules NOLD events (enough to cross two capacity doublings of
 * the queue: 8 -> 16 -> 32) plus an "end of run" event that calls
 * cmb_event_queue_clear() from inside its action, the way the library
 * documents ending a simulation run. Some phase-1 events run before the end
 * event, the rest are cleared.
 *
 * Phase 2 reuses the same queue: it schedules NNEW fresh events, then does
 * what a model holding stale timer handles would do:
 *      if (cmb_event_is_scheduled(old)) cmb_event_cancel(old);
 * for every phase-1 handle.
 *
 * Property checks:
 *   - after the clear, the queue is empty and NO phase-1 handle is scheduled;
 *   - cleared events never run;
 *   - with phase-2 events pending, is_scheduled() is false for every phase-1
 *     handle, cmb_event_cancel(old) returns false and removes nothing, and
 *     count / pattern_count still equal the number of phase-2 events;
 *   - every phase-2 event runs exactly once, in (time, priority, FIFO) order,
 *     with the clock equal to its time.
 *
 * Exit 0 if all checks hold, 1 otherwise.
 */
#include <inttypes.h>
#include <stdint.h>
#include <stdio.h>
#include <stdbool.h>

#include "cmb_event.h"

#define NOLD 20u
#define NNEW 20u

struct rec {
    uint64_t handle;
    double time;
    int64_t prio;
    bool pending;
    unsigned runs;
};

static struct rec oldev[NOLD];
static struct rec newev[NNEW];
static unsigned failures = 0u;
static bool cleared = false;

#define FAIL(...) do { failures++; if (failures <= 12u) { printf("FAIL: " __VA_ARGS__); printf("\n"); } } while (0)

static bool goes_before(const struct rec *a, const struct rec *b)
{
    if (a->time != b->time) return a->time < b->time;
    if (a->prio != b->prio) return a->prio > b->prio;
    return a->handle < b->handle;
}

static void old_action(void *subject, void *object)
{
    (void)object;
    struct rec *r = (struct rec *)subject;
    r->runs++;
    if (cleared) {
        FAIL("phase-1 event %" PRIu64 " ran after the queue was cleared", r->handle);
    }
    if (cmb_time() != r->time) {
        FAIL("phase-1 event %" PRIu64 ": clock %g != %g", r->handle, cmb_time(), r->time);
    }
    r->pending = false;
}

static void end_run(void *subject, void *object)
{
    (void)subject;
    (void)object;
    cmb_event_queue_clear();
    cleared = true;
    for (unsigned i = 0u; i < NOLD; i++) {
        oldev[i].pending = false;
    }
}

static void new_action(void *subject, void *object)
{
    (void)object;
    struct rec *r = (struct rec *)subject;
    r->runs++;
    if (!r->pending) {
        FAIL("phase-2 event %" PRIu64 " ran although not pending (runs=%u)", r->handle, r->runs);
    }
    if (cmb_time() != r->time) {
        FAIL("phase-2 event %" PRIu64 ": clock %g != %g", r->handle, cmb_time(), r->time);
    }
    if (cmb_event_current() != r->handle) {
        FAIL("cmb_event_current() = %" PRIu64 " while %" PRIu64 " runs", cmb_event_current(), r->handle);
    }
    for (unsigned i = 0u; i < NNEW; i++) {
        if (&newev[i] != r && newev[i].pending && goes_before(&newev[i], r)) {
            FAIL("phase-2 event %" PRIu64 " ran before pending event %" PRIu64, r->handle, newev[i].handle);
            break;
        }
    }
    r->pending = false;
}

int main(void)
{
    cmb_event_queue_initialize(0.0);

    /* ---- Phase 1 ---- */
    for (unsigned i = 0u; i < NOLD; i++) {
        oldev[i].time = 1.0 + (double)i;
        oldev[i].prio = 0;
        oldev[i].pending = true;
        oldev[i].handle = cmb_event_schedule(old_action, &oldev[i], NULL, oldev[i].time, 0);
    }
    (void)cmb_event_schedule(end_run, NULL, NULL, 5.5, 0);
    while (cmb_event_execute_next()) { }

    if (!cleared) {
        FAIL("end-of-run event did not execute");
    }
    if (!cmb_event_queue_is_empty() || cmb_event_queue_count() != 0u) {
        FAIL("queue not empty after clear: count %" PRIu64, cmb_event_queue_count());
    }
    for (unsigned i = 0u; i < NOLD; i++) {
        const unsigned want = (oldev[i].time < 5.5) ? 1u : 0u;
        if (oldev[i].runs != want) {
            FAIL("phase-1 event %" PRIu64 " ran %u times, expected %u", oldev[i].handle, oldev[i].runs, want);
        }
        if (cmb_event_is_scheduled(oldev[i].handle)) {
            FAIL("phase-1 handle %" PRIu64 " reported scheduled on an empty queue", oldev[i].handle);
        }
    }

    /* ---- Phase 2: reuse the queue ---- */
    for (unsigned i = 0u; i < NNEW; i++) {
        newev[i].time = cmb_time() + 1.0 + (double)(i % 4u);
        newev[i].prio = (int64_t)(i % 3u);
        newev[i].pending = true;
        newev[i].handle = cmb_event_schedule(new_action, &newev[i], NULL, newev[i].time, newev[i].prio);
    }

    unsigned stale = 0u;
    for (unsigned i = 0u; i < NOLD; i++) {
        if (cmb_event_is_scheduled(oldev[i].handle)) {
            stale++;
            FAIL("phase-1 handle %" PRIu64 " reported as scheduled after clear "
                 "(time query says %g)", oldev[i].handle, cmb_event_time(oldev[i].handle));
            /* What a model holding a stale timer handle would now do */
            if (cmb_event_cancel(oldev[i].handle)) {
                FAIL("cmb_event_cancel(%" PRIu64 ") on a cleared handle returned true", oldev[i].handle);
            }
        }
        else if (cmb_event_cancel(oldev[i].handle)) {
            FAIL("cmb_event_cancel(%" PRIu64 ") on a cleared handle returned true", oldev[i].handle);
        }
    }
    if (cmb_event_queue_count() != NNEW) {
        FAIL("count %" PRIu64 " != %u after cancelling only stale handles", cmb_event_queue_count(), NNEW);
    }
    if (cmb_event_pattern_count(new_action, CMB_ANY_SUBJECT, CMB_ANY_OBJECT) != NNEW) {
        FAIL("pattern_count %" PRIu64 " != %u",
             cmb_event_pattern_count(new_action, CMB_ANY_SUBJECT, CMB_ANY_OBJECT), NNEW);
    }
    if (cmb_event_pattern_count(old_action, CMB_ANY_SUBJECT, CMB_ANY_OBJECT) != 0u) {
        FAIL("pattern_count finds cleared phase-1 events");
    }
    for (unsigned i = 0u; i < NNEW; i++) {
        if (!cmb_event_is_scheduled(newev[i].handle)) {
            FAIL("phase-2 handle %" PRIu64 " not scheduled before the run", newev[i].handle);
        }
    }

    while (cmb_event_execute_next()) { }

    for (unsigned i = 0u; i < NNEW; i++) {
        if (newev[i].runs != 1u) {
            FAIL("phase-2 event %" PRIu64 " ran %u times, expected exactly once", newev[i].handle, newev[i].runs);
        }
    }
    for (unsigned i = 0u; i < NOLD; i++) {
        const unsigned want = (oldev[i].time < 5.5) ? 1u : 0u;
        if (oldev[i].runs != want) {
            FAIL("phase-1 event %" PRIu64 " ran %u times in total, expected %u", oldev[i].handle, oldev[i].runs, want);
        }
    }

    cmb_event_queue_terminate();
    printf("stale handles seen: %u\n", stale);
    printf("%s (%u failed checks)\n", (failures == 0u) ? "PASS" : "FAIL", failures);
    return (failures == 0u) ? 0 : 1;
}
