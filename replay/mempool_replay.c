/*
 * mempool_replay.c - native replay for C20: N live objects from one pool (argv: obj_sz obj_num N),
 * each filled with its own pattern; distinctness, alignment, content stability, LIFO reuse.
 * With obj_num small the pool needs more than 64 chunks (growth of the chunk list). Run under valgrind.
 * exit 1 = property violated.
 */
#include <stdio.h>
#include <stdlib.h>
#include <string.h>
#include <stdint.h>
#include "cmi_mempool.h"
int main(int argc, char **argv)
{
    size_t osz = argc > 1 ? strtoul(argv[1], 0, 0) : 4096; uint64_t onum = argc > 2 ? strtoull(argv[2], 0, 0) : 1; int N = argc > 3 ? atoi(argv[3]) : 200, bad = 0;
    struct cmi_mempool *mp = cmi_mempool_create(); cmi_mempool_initialize(mp, osz, onum);
    unsigned char **o = malloc(N * sizeof *o);
    for (int i = 0; i < N; i++) { o[i] = cmi_mempool_alloc(mp); if (((uintptr_t)o[i] & 7u) != 0) { printf("VIOLATED: object %d not 8-byte aligned\n", i); bad = 1; } memset(o[i], i & 0xff, osz); }
    for (int i = 0; i < N; i++) for (int j = i + 1; j < N; j++) if (!(o[i] + osz <= o[j] || o[j] + osz <= o[i])) { printf("VIOLATED: live objects %d and %d overlap\n", i, j); bad = 1; i = N; break; }
    for (int i = 0; i < N; i++) for (size_t k = 0; k < osz; k++) if (o[i][k] != (i & 0xff)) { printf("VIOLATED: object %d lost its contents\n", i); bad = 1; break; }
    for (int i = 0; i < N; i += 2) cmi_mempool_free(mp, o[i]);
    for (int i = N - 2 + (N & 1); i >= 0; i -= 2) { }      /* LIFO: the last freed comes back first */
    { int last = ((N - 1) / 2) * 2; unsigned char *p = cmi_mempool_alloc(mp); if (p != o[last]) { printf("VIOLATED: freed object not reused LIFO\n"); bad = 1; } for (int i = 1; i < N; i += 2) if (p == o[i]) { printf("VIOLATED: a live object was handed out again\n"); bad = 1; } }
    for (int i = 1; i < N; i += 2) for (size_t k = 0; k < osz; k++) if (o[i][k] != (i & 0xff)) { printf("VIOLATED: live object %d changed while others were freed\n", i); bad = 1; break; }
    cmi_mempool_destroy(mp); free(o);
    printf(bad ? "pool misbehaves\n" : "pool ok: %d live objects, size %zu\n", N, osz);
    return bad;
}
