/*
 * cond_scn.c - native scenario for C13: a condition observes a resource guard; two processes wait on
 * the condition: W1 (higher priority, front of the queue) with a predicate that stays false, W2 with a
 * predicate that becomes true when the resource is released.  Releasing the resource signals its
 * guard, which forwards the signal to the condition: W2 must be resumed at that instant.
 * exit 1 = W2 not resumed at the release (property violated).
 */
#include <stdio.h>
#include <stdbool.h>
#include "cmb_event.h"
#include "cmb_logger.h"
#include "cmb_process.h"
#include "cmb_resource.h"
#include "cmb_condition.h"
static struct cmb_resource *R; static struct cmb_condition *C;
static bool flag; static double woke2 = -1.0; static int64_t sig2 = 99;
static bool never(const struct cmb_condition *c, const struct cmb_process *p, const void *x) { (void)c; (void)p; (void)x; return false; }
static bool isflag(const struct cmb_condition *c, const struct cmb_process *p, const void *x) { (void)c; (void)p; (void)x; return flag; }
static void *w1(struct cmb_process *me, void *ctx) { (void)me; (void)ctx; (void)cmb_condition_wait(C, never, NULL); return NULL; }
static void *w2(struct cmb_process *me, void *ctx) { (void)me; (void)ctx; sig2 = cmb_condition_wait(C, isflag, NULL); woke2 = cmb_time(); return NULL; }
static void *holder(struct cmb_process *me, void *ctx) { (void)me; (void)ctx; cmb_resource_acquire(R); cmb_process_hold(5.0); flag = true; cmb_resource_release(R); cmb_process_hold(5.0); return NULL; }
static void endsim(void *s, void *o) { (void)s; (void)o; cmb_event_queue_clear(); }
int main(void)
{
    cmb_logger_flags_off(CMB_LOGGER_INFO | CMB_LOGGER_WARNING);
    cmb_event_queue_initialize(0.0);
    R = cmb_resource_create(); cmb_resource_initialize(R, "R");
    C = cmb_condition_create(); cmb_condition_initialize(C, "C");
    cmb_condition_subscribe(C, &R->guard);
    struct cmb_process *h = cmb_process_create(), *p1 = cmb_process_create(), *p2 = cmb_process_create();
    cmb_process_initialize(h, "holder", holder, NULL, 0); cmb_process_initialize(p1, "w1", w1, NULL, 5); cmb_process_initialize(p2, "w2", w2, NULL, 1);
    cmb_process_start(h); cmb_process_start(p1); cmb_process_start(p2);
    cmb_event_schedule(endsim, NULL, NULL, 20.0, 0);
    cmb_event_queue_execute();
    printf("w2 resumed at t=%g with signal %ld (release at t=5)\n", woke2, (long)sig2);
    if (!(woke2 == 5.0 && sig2 == CMB_PROCESS_SUCCESS)) { printf("VIOLATED: the satisfied waiter behind an unsatisfied one was not resumed by the forwarded signal\n"); return 1; }
    return 0;
}
