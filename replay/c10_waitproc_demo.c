/*
 * c10_waitproc_demo.c - two processes wait for the same job process. The higher-priority one (reaper) is
 * woken first when the job ends, disposes of the job object (terminate, wipe, free, memory reused) and, in
 * the same instant, interrupts the other waiter (observer) with a priority above the observer's own, so the
 * interrupt is delivered before the observer's wake-up from the ended job.  The interrupt cancels what the
 * observer awaits: the library must not follow the observer's registration into the job object, which no
 * longer exists.  Run under valgrind (exit 97 = invalid read) or natively (SIGSEGV = exit 2).
 * Exit status 0: the library never touched the disposed object.
 */
#include <inttypes.h>
#include <signal.h>
#include <stdio.h>
#include <stdlib.h>
#include <string.h>
#include <unistd.h>

#include "cimba.h"

/* An application object that is also a simulated process */
struct job {
    struct cmb_process core;
    double work_content;
    uint64_t serial;
};

static unsigned failures = 0u;
static unsigned observers_done = 0u;
static struct cmb_process *the_observer = NULL;

static void on_segv(int signo)
{
    static const char msg[] =
        "\nFAIL: SIGSEGV - the library followed a pointer read from the freed job object\n";
    (void)signo;
    (void)!write(STDERR_FILENO, msg, sizeof(msg) - 1u);
    _exit(2);
}

/* Fill memory with a byte pattern, in a way the compiler will not drop */
static void wipe(void *p, const unsigned char c, const size_t n)
{
    volatile unsigned char *vp = p;
    for (size_t i = 0u; i < n; i++) {
        vp[i] = c;
    }
}

/* Some other application data that takes over the memory */
static unsigned char *volatile other_data = NULL;

static void *job_func(struct cmb_process *me, void *ctx)
{
    cmb_unused(ctx);
    const struct job *jp = (struct job *)me;
    (void)cmb_process_hold(jp->work_content);

    return NULL;
}

/* Waits for the job to end, then disposes of it */
static void *reaper_func(struct cmb_process *me, void *ctx)
{
    cmb_unused(me);
    struct job *jp = ctx;

    const int64_t sig = cmb_process_wait_process(&(jp->core));
    if (sig != CMB_PROCESS_SUCCESS) {
        fprintf(stderr, "reaper: unexpected signal %" PRIi64 "\n", sig);
        failures++;
    }

    /* The job has finished. Release its stack, wipe and free our own object. */
    cmb_process_terminate(&(jp->core));
    wipe(jp, 0xFF, sizeof(*jp));
    free(jp);

    /* Tell the observer to stop waiting, ahead of its own wake-up from the job */
    cmb_process_interrupt(the_observer, 77, 5);

    /* The memory gets used for something else right away */
    other_data = malloc(sizeof(struct job));
    wipe(other_data, 0xEE, sizeof(struct job));
    (void)cmb_process_hold(1.0);
    free(other_data);
    other_data = NULL;

    return NULL;
}

/* Just wants to know when the job is done */
static void *observer_func(struct cmb_process *me, void *ctx)
{
    cmb_unused(me);
    struct job *jp = ctx;

    const int64_t sig = cmb_process_wait_process(&(jp->core));
    if (sig != 77) {
        fprintf(stderr, "observer: unexpected signal %" PRIi64 "\n", sig);
        failures++;
    }

    observers_done++;
    return NULL;
}

int main(void)
{
    signal(SIGSEGV, on_segv);
    signal(SIGBUS, on_segv);
    cmb_logger_flags_off(CMB_LOGGER_INFO);
    cmb_event_queue_initialize(0.0);

    struct job *jp = malloc(sizeof(*jp));
    memset(jp, 0, sizeof(*jp));
    jp->work_content = 3.0;
    jp->serial = 1u;
    cmb_process_initialize(&(jp->core), "job", job_func, NULL, 0);
    cmb_process_start(&(jp->core));

    /* Higher priority: woken first when the job ends */
    struct cmb_process *reaper = cmb_process_create();
    cmb_process_initialize(reaper, "reaper", reaper_func, jp, 10);
    cmb_process_start(reaper);

    /* Lower priority: woken second, in the same instant */
    struct cmb_process *observer = cmb_process_create();
    cmb_process_initialize(observer, "observer", observer_func, jp, -10);
    the_observer = observer;
    cmb_process_start(observer);

    cmb_event_queue_execute();

    if (observers_done != 1u) {
        fprintf(stderr, "observer did not complete\n");
        failures++;
    }

    cmb_process_terminate(reaper);
    cmb_process_destroy(reaper);
    cmb_process_terminate(observer);
    cmb_process_destroy(observer);
    cmb_event_queue_terminate();

    if (failures != 0u) {
        printf("FAIL: %u failures\n", failures);
        return 1;
    }

    printf("PASS\n");
    return 0;
}
