/*
 * C03 / m1 demo: the SSE control word (MXCSR rounding mode, FTZ/DAZ, exception
 * masks) of every coroutine, and of the main stack, must be exactly what that
 * context left it as, no matter how many other contexts ran in between.
 *
 * Three coroutines each pick a different non-default MXCSR control setting,
 * yield several times at different call depths while the others (and main,
 * with yet another setting) run, and after every resume check both the raw
 * control bits and an actual rounded arithmetic result.
 *
 * Exit 0 = property holds, non-zero = violated.
 */
#include <stdint.h>
#include <stdio.h>
#include <xmmintrin.h>

#include "cmi_coroutine.h"

/* Everything but the six sticky exception-status flags (bits 0..5) */
#define CTRL_MASK 0xFFC0u

#define RC_NEAREST 0x0000u
#define RC_DOWN    0x2000u
#define RC_UP      0x4000u
#define RC_ZERO    0x6000u
#define FTZ        0x8000u
#define DAZ        0x0040u
#define ALL_MASKED 0x1F80u

static int failures = 0;
#define MAX_REPORTS 8

struct job {
    const char *name;
    unsigned ctrl;      /* The control word this context wants to live with */
    int rounds;
};

/* 1/3 computed at run time under the current rounding mode */
static double one_third(void)
{
    volatile double one = 1.0, three = 3.0;
    return one / three;
}

static void check(const char *who, int round, unsigned want)
{
    const unsigned got = _mm_getcsr() & CTRL_MASK;
    if (got != want) {
        if (failures < MAX_REPORTS) {
            printf("FAIL %s round %d: MXCSR control bits 0x%04x, expected 0x%04x\n",
                   who, round, got, want);
        }
        failures++;
    }

    /* And the behavioural consequence: directed rounding of 1/3 */
    const double q = one_third();
    const double nearest = 0x1.5555555555555p-2;    /* RN(1/3), below 1/3 */
    const double above = 0x1.5555555555556p-2;
    const unsigned rc = want & 0x6000u;
    const double expect = (rc == RC_UP) ? above : nearest;
    if (q != expect) {
        if (failures < MAX_REPORTS) {
            printf("FAIL %s round %d: 1/3 rounded to %a, expected %a\n",
                   who, round, q, expect);
        }
        failures++;
    }
}

/* Yield from a few frames down, so the switch happens at varying depth */
static void *yield_at_depth(int depth, void *msg)
{
    volatile char pad[64];
    pad[0] = (char)depth;
    if (depth > 0) {
        void *r = yield_at_depth(depth - 1, msg);
        pad[1] = pad[0];
        return r;
    }

    return cmi_coroutine_yield(msg);
}

static void *worker(struct cmi_coroutine *me, void *context)
{
    (void)me;
    const struct job *jp = context;

    _mm_setcsr(jp->ctrl);
    for (int i = 0; i < jp->rounds; i++) {
        check(jp->name, i, jp->ctrl & CTRL_MASK);
        (void)yield_at_depth(i % 4, (void *)(intptr_t)i);
        check(jp->name, i, jp->ctrl & CTRL_MASK);
    }

    return NULL;
}

int main(void)
{
    struct job jobs[3] = {
        { "up",        ALL_MASKED | RC_UP,              6 },
        { "down+ftz",  ALL_MASKED | RC_DOWN | FTZ,      6 },
        { "zero+daz",  ALL_MASKED | RC_ZERO | DAZ,      6 },
    };
    struct cmi_coroutine *cp[3];

    for (int k = 0; k < 3; k++) {
        cp[k] = cmi_coroutine_create();
        cmi_coroutine_initialize(cp[k], worker, &jobs[k], NULL, 32 * 1024);
    }

    /* The dispatcher (main stack) has its own idea as well */
    const unsigned main_ctrl = ALL_MASKED | RC_UP | FTZ;
    _mm_setcsr(main_ctrl);

    for (int k = 0; k < 3; k++) {
        (void)cmi_coroutine_start(cp[k], NULL);
        check("main", -1 - k, main_ctrl & CTRL_MASK);
    }

    for (int i = 0; i < 6; i++) {
        for (int k = 0; k < 3; k++) {
            if (cmi_coroutine_status(cp[k]) == CMI_COROUTINE_RUNNING) {
                (void)cmi_coroutine_resume(cp[k], NULL);
                check("main", i, main_ctrl & CTRL_MASK);
            }
        }
    }

    _mm_setcsr(ALL_MASKED);
    for (int k = 0; k < 3; k++) {
        if (cmi_coroutine_status(cp[k]) != CMI_COROUTINE_FINISHED) {
            printf("FAIL: coroutine %d did not finish\n", k);
            failures++;
        }
        cmi_coroutine_terminate(cp[k]);
        cmi_coroutine_destroy(cp[k]);
    }

    if (failures != 0) {
        printf("C03 m1 demo: %d failure(s): SSE control word NOT preserved\n", failures);
        return 1;
    }

    printf("C03 m1 demo: OK, SSE control word preserved across all switches\n");
    return 0;
}
