/*
 * c05_preempt_interrupt_demo.c - at most one holder of a resource.
 *   t=0  V (prio 0) acquires R and holds for 10.
 *   t=1  B (prio 5) preempts R (succeeds: V has lower priority) and, in the same instant, interrupts V with an
 *        event priority above V's own, so the interrupt reaches V before the PREEMPTED notice.  V - woken by
 *        the interrupt, which is all it is told - stops what it was doing and releases R, as a holder would.
 *        B keeps R until t=5.
 *   t=2  W (prio 0) asks for R.  B still holds it: W must wait until t=5.
 * Exit 0: W got R at t=5 (mutual exclusion held).  Exit 1: W got it while B still held it.
 */
#include <inttypes.h>
#include <stdio.h>
#include "cmb_event.h"
#include "cmb_logger.h"
#include "cmb_process.h"
#include "cmb_resource.h"
static struct cmb_resource *R;
static struct cmb_process *V;
static int b_holds = 0, violations = 0;
static double w_got_at = -1.0;
static void *victim(struct cmb_process *me, void *ctx)
{
    (void)me; (void)ctx;
    if (cmb_resource_acquire(R) != CMB_PROCESS_SUCCESS) return NULL;
    const int64_t sig = cmb_process_hold(10.0);
    printf("t=%g victim: hold ended with signal %" PRIi64 "\n", cmb_time(), sig);
    if (sig != CMB_PROCESS_PREEMPTED) {
        /* not told that it lost the resource: gives it back, like any holder that is interrupted */
        cmb_resource_release(R);
    }
    return NULL;
}
static void *boss(struct cmb_process *me, void *ctx)
{
    (void)me; (void)ctx;
    (void)cmb_process_hold(1.0);
    const int64_t sig = cmb_resource_preempt(R);
    if (sig != CMB_PROCESS_SUCCESS) { printf("boss: preempt returned %" PRIi64 "\n", sig); return NULL; }
    b_holds = 1;
    cmb_process_interrupt(V, 77, 9);
    (void)cmb_process_hold(4.0);
    b_holds = 0;
    cmb_resource_release(R);
    return NULL;
}
static void *waiter(struct cmb_process *me, void *ctx)
{
    (void)me; (void)ctx;
    (void)cmb_process_hold(2.0);
    if (cmb_resource_acquire(R) == CMB_PROCESS_SUCCESS) {
        w_got_at = cmb_time();
        if (b_holds) { printf("t=%g VIOLATION: waiter acquired the resource while the preemptor still holds it\n", cmb_time()); violations++; }
        cmb_resource_release(R);
    }
    return NULL;
}
int main(void)
{
    cmb_logger_flags_off(CMB_LOGGER_INFO);
    cmb_event_queue_initialize(0.0);
    R = cmb_resource_create(); cmb_resource_initialize(R, "R");
    V = cmb_process_create(); cmb_process_initialize(V, "victim", victim, NULL, 0); cmb_process_start(V);
    struct cmb_process *B = cmb_process_create(); cmb_process_initialize(B, "boss", boss, NULL, 5); cmb_process_start(B);
    struct cmb_process *W = cmb_process_create(); cmb_process_initialize(W, "waiter", waiter, NULL, 0); cmb_process_start(W);
    cmb_event_queue_execute();
    printf("waiter got the resource at t=%g (expected 5)\n", w_got_at);
    return (violations || w_got_at != 5.0) ? 1 : 0;
}
