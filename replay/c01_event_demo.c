/*
 * demo.c (C01 / m1) - event order oracle: same-instant priority / FIFO ties.
 *
 * Every scheduled event is mirrored in a plain array ("oracle"). Each time an
 * action runs it checks that
 *   - it is still pending in the oracle (not cancelled, not already run),
 *   - it is the minimum of the oracle's pending set under
 *     (time asc, priority desc, handle asc),
 *   - cmb_time() equals its scheduled time and cmb_event_current() names it,
 *   - the clock did not go backwards.
 * At the end every event that was not cancelled must have run exactly once.
 *
 * Part A is a directed 4-event scenario: one early event X, then three events
 * at the same instant where the high-priority one (H) was issued after two
 * low-priority ones (L, M). Expected execution order X, H, L, M.
 * Part B is a fixed-seed random history with many time/priority ties,
 * schedules and cancels from outside and from inside running actions, and
 * queue growth past several capacity doublings.
 *
 * Exit 0 if all checks hold, 1 otherwise.
 */
#include <inttypes.h>
#include <stdint.h>
#include <stdio.h>
#include <stdlib.h>
#include <stdbool.h>

#include "cmb_event.h"

#define MAXEV 4096

struct rec {
    uint64_t handle;
    double time;
    int64_t prio;
    bool pending;
    unsigned runs;
};

static struct rec ev[MAXEV];
static unsigned nev = 0u;
static unsigned failures = 0u;
static double last_clock;
static bool mutate_inside = false;

static uint64_t rng_state = UINT64_C(0x9E3779B97F4A7C15);
static uint64_t rnd(void)
{
    rng_state ^= rng_state << 13;
    rng_state ^= rng_state >> 7;
    rng_state ^= rng_state << 17;
    return rng_state;
}

#define FAIL(...) do { failures++; if (failures <= 10u) { printf("FAIL: " __VA_ARGS__); printf("\n"); } } while (0)

static bool goes_before(const struct rec *a, const struct rec *b)
{
    if (a->time != b->time) return a->time < b->time;
    if (a->prio != b->prio) return a->prio > b->prio;
    return a->handle < b->handle;
}

static void action(void *subject, void *object);

static unsigned do_schedule(const double t, const int64_t p)
{
    if (nev >= MAXEV) { printf("oracle full\n"); exit(2); }
    const unsigned i = nev++;
    ev[i].time = t;
    ev[i].prio = p;
    ev[i].pending = true;
    ev[i].runs = 0u;
    ev[i].handle = cmb_event_schedule(action, (void *)(uintptr_t)(i + 1u), NULL, t, p);
    return i;
}

static void do_cancel(const unsigned i)
{
    if (!cmb_event_cancel(ev[i].handle)) {
        FAIL("cancel of pending handle %" PRIu64 " returned false", ev[i].handle);
    }
    ev[i].pending = false;
}

/* Pick a random pending oracle entry, or -1 */
static int pick_pending(void)
{
    if (nev == 0u) return -1;
    const unsigned start = (unsigned)(rnd() % nev);
    for (unsigned k = 0u; k < nev; k++) {
        const unsigned i = (start + k) % nev;
        if (ev[i].pending) return (int)i;
    }
    return -1;
}

static void action(void *subject, void *object)
{
    (void)object;
    const unsigned me = (unsigned)((uintptr_t)subject - 1u);
    struct rec *r = &ev[me];

    r->runs++;
    if (!r->pending) {
        FAIL("event %" PRIu64 " ran although cancelled or already run (runs=%u)",
             r->handle, r->runs);
    }
    if (cmb_time() != r->time) {
        FAIL("event %" PRIu64 ": clock %g != scheduled time %g", r->handle, cmb_time(), r->time);
    }
    if (cmb_time() < last_clock) {
        FAIL("clock went backwards: %g after %g (event %" PRIu64 ")", cmb_time(), last_clock, r->handle);
    }
    last_clock = cmb_time();
    if (cmb_event_current() != r->handle) {
        FAIL("cmb_event_current() = %" PRIu64 " while event %" PRIu64 " runs",
             cmb_event_current(), r->handle);
    }

    /* Must be the oracle minimum among all pending events */
    for (unsigned i = 0u; i < nev; i++) {
        if (i != me && ev[i].pending && goes_before(&ev[i], r)) {
            FAIL("event %" PRIu64 " (t=%g p=%" PRIi64 ") ran before pending event %" PRIu64
                 " (t=%g p=%" PRIi64 ")",
                 r->handle, r->time, r->prio, ev[i].handle, ev[i].time, ev[i].prio);
            break;
        }
    }
    r->pending = false;

    if (mutate_inside) {
        const unsigned what = (unsigned)(rnd() % 8u);
        if (what < 3u) {
            const int v = pick_pending();
            if (v >= 0) do_cancel((unsigned)v);
        }
        else if (what < 5u && nev < 600u) {
            (void)do_schedule(cmb_time() + (double)(rnd() % 4u), (int64_t)(rnd() % 3u) - 1);
        }
    }
}

static void run_all_and_check(const char *label)
{
    while (cmb_event_execute_next()) { }

    for (unsigned i = 0u; i < nev; i++) {
        if (ev[i].pending) {
            FAIL("%s: event %" PRIu64 " never ran", label, ev[i].handle);
        }
        if (ev[i].runs > 1u) {
            FAIL("%s: event %" PRIu64 " ran %u times", label, ev[i].handle, ev[i].runs);
        }
    }
    if (cmb_event_queue_count() != 0u) {
        FAIL("%s: queue count %" PRIu64 " after draining", label, cmb_event_queue_count());
    }
}

int main(void)
{
    /* ---- Part A: directed scenario, same-instant priority tie-break ---- */
    cmb_event_queue_initialize(0.0);
    last_clock = cmb_time();
    nev = 0u;
    mutate_inside = false;
    (void)do_schedule(0.0, 0);     /* X: runs first, forces a sift-down    */
    (void)do_schedule(1.0, 0);     /* L: low priority, issued early        */
    (void)do_schedule(1.0, 0);     /* M: low priority, issued second       */
    (void)do_schedule(1.0, 5);     /* H: high priority, issued last        */
    if (cmb_event_queue_count() != 4u) {
        FAIL("count %" PRIu64 " != 4", cmb_event_queue_count());
    }
    if (cmb_event_priority(ev[3].handle) != 5 || cmb_event_time(ev[3].handle) != 1.0) {
        FAIL("time/priority query disagrees for H");
    }
    run_all_and_check("part A");   /* expected order: X, H, L, M */
    cmb_event_queue_terminate();
    printf("part A done, failures so far: %u\n", failures);

    /* ---- Part B: fixed-seed random history ---- */
    cmb_event_queue_initialize(-5.0);
    last_clock = cmb_time();
    nev = 0u;
    mutate_inside = true;
    for (unsigned round = 0u; round < 300u; round++) {
        const unsigned what = (unsigned)(rnd() % 10u);
        if (what < 7u) {
            (void)do_schedule(cmb_time() + (double)(rnd() % 16u), (int64_t)(rnd() % 5u) - 2);
        }
        else {
            const int v = pick_pending();
            if (v >= 0) do_cancel((unsigned)v);
        }
    }
    /* Queries must agree with the oracle before we start */
    uint64_t npend = 0u;
    for (unsigned i = 0u; i < nev; i++) {
        if (ev[i].pending) npend++;
        if (cmb_event_is_scheduled(ev[i].handle) != ev[i].pending) {
            FAIL("is_scheduled(%" PRIu64 ") disagrees with oracle", ev[i].handle);
        }
    }
    if (cmb_event_queue_count() != npend) {
        FAIL("count %" PRIu64 " != oracle %" PRIu64, cmb_event_queue_count(), npend);
    }
    run_all_and_check("part B");
    cmb_event_queue_terminate();

    printf("%s (%u failed checks)\n", (failures == 0u) ? "PASS" : "FAIL", failures);
    return (failures == 0u) ? 0 : 1;
}
