/*
 * buffer_scn.c - scenario replay for C11 (real library, real coroutines).
 *
 * argv: cap isput init L0 n d1..dn interrupt
 *   A driver pre-fills the buffer to L0.  At t=1 the caller starts get(init) / put(init).
 *   At t=2,3,... the driver performs the opposite operation with amounts d1..dn (non-blocking
 *   by construction: the driver gives up a blocked operation after 0.5 time units through a
 *   timer), and finally, if `interrupt` != 0, interrupts the caller.
 * Oracle (the property statement): after every step   level == total put - total got  using the
 * amounts REPORTED by the calls, 0 <= level <= capacity, SUCCESS means the whole request moved.
 * exit 1 = oracle violated (violation reproduced), 0 = held.
 */
#include <inttypes.h>
#include <stdio.h>
#include <stdint.h>
#include <stdlib.h>
#include "cmb_event.h"
#include "cmb_logger.h"
#include "cmb_process.h"
#include "cmb_buffer.h"

static struct cmb_buffer *buf;
static struct cmb_process *caller, *driver;
static uint64_t cap, init, L0, d[8];
static int isput, nd, do_int, bad, inflight;
static unsigned __int128 tput, tgot;

static void ledger(const char *where)
{
    const uint64_t lvl = cmb_buffer_level(buf);
    if (inflight) return;   /* the caller's partial transfer has not been reported yet */
    if (lvl > cap) { printf("VIOLATED at %s t=%g: level %" PRIu64 " > capacity %" PRIu64 "\n", where, cmb_time(), lvl, cap); bad = 1; }
    if ((unsigned __int128)lvl != tput - tgot) {
        printf("VIOLATED at %s t=%g: level %" PRIu64 " != put %" PRIu64 " - got %" PRIu64 " (reported amounts)\n",
               where, cmb_time(), lvl, (uint64_t)tput, (uint64_t)tgot); bad = 1; }
}

static int64_t op(int put, uint64_t n, const char *who)
{
    uint64_t m = n;
    int64_t sig;
    inflight++;
    if (put) { sig = cmb_buffer_put(buf, &m); inflight--; tput += (n - m);
        if (sig == CMB_PROCESS_SUCCESS && m != 0) { printf("VIOLATED: %s put(%" PRIu64 ") SUCCESS with %" PRIu64 " remaining\n", who, n, m); bad = 1; }
        if (m > n) { printf("VIOLATED: %s put remaining > requested\n", who); bad = 1; } }
    else { sig = cmb_buffer_get(buf, &m); inflight--; tgot += m;
        if (sig == CMB_PROCESS_SUCCESS && m != n) { printf("VIOLATED: %s get(%" PRIu64 ") SUCCESS with %" PRIu64 "\n", who, n, m); bad = 1; }
        if (m > n) { printf("VIOLATED: %s got more than requested\n", who); bad = 1; } }
    printf("t=%g %s %s(%" PRIu64 ") -> sig %" PRIi64 " amount %" PRIu64 " level %" PRIu64 "\n", cmb_time(), who, put ? "put" : "get", n, sig, m, cmb_buffer_level(buf));
    ledger(who);
    return sig;
}

static void *callerfunc(struct cmb_process *me, void *ctx)
{
    (void)me; (void)ctx;
    cmb_process_hold(1.0);
    inflight++;
    uint64_t m = init;
    const int64_t sig = isput ? cmb_buffer_put(buf, &m) : cmb_buffer_get(buf, &m);
    inflight--;
    if (isput) tput += (init - m); else tgot += m;
    printf("t=%g caller %s(%" PRIu64 ") -> sig %" PRIi64 " amount %" PRIu64 " level %" PRIu64 "\n", cmb_time(), isput ? "put" : "get", init, sig, m, cmb_buffer_level(buf));
    if (m > init) { printf("VIOLATED: caller amount > requested\n"); bad = 1; }
    if (sig == CMB_PROCESS_SUCCESS && m != (isput ? 0 : init)) { printf("VIOLATED: caller SUCCESS but amount %" PRIu64 "\n", m); bad = 1; }
    ledger("caller");
    return NULL;
}

static void *driverfunc(struct cmb_process *me, void *ctx)
{
    (void)ctx;
    if (L0 > 0) op(1, L0, "driver-prefill");
    cmb_process_hold(1.5);
    for (int i = 0; i < nd; i++) {
        cmb_process_hold(1.0);
        if (d[i] > 0 || isput) {
            const uint64_t h = cmb_process_timer_add(me, 0.5, CMB_PROCESS_TIMEOUT);
            const int64_t s = op(!isput, d[i], "driver");
            if (s != CMB_PROCESS_TIMEOUT) cmb_process_timer_cancel(me, h);
        }
    }
    cmb_process_hold(1.0);
    if (do_int && cmb_process_status(caller) == CMB_PROCESS_RUNNING) cmb_process_interrupt(caller, 7, 0);
    cmb_process_hold(1.0);
    ledger("end");
    return NULL;
}

int main(int argc, char **argv)
{
    if (argc < 7) return 2;
    cap = strtoull(argv[1], 0, 0); isput = atoi(argv[2]); init = strtoull(argv[3], 0, 0); L0 = strtoull(argv[4], 0, 0);
    nd = atoi(argv[5]);
    if (nd > 8 || argc < 7 + nd) return 2;
    for (int i = 0; i < nd; i++) d[i] = strtoull(argv[6 + i], 0, 0);
    do_int = atoi(argv[6 + nd]);
    if (L0 > cap) L0 = cap;
    cmb_logger_flags_off(CMB_LOGGER_INFO);
    cmb_event_queue_initialize(0.0);
    buf = cmb_buffer_create();
    cmb_buffer_initialize(buf, "Buf", cap);
    caller = cmb_process_create(); driver = cmb_process_create();
    cmb_process_initialize(caller, "caller", callerfunc, NULL, 0);
    cmb_process_initialize(driver, "driver", driverfunc, NULL, 0);
    cmb_process_start(driver); cmb_process_start(caller);
    cmb_event_queue_execute();
    ledger("after run");
    return bad;
}
