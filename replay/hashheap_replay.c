/*
 * hashheap_replay.c - native replay for C02/C01: the real cmi_hashheap against an array model,
 * deterministic operation sequences (seed = argv[1], steps = argv[2]) incl. clear-and-reuse,
 * caller-supplied keys re-inserted after removal, reprioritise at every position, growth.
 * exit 1 = the real structure disagrees with the model (violation reproduced).
 */
#include <stdio.h>
#include <stdlib.h>
#include <stdint.h>
#include <string.h>
#include "cmi_hashheap.h"
#define MAXN 300
struct me { uint64_t key; void *p[4]; double d; int64_t i; };
static struct me M[MAXN]; static int mn; static uint64_t rs;
static uint64_t rnd(void) { rs ^= rs << 13; rs ^= rs >> 7; rs ^= rs << 17; return rs; }
static bool before(const struct cmi_heap_tag *a, const struct cmi_heap_tag *b)
{ if (a->dsortkey < b->dsortkey) return true; if (a->dsortkey > b->dsortkey) return false;
  if (a->isortkey > b->isortkey) return true; if (a->isortkey < b->isortkey) return false; return a->key < b->key; }
static int mfind(uint64_t k) { for (int j = 0; j < mn; j++) if (M[j].key == k) return j; return -1; }
static int mmin(void) { int b = -1; for (int j = 0; j < mn; j++) { if (b < 0) { b = j; continue; }
    struct cmi_heap_tag x = { .key = M[j].key, .dsortkey = M[j].d, .isortkey = M[j].i }, y = { .key = M[b].key, .dsortkey = M[b].d, .isortkey = M[b].i };
    if (before(&x, &y)) b = j; } return b; }
static int bad;
#define CHECK(c, ...) do { if (!(c)) { printf("VIOLATED: "); printf(__VA_ARGS__); printf("\n"); bad = 1; } } while (0)
static void audit(struct cmi_hashheap *hp, uint64_t *old, int nold)
{
    CHECK((int)cmi_hashheap_count(hp) == mn, "count %d, model %d", (int)cmi_hashheap_count(hp), mn);
    for (int j = 0; j < mn; j++) {
        CHECK(cmi_hashheap_is_enqueued(hp, M[j].key), "live key %lu not enqueued", M[j].key);
        if (cmi_hashheap_is_enqueued(hp, M[j].key)) {
            void **it = cmi_hashheap_item(hp, M[j].key);
            CHECK(it[0] == M[j].p[0] && it[1] == M[j].p[1] && it[2] == M[j].p[2] && it[3] == M[j].p[3], "payload of key %lu differs", M[j].key);
            CHECK(cmi_hashheap_dkey(hp, M[j].key) == M[j].d && cmi_hashheap_ikey(hp, M[j].key) == M[j].i, "sort keys of key %lu differ", M[j].key);
        }
    }
    for (int j = 0; j < nold; j++) if (mfind(old[j]) < 0 && mn > 0) CHECK(!cmi_hashheap_is_enqueued(hp, old[j]), "dead key %lu reported as enqueued", old[j]);
}
int main(int argc, char **argv)
{
    rs = argc > 1 ? strtoull(argv[1], 0, 0) : 1; if (!rs) rs = 88172645463325252ull;
    int steps = argc > 2 ? atoi(argv[2]) : 2000;
    struct cmi_hashheap *hp = cmi_hashheap_create();
    cmi_hashheap_initialize(hp, 1 + (int)(rnd() % 3), before);
    static uint64_t old[100000]; int nold = 0; uint64_t next_user = 1000000;
    for (int s = 0; s < steps && !bad; s++) {
        int op = (int)(rnd() % 100);
        if (op < 40 && mn < MAXN - 1) {
            struct me e; uint64_t k = 0;
            if (rnd() % 3 == 0) { k = (nold && rnd() % 2) ? old[rnd() % nold] : next_user++; if (mfind(k) >= 0) k = next_user++; }
            for (int q = 0; q < 4; q++) e.p[q] = (void *)(uintptr_t)(rnd() % 5);
            e.d = (double)(rnd() % 4); e.i = (int64_t)(rnd() % 3) - 1;
            uint64_t r = cmi_hashheap_enqueue(hp, e.p[0], e.p[1], e.p[2], e.p[3], k, e.d, e.i);
            CHECK(k == 0 || r == k, "enqueue returned %lu for supplied key %lu", r, k);
            CHECK(mfind(r) < 0, "enqueue issued key %lu which is live", r);
            e.key = r; M[mn++] = e; if (nold < 100000) old[nold++] = r;
        } else if (op < 60) {
            int b = mmin(); void **it = cmi_hashheap_dequeue(hp);
            if (b < 0) CHECK(it == NULL, "dequeue on empty returned an item");
            else { CHECK(it != NULL && it[0] == M[b].p[0] && it[1] == M[b].p[1] && it[2] == M[b].p[2] && it[3] == M[b].p[3] && hp->heap[0].key == M[b].key,
                         "dequeue delivered key %lu, model minimum is key %lu", hp->heap[0].key, M[b].key); M[b] = M[--mn]; }
        } else if (op < 72 && nold) {
            uint64_t k = old[rnd() % nold]; int j = mfind(k); bool r = cmi_hashheap_remove(hp, k);
            CHECK(r == (j >= 0), "remove(%lu) returned %d, model %d", k, r, j >= 0); if (j >= 0) M[j] = M[--mn];
        } else if (op < 88 && mn) {
            int j = (int)(rnd() % mn); M[j].d = (double)(rnd() % 4); M[j].i = (int64_t)(rnd() % 3) - 1;
            cmi_hashheap_reprioritize(hp, M[j].key, M[j].d, M[j].i);
        } else if (op < 92) {
            void *v = (void *)(uintptr_t)(rnd() % 5); uint64_t c = 0; for (int j = 0; j < mn; j++) if (M[j].p[1] == v) c++;
            CHECK(cmi_hashheap_pattern_count(hp, CMI_ANY_ITEM, v, CMI_ANY_ITEM, CMI_ANY_ITEM) == c, "pattern_count differs");
            uint64_t f = cmi_hashheap_pattern_find(hp, CMI_ANY_ITEM, v, CMI_ANY_ITEM, CMI_ANY_ITEM);
            CHECK((f == 0) == (c == 0) && (f == 0 || (mfind(f) >= 0 && M[mfind(f)].p[1] == v)), "pattern_find differs");
            if (rnd() % 2) { uint64_t r = cmi_hashheap_pattern_cancel(hp, CMI_ANY_ITEM, v, CMI_ANY_ITEM, CMI_ANY_ITEM); CHECK(r == c, "pattern_cancel count");
                for (int j = 0; j < mn;) if (M[j].p[1] == v) M[j] = M[--mn]; else j++; }
        } else if (op < 94) { cmi_hashheap_clear(hp); mn = 0; }
        if (s % 7 == 0) audit(hp, old, nold > 300 ? 300 : nold);
    }
    audit(hp, old, nold > 300 ? 300 : nold);
    while (mn && !bad) { int b = mmin(); (void)cmi_hashheap_dequeue(hp); CHECK(hp->heap[0].key == M[b].key, "drain: delivered key %lu, model minimum %lu", hp->heap[0].key, M[b].key); M[b] = M[--mn]; }
    printf(bad ? "hashheap disagrees with the model\n" : "hashheap agrees with the model\n");
    return bad;
}
