/*
 * resource_scn.c - scenario replays for C05 (and the C04 clause about a preemptor's timers).
 * argv[1] selects the scenario; oracle = the property statement at user level: every process
 * keeps its own "I hold R" flag (set when acquire/preempt returned SUCCESS, cleared when it
 * releases, is told PREEMPTED, or ends); at no time may two flags be set for one resource, and
 * the library's queries must agree with the flags.
 *   1: holder releases and re-acquires in the same instant while another process waits
 *   2: preemption, then the victim ends while the preemptor still holds, third process waiting
 *   3: waiter times out on R1, then waits for busy R2, then R1 is released
 *   4: the preemptor has a timer armed when it preempts; the timer must still fire
 *   5: holder is stopped while holding; waiter must get the resource
 * exit 1 = oracle violated.
 */
#include <inttypes.h>
#include <stdio.h>
#include <stdlib.h>
#include "cmb_event.h"
#include "cmb_logger.h"
#include "cmb_process.h"
#include "cmb_resource.h"

static struct cmb_resource *R1, *R2;
static struct cmb_process *pa, *pb, *pc;
static int holds[3][2];   /* [process][resource] */
static int bad, scn;

static void check(const char *where)
{
    for (int r = 0; r < 2; r++) {
        struct cmb_resource *R = r ? R2 : R1;
        int n = holds[0][r] + holds[1][r] + holds[2][r];
        if (n > 1) { printf("VIOLATED at %s t=%g: %d processes hold resource %d at once\n", where, cmb_time(), n, r + 1); bad = 1; }
        if ((int)cmb_resource_in_use(R) != n && n <= 1) { printf("VIOLATED at %s t=%g: in_use(R%d)=%d but %d user-level holders\n", where, cmb_time(), r + 1, (int)cmb_resource_in_use(R), n); bad = 1; }
        struct cmb_process *ps[3] = { pa, pb, pc };
        for (int i = 0; i < 3; i++)
            if (holds[i][r] != (int)cmb_resource_held_by_process(R, ps[i]) && n <= 1) { printf("VIOLATED at %s t=%g: held_by_process(R%d, %c)=%d, user-level %d\n", where, cmb_time(), r + 1, 'A' + i, (int)cmb_resource_held_by_process(R, ps[i]), holds[i][r]); bad = 1; }
    }
}
static int64_t acq(int me, int r, int preempt)
{
    struct cmb_resource *R = r ? R2 : R1;
    int64_t s = preempt ? cmb_resource_preempt(R) : cmb_resource_acquire(R);
    if (s == CMB_PROCESS_SUCCESS) {
        if (preempt) for (int i = 0; i < 3; i++) holds[i][r] = 0;   /* eviction is a legitimate loss for the victim */
        holds[me][r] = 1;
    }
    printf("t=%g %c %s R%d -> %" PRIi64 "\n", cmb_time(), 'A' + me, preempt ? "preempt" : "acquire", r + 1, s);
    check("after acquire");
    return s;
}
static void rel(int me, int r)
{
    holds[me][r] = 0;
    cmb_resource_release(r ? R2 : R1);
    check("after release");
}
static int64_t hold(int me, double d)
{
    int64_t s = cmb_process_hold(d);
    if (s == CMB_PROCESS_PREEMPTED) { holds[me][0] = 0; holds[me][1] = 0; }   /* told so by the library */
    check("after hold");
    return s;
}

static void *fa(struct cmb_process *me, void *ctx)
{
    (void)ctx;
    switch (scn) {
    case 1: acq(0, 0, 0); hold(0, 1.0); rel(0, 0); acq(0, 0, 0); hold(0, 1.0); rel(0, 0); break;
    case 2: acq(0, 0, 0); hold(0, 2.0); holds[0][0] = 0; /* ends at t=2 (preempted at t=1) */ break;
    case 3: acq(0, 0, 0); hold(0, 10.0); rel(0, 0); break;
    case 4: acq(0, 0, 0); hold(0, 20.0); if (holds[0][0]) rel(0, 0); break;
    case 5: acq(0, 0, 0); hold(0, 20.0); break;
    }
    return NULL;
}
static void *fb(struct cmb_process *me, void *ctx)
{
    (void)ctx;
    switch (scn) {
    case 1: hold(1, 0.5); if (acq(1, 0, 0) == 0) { hold(1, 0.25); rel(1, 0); } break;
    case 2: hold(1, 1.0); acq(1, 0, 1); hold(1, 4.0); rel(1, 0); break;           /* Boss preempts at t=1, holds to 5 */
    case 3: acq(1, 1, 0); hold(1, 20.0); rel(1, 1); break;                          /* Bob holds R2 [0,20] */
    case 4: { hold(1, 1.0);
              cmb_process_timer_add(me, 5.0, CMB_PROCESS_TIMEOUT);                  /* armed at t=1, due t=6 */
              acq(1, 0, 1);
              int64_t s = cmb_process_hold(10.0);
              printf("t=%g B's hold(10) returned %" PRIi64 "\n", cmb_time(), s);
              if (!(s == CMB_PROCESS_TIMEOUT && cmb_time() == 6.0)) { printf("VIOLATED: the preemptor's own timer (due t=6) did not fire: hold returned %" PRIi64 " at t=%g\n", s, cmb_time()); bad = 1; }
              rel(1, 0); break; }
    case 5: hold(1, 1.0); if (acq(1, 0, 0) == 0) { if (cmb_time() != 2.0) { printf("VIOLATED: waiter got the resource at t=%g, holder was stopped at t=2\n", cmb_time()); bad = 1; } rel(1, 0); } break;
    }
    return NULL;
}
static void *fc(struct cmb_process *me, void *ctx)
{
    (void)ctx;
    switch (scn) {
    case 2: hold(2, 1.5); if (acq(2, 0, 0) == 0) { hold(2, 0.5); rel(2, 0); } break;   /* Waiter queues at 1.5 */
    case 3: { hold(2, 1.0);
              const uint64_t h = cmb_process_timer_add(me, 3.0, CMB_PROCESS_TIMEOUT);
              int64_t s = acq(2, 0, 0);
              if (s == 0) { cmb_process_timer_cancel(me, h); rel(2, 0); }
              if (acq(2, 1, 0) == 0) { hold(2, 0.5); rel(2, 1); } break; }
    case 5: hold(2, 2.0); holds[0][0] = 0; cmb_process_stop(pa, NULL); check("after stop"); break;
    }
    return NULL;
}

int main(int argc, char **argv)
{
    scn = argc > 1 ? atoi(argv[1]) : 1;
    cmb_logger_flags_off(CMB_LOGGER_INFO | CMB_LOGGER_WARNING);
    cmb_event_queue_initialize(0.0);
    R1 = cmb_resource_create(); cmb_resource_initialize(R1, "R1");
    R2 = cmb_resource_create(); cmb_resource_initialize(R2, "R2");
    pa = cmb_process_create(); pb = cmb_process_create(); pc = cmb_process_create();
    cmb_process_initialize(pa, "A", fa, NULL, 0);
    cmb_process_initialize(pb, "B", fb, NULL, (scn == 2 || scn == 4) ? 5 : 0);
    cmb_process_initialize(pc, "C", fc, NULL, 0);
    cmb_process_start(pa); cmb_process_start(pb); cmb_process_start(pc);
    cmb_event_queue_execute();
    check("end");
    if (cmb_resource_in_use(R1) || cmb_resource_in_use(R2)) { printf("VIOLATED: a resource is still in use at the end of the run\n"); bad = 1; }
    return bad;
}
