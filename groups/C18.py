from _common import *
import external, importlib.util, os, cvlib
_spec = importlib.util.spec_from_file_location('dataset_run', os.path.join(cvlib.VERIF, 'dataset', 'run.py'))
_m = importlib.util.module_from_spec(_spec); _spec.loader.exec_module(_m)
GROUPS = []
_specs = [(s['id'], s['tier'], s.get('note', '') or '', s['entry'], ' '.join(s['defs'])) for s in _m.GROUPS]
_specs += [(gid, 'quick', 'N = 4 symbolic samples over the reals, lags 1..3', 'cmb_dataset_ACF', 'sympy') for gid in
           ('C18.O5.acf_lag0', 'C18.O5.acf_range', 'C18.O5.acf_shift', 'C18.O5.acf_scale')]
for gid, tier, note, entry, defs in _specs:
    if tier == 'experimental':
        continue                      # does not finish in the time box; listed in dataset/NOTES.md, never counted
    prop = 'C14' if gid.startswith('C14.') else 'C18'
    sym = gid.startswith('C18.O5.')
    thorough = tier == 'thorough'
    GROUPS.append(Group(id=gid, prop=prop,
        level=('proved' if sym else 'bounded-unwind'),
        bound=('all symbolic inputs over the reals for N = 4 samples; every path of the real function' if sym else
               'fixed sizes (%s): every loop fully unwound with unwinding assertions, contents symbolic; ' % defs) + note,
        backend=('sympy' if sym else 'cadical'), tier=('thorough' if thorough else 'quick'), canaries=(0 if sym else 1),
        also=(['C10'] if not sym and not thorough else []), timeout=(1500 if thorough else 700),
        functions=['src/cmb_dataset.c and src/cmb_timeseries.c as reached from ' + entry],
        stubs=['realloc = new block + element-wise copy (always moves); memcpy element-wise on doubles', 'fprintf captured (the five numbers are recorded)',
               'cmb_datasummary_* / cmb_wtdsummary_* add/initialize are recorders here (their arithmetic is C17)'] if not sym else
              ['gcc -fdump-tree-gimple front end, dataset/gsym_ext.py symbolic executor, sympy as algebra back end'],
        assumes=(['double arithmetic treated as real arithmetic'] if sym else
                 ['objects are arbitrary WELL-FORMED datasets / time series of the stated size (well-formedness re-proved after add and copy)',
                  'median / five-number groups: |x| <= 1e300; weighted groups: durations are integers 0..255 (sums exact)', note]),
        runner=external.make_runner('dataset', gid, interp='python3-vt', timeout=1700, extra=(('--thorough', '--only', gid) if thorough else ())),
        replay=external.native_replay))
