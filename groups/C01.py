from _common import *
GROUPS = [
    order_group('C01', 'C01.O1.event_order', 'ORDER_EVENT', 'heap_order_check', 'src/cmb_event.c', also=['C02']),
]
