from _common import *
import cvlib
# The event-queue groups run cmb_event.c over the CONTRACT STUB of the hashheap; the groups that establish that
# contract on the real cmi_hashheap.c (C02.L3.*, listed with also=C01) therefore count for C01 in full: a hashheap
# that breaks its contract breaks the assumption every C01.O2 / O3 obligation was proved under.
if not hasattr(cvlib, 'FULL_GROUPS'):
    cvlib.FULL_GROUPS = {}
cvlib.FULL_GROUPS['C01'] = [r'C02\.L[123]\..*']
GROUPS = [
    order_group('C01', 'C01.O1.event_order', 'ORDER_EVENT', 'heap_order_check', 'src/cmb_event.c', also=['C02']),
]

_ev_f = ['cmb_event_schedule', 'cmb_event_execute_next', 'cmb_event_cancel', 'cmb_event_reschedule', 'cmb_event_reprioritize', 'cmb_event_pattern_find/_count/_cancel',
         'cmb_event_is_scheduled/_time/_priority/_current', 'cmb_event_queue_count/_clear/_initialize/_is_empty', 'wake_event_waiters', 'cmi_event_add_waiter']
_ev_stubs = ['cmi_hashheap.c replaced by its contract stub harness/hhstub.h (sorted small array that may move on every enqueue; contract established in C02)',
             'cmi_mempool_expand: one fresh object', 'cmi_coroutine_resume / cmi_process_remove_awaitable: recording stubs']
def _ev(gid, entry, define, bound, extra=(), timeout=600, tier='quick'):
    return Group(id=gid, prop='C01', harness='event.c', entry=entry, defines=[define] + list(extra), level='bounded-shape', bound=bound, backend='sat',
                 timeout=timeout, tier=tier, unwind=8, functions=_ev_f, stubs=_ev_stubs, also=['C10', 'C04'], replay=replays.demo_replay('c01_event_demo.c', 'c01_clear_demo.c'),
                 assumes=['2^64 handles are never issued', 'actions reach library state only through the API'])
_ops = ['schedule', 'cancel', 'reschedule', 'reprioritize', 'pattern_find_count', 'pattern_cancel', 'clear']
GROUPS += [
] + [_ev('C01.O2.execute_next.%s' % nm, 'h_execute', 'H_EXECUTE', 'arbitrary pending set of <= 3 events incl. time/priority ties; the running action %s' % txt, extra=['CMV_NESTED=%d' % k])
     for k, nm, txt in [(-1, 'plain', 'makes no API call'), (0, 'schedules', 'schedules another event (the heap may move)'), (1, 'cancels', 'cancels an arbitrary event'),
                        (2, 'reprioritizes', 'reprioritises an arbitrary event'), (3, 'reschedules', 'reschedules an arbitrary event'), (4, 'clears', 'clears the queue')]] + [
    _ev('C01.O2.event_waiters.executed', 'h_waiters', 'H_WAITERS', '<= 2 pending events, <= 2 processes waiting for the front event, which executes', extra=['CMV_WCANCEL=0'], timeout=1500),
    # (the case 'a waiter leaves after the event is gone' - CMV_WLEAVE in harness/event.c - is NOT registered: the pattern
    #  cancel inside cmi_event_remove_waiter over the sorted hashheap stub did not finish in 3400 s / 3000 s; DESIGN.md section 7)
    _ev('C01.O2.event_waiters.cancelled', 'h_waiters', 'H_WAITERS', '<= 2 pending events, <= 2 processes waiting for the front event, which is cancelled', extra=['CMV_WCANCEL=1'], timeout=1500),
] + [_ev('C01.O3.api.%s' % nm, 'h_api', 'H_API', 'arbitrary pending set of <= 3 events; %s with any handle / pattern' % nm, extra=['CMV_OP=%d' % i], tier=('thorough' if nm == 'pattern_cancel' else 'quick'), timeout=(1800 if nm == 'pattern_cancel' else 600)) for i, nm in enumerate(_ops) if nm != 'pattern_cancel']
# (C01.O3.api.pattern_cancel is NOT registered: the event-level pattern cancel over the sorted hashheap stub did not finish in
#  1800 s with <= 3 events nor in 1000 s with <= 2 events and a MiniSat/CaDiCaL portfolio; cmb_event_pattern_cancel delegates to
#  cmi_hashheap_pattern_cancel, which is C02.L3.pattern_cancel.cap2 (thorough) and counts for C01 in full)

# cmb_event_pattern_cancel against the CONTRACT of cmb_event_cancel (arbitrary heap layout after every cancellation): the
# event-level function walks the heap itself and does not delegate to cmi_hashheap_pattern_cancel
GROUPS += [Group(id='C01.O3.pattern_cancel.cancel_contract', prop='C01', harness='evpatcancel.c', entry='h_evpatcancel', level='bounded-shape',
          bound='arbitrary pending set of <= 4 events, any pattern; cmb_event_cancel replaced by its contract (pending set minus the event, arbitrary new heap layout); loops fully unwound with unwinding assertions',
          backend='sat', timeout=600, tier='quick', unwind=8, canaries=2, functions=['cmb_event_pattern_cancel'],
          replace_calls=[('cmb_event_cancel', 'cmv_event_cancel_contract')], also=['C10'],
          stubs=['cmb_event_cancel: contract stub (established on the real body by C01.O3.api.cancel and, for the heap, C02.L3.remove.cap2); heap layout after a cancellation over-approximated as arbitrary',
                 'cmi_hashheap.c: stub hhstub_sorted.h (only create / initialize are reached)'],
          assumes=['the caller does not rely on the heap order between two cancellations', 'waking the waiters of a cancelled event is part of the cmb_event_cancel contract (C01.O2.event_waiters.cancelled), not re-checked here'])]
