from _common import *
import external
_ids = [('C17.O1.aborts', 'sympy'), ('C17.O1a.merge', 'sympy'), ('C17.O1a.merge_empty1', 'sympy'), ('C17.O1a.merge_empty2', 'sympy'),
        ('C17.O1b.add', 'sympy'), ('C17.O1c.accessors', 'sympy'), ('C17.O1c.defined', 'sympy'), ('C17.O1d.weighted', 'sympy'),
        ('C17.O1e.scaling_lemma', 'sympy'), ('C17.O1e.scaling', 'sympy'),
        ('C17.O2.ds_add', 'cbmc'), ('C17.O2.wtd_zero', 'cbmc'), ('C17.O2.wtd_add', 'cbmc'), ('C17.O2.merge_basic', 'cbmc'),
        ('C17.O2.merge_empty1_right', 'cbmc'), ('C17.O2.merge_empty1_left', 'cbmc'), ('C17.O2.merge_empty2', 'cbmc'),
        ('C17.O2.wtd_merge_empty2', 'cbmc'), ('C17.O2.acc_variance', 'cbmc'), ('C17.O2.acc_skew_kurt', 'cbmc')]
GROUPS = []
for gid, be in _ids:
    GROUPS.append(Group(id=gid, prop='C17', level='proved',
        bound=('all symbolic inputs over the reals; every GIMPLE path of the loop-free function' if be == 'sympy' else 'loop-free, all IEEE doubles within the stated magnitude bound'),
        backend=be, tier='quick', canaries=(0 if be == 'sympy' else 1), also=['C10'] if be == 'cbmc' else [],
        functions=['cmb_datasummary_initialize/_add/_merge/_variance/_stddev/_skewness/_kurtosis', 'cmb_wtdsummary_initialize/_add/_merge and accessor wrappers'],
        stubs=['sympy as the algebra back end; gcc -O0 -fdump-tree-gimple as the front end (realarith/gsym.py aborts on unknown statement forms)'],
        assumes=(['double arithmetic treated as real arithmetic (rounding error bounds are not derived)'] if be == 'sympy' else ['|mean| <= 1e100 in the CBMC merge harnesses']),
        runner=external.make_runner('realarith', gid, interp='python3-vt'), replay=external.native_replay))
