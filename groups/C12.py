from _common import *
GROUPS = [
    order_group('C12', 'C12.O1.prioq_order', 'ORDER_PRIOQ', 'compare_func', 'src/cmb_priorityqueue.c', also=['C02']),
]

_oq_stubs = ['cmb_resourceguard_wait/_signal, cmb_timeseries_add, cmb_time: contract stubs (harness/cmv_guardstub.h)', 'cmi_mempool_alloc/_free redirected to plain allocation (contract of C20)']
def _oq(gid, entry, define, bound, canaries=1):
    return Group(id=gid, prop='C12', harness='objq.c', entry=entry, defines=[define], level='bounded-unwind', bound=bound, backend='sat', timeout=600, tier='quick',
                 unwind=6, canaries=canaries, functions=['cmb_objectqueue_get', 'cmb_objectqueue_put', 'cmb_objectqueue_position', 'cmb_objectqueue_length/_space', 'record_sample', 'has_content', 'has_space'],
                 stubs=_oq_stubs, also=['C08', 'C14', 'C10'], replace_calls=[('cmi_mempool_alloc', 'cmv_pool_alloc'), ('cmi_mempool_free', 'cmv_pool_free')],
                 assumes=['<= 3 queued objects in any observed state, <= 2 waits per call followed', 'other processes change the queue only through the API'])
GROUPS += [
    _oq('C12.O2.objectqueue_get', 'h_get', 'H_GET', 'arbitrary queue of <= 3 objects (NULL, duplicates), any capacity; environment replaces the queue at every wait', canaries=2),
    _oq('C12.O2.objectqueue_put', 'h_put', 'H_PUT', 'arbitrary queue of <= 3 objects, any capacity incl. 1 and unlimited', canaries=2),
    _oq('C12.O3.objectqueue_queries', 'h_misc', 'H_MISC', 'arbitrary queue of <= 3 objects'),
]

def _pq(gid, entry, define, bound, canaries=1):
    return Group(id=gid, prop='C12', harness='prioq.c', entry=entry, defines=[define], level='bounded-unwind', bound=bound, backend='sat', timeout=900, tier='quick',
                 unwind=7, canaries=canaries, functions=['cmb_priorityqueue_get', 'cmb_priorityqueue_put', 'cmb_priorityqueue_position', 'cmb_priorityqueue_cancel', 'cmb_priorityqueue_reprioritize',
                                                          'cmb_priorityqueue_length/_space', 'compare_func', 'record_sample', 'has_content', 'has_space'],
                 stubs=['cmi_hashheap.c: contract stub hhstub.h (C02)', 'guard / time series / clock: contract stubs (cmv_guardstub.h)'], also=['C08', 'C14', 'C10'],
                 assumes=['<= 3 queued objects in any observed state, <= 2 waits per call followed', '2^64 handles never issued'])
GROUPS += [
    _pq('C12.O4.priorityqueue_get', 'h_get', 'H_GET', 'arbitrary queue of <= 3 (object, priority, handle) entries, any capacity; environment replaces the queue at every wait', canaries=2),
    _pq('C12.O4.priorityqueue_put', 'h_put', 'H_PUT', 'arbitrary queue of <= 3 entries, any capacity', canaries=2),
    _pq('C12.O5.priorityqueue_position_cancel_reprioritize', 'h_misc', 'H_MISC', 'arbitrary queue of <= 3 entries; any handle'),
]

# the priority-queue groups once more with the hashheap stub reduced to the contract of remove / dequeue (arbitrary layout of the
# remaining entries afterwards, a minimum at the front): nothing above the hashheap may depend on where the other entries sit
for _g_ in [_pq('C12.O4.priorityqueue_get.anylayout', 'h_get', 'H_GET', 'as C12.O4.priorityqueue_get; arbitrary re-layout of the remaining entries after every removal', canaries=2),
            _pq('C12.O5.priorityqueue_position_cancel_reprioritize.anylayout', 'h_misc', 'H_MISC', 'as C12.O5; arbitrary re-layout of the remaining entries after every removal')]:
    _g_.defines.append('CMV_HH_ANY_LAYOUT'); _g_.also = ['C10']; GROUPS.append(_g_)   # their C08 / C14 tags are decided by the plain groups
