from _common import *
GROUPS = [
    order_group('C12', 'C12.O1.prioq_order', 'ORDER_PRIOQ', 'compare_func', 'src/cmb_priorityqueue.c', also=['C02']),
]
