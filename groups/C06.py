from _common import *
GROUPS = [
    order_group('C06', 'C06.O1.guard_order', 'ORDER_GUARD', 'guard_queue_check', 'src/cmb_resourceguard.c', also=['C02']),
]
