import os, sys
sys.path.insert(0, os.path.join(os.path.dirname(os.path.abspath(__file__)), '..', 'lib'))
from cvlib import Group
import replays


def order_group(prop, gid, define, func, src, also=(), named=5):
    return Group(id=gid, prop=prop, harness='orders.c', entry='h_order', defines=[define],
                 level='proved', bound='loop-free, all bit patterns of (key, time, priority), NaN times excluded',
                 backend='sat', timeout=60, tier='quick', named=named, canaries=1,
                 functions=['%s (%s)' % (func, src)], replay=replays.order_replay(define), also=also,
                 assumes=['sort-key doubles are not NaN (cmb_event_schedule asserts time >= clock; waiting lists use cmb_time())'])
