from _common import *
import cvlib
# C10 (no memory error, no undefined behaviour, no library abort for valid programs) has no harness of its own:
# it is the union of the built-in safety checks (pointer validity, bounds, arithmetic, conversions) and of every
# library assertion site on all paths of every group that lists C10.  The quick tier runs the groups that exercise
# the mechanisms the property names (grow paths, copy-before-use of dequeued events, empty queue, stack set-up);
# the thorough tier runs all of them.
if not hasattr(cvlib, 'QUICK_FILTER'):
    cvlib.QUICK_FILTER = {}
cvlib.QUICK_FILTER['C10'] = [
    r'C01\.O2\.execute_next\..*', r'C01\.O2\.event_waiters\..*', r'C01\.O3\.api\.clear',
    r'C02\.L3\.(grow|enqueue_nogrow|dequeue|initialize)\.cap2',
    r'C20\.O1\.expand\..*', r'C20\.O2\.alloc_free\.sz8', r'C20\.O1\.static_pool',
    r'C18\.O6\..*', r'C18\.O2\.copy_ts_then_add', r'C18\.O2\.copy_ts_n3', r'C18\.O3\.ds_fivenum_n1', r'C18\.O4\.(ts_)?auto_const_n2', r'C14\.O3\.ts_add_.*',
    r'C03\.O2\.first_activation(_ndebug)?',
    r'C13\.O3\.cancel_remove_subscribe', r'C04\.O3\.wait_process', r'C04\.O2\.timers',
    r'C16\.O2\.(loaded_dice|hyperexponential|alias_sample|geometric.*)', r'C16\.O4\.(exp|nor)_not_hot', r'C16\.O3\.codegen_index_.*',
]
# groups whose NAMED obligations also count for C10: the representation invariant of a growable container, re-proved
# after the growth step, is the induction hypothesis under which every later access is in bounds
if not hasattr(cvlib, 'FULL_GROUPS'):
    cvlib.FULL_GROUPS = {}
cvlib.FULL_GROUPS['C10'] = [r'C20\.O1\.expand\..*', r'C02\.L3\.(grow|initialize)\.cap2', r'C18\.O6\..*', r'C14\.O3\.ts_add_.*', r'C18\.O2\.copy_.*',
                            r'C01\.O2\.execute_next\..*', r'C01\.O2\.event_waiters\..*']
GROUPS = []
