from _common import *
_stubs = ['cmi_pagesize = 64, cmi_aligned_alloc/_free = malloc/free with the port-layer preconditions asserted']
def _g(gid, entry, define, bound, unwind, timeout=600, extra=(), canaries=1):
    return Group(id=gid, prop='C20', harness='mempool.c', entry=entry, defines=[define] + list(extra), canaries=canaries, level='bounded-unwind', bound=bound, backend='sat', timeout=timeout,
                 tier='quick', unwind=unwind, functions=['cmi_mempool_initialize', 'cmi_mempool_expand', 'cmi_mempool_alloc', 'cmi_mempool_free', 'cmi_mempool_terminate', 'cmi_mempool_cleanup'],
                 stubs=_stubs, also=['C10'], replay=replays.mempool_replay, assumes=['object sizes 8..32 bytes, <= 8 objects per chunk (threading loop unwound); object size > 0'])
GROUPS = [
    _g('C20.O1.static_pool', 'h_static', 'H_STATIC', 'static pool of 24-byte objects, 3 per chunk request', 12),
]
for osz, onum in ((8, 5), (24, 3), (32, 2)):
    GROUPS.append(_g('C20.O1.expand.sz%d' % osz, 'h_expand', 'H_EXPAND', 'object size %d, %d requested per chunk (page 64); chunk list empty / partly filled / at the growth threshold (63 of 64)' % (osz, onum), 70,
                     extra=['OSZ=%du' % osz, 'ONUM=%du' % onum], canaries=2))
    GROUPS.append(_g('C20.O2.alloc_free.sz%d' % osz, 'h_allocfree', 'H_ALLOCFREE', 'object size %d; alloc/alloc/alloc/free/alloc/free/free/alloc/alloc with content stability' % osz, 34,
                     extra=['OSZ=%du' % osz, 'ONUM=%du' % max(onum, 3)]))
