from _common import *
GROUPS = [
    order_group('C07', 'C07.O5.holder_order', 'ORDER_HOLDER', 'holder_queue_check', 'src/cmb_resourcepool.c', also=['C02']),
]

_pl_stubs = ['cmi_hashheap.c (holder list): contract stub hhstub.h (C02)', 'cmb_resourceguard_wait/_signal, cmb_timeseries_add, cmb_time: contract stubs (cmv_guardstub.h)',
             'cmi_process_remove_holdable, cmb_process_interrupt, tag pool: recording stubs']
def _pl(gid, entry, define, bound, canaries=1, timeout=900, entryfn=None, extra=(), tier='quick', also_extra=(), replay=None):
    return Group(id=gid, prop='C07', harness='pool.c', entry=entryfn or entry, defines=[define] + list(extra), level='bounded-shape', bound=bound, backend='sat', timeout=timeout, tier=tier, unwind=6,
                 canaries=canaries, functions=['cmi_pool_acquire_inner', 'cmb_resourcepool_acquire/_preempt', 'cmb_resourcepool_release', 'resourcepool_drop_holder', 'reprioritize_holder', 'update_record',
                                               'reset_holder', 'is_available', 'sum_holder_items', 'cmb_resourcepool_held_by_process', 'record_sample'],
                 stubs=_pl_stubs, also=['C08', 'C14', 'C10', 'C06'] + list(also_extra), replay=replay, replace_calls=[('cmi_mempool_alloc', 'cmv_pool_alloc'), ('cmi_mempool_free', 'cmv_pool_free')],
                 assumes=['<= 3 holders (the caller and two others)', '<= 2 waits per call followed', 'other processes change the pool only through the API (environment keeps I-POOL)'])
GROUPS += [
    _pl('C07.O2.acquire', 'h_acquire', 'H_ACQUIRE', 'arbitrary holdings of the caller and one other process, capacity <= 255, any request; environment re-draws the other holding (and may preempt the caller) at every wait', canaries=2, extra=['CMV_ONE_OTHER']),
    _pl('C07.O3.preempt', 'h_acquire', 'H_PREEMPT', 'as acquire, with the preemption loop over one potential victim of arbitrary priority; one wait per call followed, during which somebody else may change the caller\'s priority', canaries=2, extra=['CMV_ONE_OTHER', 'CMV_MAX_WAITS=1u', 'CMV_PRIO_CHANGES']),
    _pl('C07.O3.preempt.w2', 'h_acquire', 'H_PREEMPT', 'as C07.O3.preempt with two waits per call followed', canaries=2, extra=['CMV_ONE_OTHER'], tier='thorough', timeout=3000),
    # ('C07.O2.acquire.3' / 'C07.O3.preempt.3' - three processes - are NOT registered: neither query finished in 3000 s)
    _pl('C07.O4.release', 'h_release', 'H_RELEASE', 'arbitrary holdings, any amount <= the caller holding'),
    _pl('C07.O4.release_lost', 'h_release_lost', 'H_RELEASE_LOST', 'the caller holds nothing (preempted, notice overtaken) and releases n <= capacity', replay=replays.demo_replay('c07_preempt_interrupt_demo.c')),
    _pl('C07.O4.drop', 'h_drop', 'H_DROP', 'a holder ends: drop method', also_extra=['C09']),
    _pl('C07.O4.queries', 'h_misc', 'H_MISC', 'held_by_process, holder re-keying, recording control'),
]
