from _common import *
GROUPS = [
    order_group('C07', 'C07.O5.holder_order', 'ORDER_HOLDER', 'holder_queue_check', 'src/cmb_resourcepool.c', also=['C02']),
]
