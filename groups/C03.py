from _common import *
import external
_ids = [('C03.O1.roundtrip', 'save/restore round trip of the translated context switch: all register, flag, MXCSR and stack contents'),
        ('C03.O2.first_activation', 'real cmi_coroutine_context_init + translated switch + trampoline (debug asserts live)'),
        ('C03.O2.first_activation_ndebug', 'same, release configuration (debug asserts compiled out)'),
        ('C03.O3.transfer', 'bookkeeping of cmi_coroutine_transfer'), ('C03.O3.transfer_requires', 'target RUNNING is required'),
        ('C03.O3.yield', 'yield'), ('C03.O3.resume', 'resume'), ('C03.O3.start', 'start'), ('C03.O3.exit', 'exit'),
        ('C03.O3.stop_other', 'stop of another coroutine'), ('C03.O3.stop_self', 'stop of the running coroutine')]
GROUPS = []
for gid, txt in _ids:
    GROUPS.append(Group(id=gid, prop='C03', level='proved', bound='loop-free / constant-bound loops fully unwound; ' + txt,
        backend='sat', tier='quick', canaries=1, also=['C10'],
        functions=['cmi_coroutine_context_switch, cmi_coroutine_trampoline (nasm -> objdump -> x86/asm2c.py, 1:1 per instruction)',
                   'cmi_coroutine_context_init (real C)', 'cmi_coroutine_transfer/_yield/_resume/_start/_exit/_stop (real C)'],
        stubs=['x86/sem.h: semantics of the 13 instruction forms the routine uses (trusted, ~200 lines)', 'nasm and objdump agree on the bytes',
               'O3: the context switch itself, stack_valid, context_init and stacklimits are stubbed (recording stub)'],
        assumes=['x87 state, XMM/AVX registers, segment state, CET shadow stacks, signals during the switch are not modelled',
                 'O1: one page-aligned 256-byte word-addressed stack window; O2: stack sizes 95..256 bytes with start skew < 16'],
        runner=external.make_runner('x86', gid, interp='python3'), replay=replays.demo_replay('c03_context_demo.c', 'c03_restart_demo.c')))
