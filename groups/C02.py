from _common import *
GROUPS = [
    order_group('C02', 'C02.L4.default_order', 'ORDER_DEFAULT', 'default_order_check', 'src/cmi_hashheap.c', named=5),
]
