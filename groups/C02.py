from _common import *
_f_all = ['hash_key', 'cmi_hash_find_index', 'hash_find_slot', 'hash_rehash', 'heap_up', 'heap_down', 'hashheap_grow', 'cmi_hashheap_initialize',
          'cmi_hashheap_clear', 'cmi_hashheap_reset', 'cmi_hashheap_enqueue', 'cmi_hashheap_dequeue', 'cmi_hashheap_remove', 'cmi_hashheap_item',
          'cmi_hashheap_dkey', 'cmi_hashheap_ikey', 'cmi_hashheap_reprioritize', 'item_match', 'cmi_hashheap_pattern_find/_count/_cancel',
          'cmi_hashheap_count/_is_empty/_peek_*/_is_enqueued (header inlines)']
_stubs = ['hash_key replaced by an uninterpreted function of (key, exponent) masked to the map size (range fact proved for the real one in C02.L0)',
          'cmi_aligned_alloc/_free, cmi_pagesize: fresh page-multiple allocation']
def _op(name, entry, define, exp, tier, backend='sat', timeout=1500, fn=None, extra=(), cmin=None, canaries=1, unwind=None, more_replace=()):
    cap = 1 << exp
    defs = [define, 'CMV_EXP=%d' % exp] + list(extra) + (['CMV_COUNT_MIN=%d' % cmin] if cmin is not None else [])
    return Group(id='C02.L3.%s.cap%d' % (name, cap), prop='C02', harness='hashheap.c', entry=entry, defines=defs,
                 level='bounded-shape', bound='arbitrary well-formed pre-state with capacity %d (hash map %d slots), one doubling; inductive in the history' % (cap, 2 * cap),
                 backend=backend, timeout=timeout, tier=tier, canaries=canaries, unwind=unwind or (2 * cap + 3),
                 replace_calls=[('hash_key', 'cmv_hash_abs')] + list(more_replace), functions=fn or _f_all, stubs=_stubs, also=['C01', 'C10'], replay=replays.hashheap_replay,
                 assumes=['keys supplied by callers are not already enqueued (documented precondition)', '2^64 automatic keys are never issued',
                          'the configured comparison is a strict weak order (proved for the five real ones in C02.L4)'])
GROUPS = [
    order_group('C02', 'C02.L4.default_order', 'ORDER_DEFAULT', 'default_order_check', 'src/cmi_hashheap.c', named=5),
    Group(id='C02.L0.hash_range', prop='C02', harness='hashheap.c', entry='h_hashrange', defines=['H_HASHRANGE'], level='proved',
          bound='loop-free; all keys, exponents 1..31', backend='z3', timeout=120, tier='quick', functions=['hash_key']),
    _op('enqueue_nogrow', 'h_enqueue', 'H_ENQUEUE', 1, 'quick', extra=['CMV_NOGROW'], more_replace=[('hashheap_grow', 'cmv_grow_unreachable')]),
    _op('grow', 'h_grow', 'H_GROW', 1, 'quick', unwind=40, timeout=900),
    _op('initialize', 'h_init', 'H_INIT', 1, 'quick', unwind=44),
    _op('dequeue', 'h_dequeue', 'H_DEQUEUE', 1, 'quick'),
    _op('remove', 'h_remove', 'H_REMOVE', 1, 'quick', backend='portfolio'),
    _op('reprioritize', 'h_reprio', 'H_REPRIO', 1, 'quick', backend='portfolio'),
    _op('queries', 'h_queries', 'H_QUERIES', 1, 'quick'),
    _op('pattern_find', 'h_pattern', 'H_PATTERN', 1, 'quick', extra=['CMV_PAT_WHICH=0']),
    _op('pattern_count', 'h_pattern', 'H_PATTERN', 1, 'quick', extra=['CMV_PAT_WHICH=1']),
    _op('pattern_cancel', 'h_pattern', 'H_PATTERN', 1, 'thorough', extra=['CMV_PAT_WHICH=2'], timeout=1200),
    _op('clear', 'h_clear', 'H_CLEAR', 1, 'quick', unwind=44),
    # layer L1: the sift functions under their own contracts (three levels, right children) -- see _sift below
    # (capacity-4 variants of dequeue / enqueue / remove / reprioritize gave no answer in 25 min: not registered; the sifts at larger sizes are layer L1 below)
    # ('reset' = terminate + initialize is not registered: its query ends with ERROR statuses after an unwinding
    #  assertion in the re-initialisation with a symbolic initial exponent; initialize itself is C02.L3.initialize.cap2)
]

def _sift(which, n, tier, timeout=600):
    fn = 'heap_' + which
    return Group(id='C02.L1.%s.n%d' % (fn, n), prop='C02', harness='sift.c', entry='h_' + which, defines=['H_' + which.upper(), 'NS=%du' % n], level='bounded-shape',
          bound='arbitrary heap of <= %d entries satisfying the call-site precondition of %s, any index; loops fully unwound with unwinding assertions' % (n, fn),
          backend='sat', timeout=timeout, tier=tier, unwind=n + 3, canaries=2, functions=[fn], also=['C01', 'C10'],
          assumes=['the configured comparison is a strict weak order (proved for the five real ones in C02.L4)',
                   'the precondition is what the callers (enqueue / dequeue / remove / reprioritize) establish: checked with the real callers at capacity 2 (C02.L3), by transitivity of the order above'])
# n = 3 is the smallest heap with a right child (13 s solo); n = 5 (two levels below the root) takes minutes: thorough.  n = 7 did not finish in 600 s: not registered.
GROUPS += [_sift('up', 3, 'quick'), _sift('down', 3, 'quick'), _sift('up', 5, 'thorough', 1500)]

# layer L2: pattern_cancel against the CONTRACT of remove (layout of the remaining entries arbitrary after every removal)
GROUPS += [Group(id='C02.L2.pattern_cancel.remove_contract', prop='C02', harness='patcancel.c', entry='h_patcancel', defines=['NS=4u'], level='bounded-shape',
          bound='arbitrary view of <= 4 entries, any pattern; cmi_hashheap_remove replaced by its contract (view minus key, arbitrary new layout); loops fully unwound with unwinding assertions',
          backend='sat', timeout=600, tier='quick', unwind=7, canaries=2, functions=['cmi_hashheap_pattern_cancel', 'item_match'],
          replace_calls=[('cmi_hashheap_remove', 'cmv_remove_contract')], also=['C01', 'C10'],
          stubs=['cmi_hashheap_remove: contract stub (established on the real body by C02.L3.remove.cap2: view change + representation invariant); layout after a removal over-approximated as arbitrary'],
          assumes=['the caller does not rely on the heap order between two removals (pattern_cancel reads the order nowhere)'])]
