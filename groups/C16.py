from _common import *
import external, importlib.util, os, cvlib
_spec = importlib.util.spec_from_file_location('samplers_run', os.path.join(cvlib.VERIF, 'samplers', 'run.py'))
_m = importlib.util.module_from_spec(_spec); _spec.loader.exec_module(_m)
GROUPS = []
for _g in _m.GROUPS:
    if _g['experimental']:
        continue                      # does not finish in the time box; listed in samplers/NOTES.md, never counted
    gid = _g['id']
    thorough = bool(_g['thorough'])
    GROUPS.append(Group(id=gid, prop='C16', level=('proved' if _g['level'] == 'proved' else 'bounded-unwind'),
        bound=('loop-free, every 64-bit raw generator value and every admissible parameter' if _g['level'] == 'proved'
               else 'bounded-unwind / partial correctness: rejection loops cut after 2 rounds without unwinding assertions, n <= 2..3 alternatives') + '; ' + _g['note'],
        backend='cbmc', tier=('thorough' if thorough else 'quick'), canaries=1, also=['C10'] if not thorough else [],
        timeout=(1500 if thorough else 700),
        functions=['the samplers of include/cmb_random.h and src/cmb_random.c reached from ' + _g['entry'], 'codegen/calc_exponential.c, calc_normal.c (tables regenerated each run and evaluated concretely)'],
        stubs=['cmb_random_sfc64 -> arbitrary 64-bit value per call (over-approximates every seed)', 'libm contracts in samplers/h_c16.c (ldexp exact; log, log1p, exp, sqrt, pow by sign/monotonicity bounds)',
               'assume-guarantee: ziggurat fall-backs and std_gamma replaced by their contracts where the note says so'],
        assumes=['the statistical half of C16 (samples follow the stated distribution) is not decided by this technique', _g['note']],
        runner=external.make_runner('samplers', gid, interp='python3', timeout=1600, extra=(('--thorough', '--only', gid) if thorough else ())),
        replay=external.native_replay))

# the build-time table generators themselves (index safety for every answer of the numerical helpers; loop contract)
for _nm, _def, _file, _macro in (('exp', 'H_CODEGEN_EXP', 'codegen/calc_exponential.c', 'CMV_LOOP_ZIG_EXP'), ('nor', 'H_CODEGEN_NOR', 'codegen/calc_normal.c', 'CMV_LOOP_ZIG_NOR')):
    GROUPS.append(Group(id='C16.O3.codegen_index_' + _nm, prop='C16', harness='codegen.c', entry='h_codegen', defines=[_def, 'NDEBUG'], level='proved',
        bound='loop contract on the layer loop of calculate_ziggurat (inductive invariant 0 <= last < i or last == 0): all 256 layers, every outcome of the root finder',
        backend='sat', timeout=600, tier='quick', canaries=1, loop_contracts=True, annotate={_file: {('calculate_ziggurat', 1): _macro}},
        functions=['calculate_ziggurat (%s)' % _file], also=['C10'],
        stubs=['cmi_bisection, exp, log, sqrt, erf: may return anything (the index argument must not depend on numerics)', 'NDEBUG: the generator\'s own assert() on numerical values is compiled out'],
        assumes=['calculate_alias_table and the printing code of the generators are covered only natively (tables regenerated and evaluated in C16.O3.tables_*)'],
        replay=replays.codegen_asan_replay('exponential' if _nm == 'exp' else 'normal')))
