from _common import *
_f = ['cmb_process_hold', 'cmb_process_timer_add/_cancel/_timers_clear', 'cmb_process_wait_process', 'cmb_process_wait_event', 'cmb_process_interrupt', 'cmb_process_resume',
      'cmb_process_stop', 'cmb_process_exit', 'cmb_process_priority_set', 'cmi_process_cancel_awaiteds', 'cmi_process_drop_resources', 'wake_process_waiters',
      'wakeup_event_time/_process/_interrupt, resume_event', 'cmb_resourceguard_wait/_signal/_cancel/_remove/_register', 'wakeup_event_resource',
      'cmb_event_* (real, below the process layer)', 'wakeup_event_event, wake_event_waiters, cmi_event_add_waiter/_remove_waiter']
_stubs = ['coroutine layer replaced by the waker model (harness/procs.c): yield = environment step through the real API, then the first pending event addressed to the caller (in the real event order) is taken from the real queue and its REAL action (wakeup_event_time/_process/_event/_resource/_interrupt, resume_event) is run; resume = recorded',
          'cmi_hashheap.c replaced by its contract stub (hhstub.h, contract from C02)', 'cmi_mempool_alloc/_free redirected to plain allocation (contract of C20: distinct live objects; freed tags must not be used)',
          'demand functions / holdable drop+reprio methods: recording stubs']
_assumes = ['user-chosen signal values (timers, interrupts, resume) are not 0 = SUCCESS', 'at most 2 foreign causes, 2 waiters, 2 queued processes per scenario (bounded-shape)']
def _p(gid, prop, entry, define, bound, also=(), timeout=900, tier='quick', unwind=6, canaries=1):
    return Group(id=gid, prop=prop, harness='procs.c', entry=entry, defines=[define], level='bounded-shape', bound=bound, backend='sat', timeout=timeout, tier=tier, canaries=canaries,
                 unwind=unwind, functions=_f, stubs=_stubs, assumes=_assumes, also=list(also) + ['C10'],
                 replace_calls=[('cmi_mempool_alloc', 'cmv_pool_alloc'), ('cmi_mempool_free', 'cmv_pool_free')])
GROUPS = [
    _p('C04.O1.hold', 'C04', 'h_hold', 'H_HOLD', 'hold with <= 2 arbitrary foreign causes (user timer / interrupt / resume) at arbitrary times and priorities', canaries=2),
    _p('C04.O2.timers', 'C04', 'h_timers', 'H_TIMERS', 'two armed timers + one unrelated registration; cancel / clear'),
    _p('C04.O3.wait_process', 'C04', 'h_waitproc', 'H_WAITPROC', 'one foreign cause; the awaited process running / stopped later / already finished; second waiter', also=['C09'], canaries=2),
    _p('C04.O3.wait_event', 'C04', 'h_waitevent', 'H_WAITEVENT', 'one foreign cause; the awaited event executes, or is cancelled first', canaries=2),
    _p('C04.O3.guard_wait', 'C04', 'h_guardwait', 'H_GUARDWAIT', 'one foreign cause; another waiter; the guard signalled at an arbitrary time with demand true/false', also=['C08'], canaries=2),
    _p('C06.O2.guard_signal', 'C06', 'h_guardsignal', 'H_GUARDSIGNAL', '<= 2 waiters with arbitrary priorities and entry times, one observer guard with one waiter; signal / cancel / remove', also=['C13']),
    _p('C06.O3.priority_set', 'C06', 'h_prioset', 'H_PRIOSET', 'a process queued at a guard with a competitor, one armed timer, one held object'),
    _p('C09.O2.end', 'C09', 'h_end', 'H_END', 'exit / stop by another / stop self; holding <= 1 object, <= 1 timer, queued at <= 1 guard, <= 1 pending wake-up, <= 2 waiters'),
]
