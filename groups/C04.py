from _common import *
import cvlib
# The guarded objects (resource, pool, buffer, queues) are verified over the CONTRACT STUB of the guard
# (cmv_guardstub.h); the groups that establish that contract on the real cmb_resourceguard.c count for them in full.
if not hasattr(cvlib, 'FULL_GROUPS'):
    cvlib.FULL_GROUPS = {}
# C09 ("everything it held is released and offered to the waiters") calls the drop methods of the held objects through
# recording stubs; the groups that establish those methods' contracts count for it in full.
cvlib.FULL_GROUPS.setdefault('C09', []).extend([r'C05\.O3\.drop', r'C07\.O4\.drop'])
for _p_ in ('C05', 'C07', 'C11', 'C12'):
    cvlib.FULL_GROUPS.setdefault(_p_, []).extend([r'C04\.O3\.guard_wait', r'C06\.O2\.guard_signal'])
_f = ['cmb_process_hold', 'cmb_process_timer_add/_cancel/_timers_clear', 'cmb_process_wait_process', 'cmb_process_wait_event', 'cmb_process_interrupt', 'cmb_process_resume',
      'cmb_process_stop', 'cmb_process_exit', 'cmb_process_priority_set', 'cmi_process_cancel_awaiteds', 'cmi_process_drop_resources', 'wake_process_waiters',
      'wakeup_event_time/_process/_interrupt, resume_event', 'cmb_resourceguard_wait/_signal/_cancel/_remove/_register', 'wakeup_event_resource',
      'wakeup_event_event (extracted verbatim from src/cmb_event.c)']
_stubs = ['coroutine layer replaced by the waker model (harness/procs.c): yield = environment step through the real API, then the first pending event addressed to the caller (in the real event order) is taken from the real queue and its REAL action (wakeup_event_time/_process/_event/_resource/_interrupt, resume_event) is run; resume = recorded',
          'cmb_event.c replaced by its contract stub harness/evstub.h (flat pending set; contract established by the C01 groups)', 'cmi_hashheap.c (guard queues) replaced by its contract stub hhstub.h (contract from C02)', 'cmi_mempool_alloc/_free redirected to plain allocation (contract of C20: distinct live objects; freed tags must not be used)',
          'demand functions / holdable drop+reprio methods: recording stubs']
_assumes = ['user-chosen signal values (timers, interrupts, resume) are not 0 = SUCCESS', 'at most 2 foreign causes, 2 waiters, 2 queued processes per scenario (bounded-shape)']
def _p(gid, prop, entry, define, bound, also=(), timeout=900, tier='quick', unwind=6, canaries=1, extra=(), observers=0, replay=None):
    return Group(id=gid, prop=prop, harness='procs.c', entry=entry, defines=[define] + list(extra), level='bounded-shape', bound=bound, backend='sat', timeout=timeout, tier=tier, canaries=canaries,
                 unwind=unwind, unwindset='cmb_resourceguard_signal.0:%d' % (observers + 1), functions=_f, stubs=_stubs, assumes=_assumes, also=list(also) + ['C10'],
                 replace_calls=[('cmi_mempool_alloc', 'cmv_pool_alloc'), ('cmi_mempool_free', 'cmv_pool_free')],
                 extract={'src/cmb_event.c': ['wakeup_event_event']}, replay=replay)
GROUPS = [
    _p('C04.O1.hold', 'C04', 'h_hold', 'H_HOLD', 'hold with <= 2 arbitrary foreign causes (user timer / interrupt / resume) at arbitrary times and priorities', canaries=2),
    _p('C04.O2.timers', 'C04', 'h_timers', 'H_TIMERS', 'two armed timers + one unrelated registration; cancel / clear'),
    _p('C04.O3.wait_process', 'C04', 'h_waitproc', 'H_WAITPROC', 'one foreign cause; the awaited process running / stopped later (and possibly disposed of by its owner before the caller runs again) / already finished; second waiter', also=['C09'], canaries=2,
       replay=replays.demo_replay('c10_waitproc_demo.c')),
    _p('C04.O3.wait_event', 'C04', 'h_waitevent', 'H_WAITEVENT', 'one foreign cause posted during the wait; the awaited event stays pending, executes, or is cancelled first', canaries=2, extra=['CMV_ONE_CAUSE']),
    _p('C04.O3.wait_event.pending', 'C04', 'h_waitevent', 'H_WAITEVENT', '<= 2 foreign causes (one before the call, one during the wait); the awaited event stays pending', extra=['CMV_FATE=0'], tier='thorough', timeout=3000),
    _p('C04.O3.wait_event.executes', 'C04', 'h_waitevent', 'H_WAITEVENT', '<= 2 foreign causes; the awaited event executes while the caller waits', extra=['CMV_FATE=1'], canaries=2, tier='thorough', timeout=3000),
    _p('C04.O3.wait_event.cancelled', 'C04', 'h_waitevent', 'H_WAITEVENT', '<= 2 foreign causes; the awaited event is cancelled while the caller waits', extra=['CMV_FATE=2'], tier='thorough', timeout=3000),
    _p('C04.O3.guard_wait', 'C04', 'h_guardwait', 'H_GUARDWAIT', 'foreign causes before and during the wait; another waiter or not; the guard signalled or not, demand true/false', also=['C08', 'C05', 'C07', 'C11', 'C12'], canaries=2),
    _p('C06.O2.guard_signal', 'C06', 'h_guardsignal', 'H_GUARDSIGNAL', '<= 2 waiters with arbitrary priorities and entry times, one observer guard with one waiter; signal / cancel / remove', also=['C13', 'C05', 'C07', 'C11', 'C12'], observers=1),
    _p('C06.O3.priority_set', 'C06', 'h_prioset', 'H_PRIOSET', 'a process queued at a guard with a competitor, one armed timer, one held object'),
] + [_p('C09.O2.end.%s' % nm, 'C09', 'h_end', 'H_END', '%s; holding <= 1 object, <= 1 timer, queued at <= 1 guard, <= 1 pending wake-up, <= 2 waiters; stop-by-other also: granted its turn at a guard but not yet resumed, another waiter behind it' % nm, extra=['CMV_ROUTE=%d' % r], also=['C08'])
     for r, nm in ((0, 'exit'), (1, 'stop_by_other'), (2, 'stop_self'))] + [
]
