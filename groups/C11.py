from _common import *
_stubs = ['cmb_resourceguard_wait/_signal: contract stubs of harness/cmv_guardstub.h (wait = suspension point: guarantee checked, environment havoc under the object invariant, arbitrary signal)',
          'cmb_timeseries_add: ghost last-sample stub', 'cmb_time: ghost clock', 'cmb_logger_*: no body (no effect)']
_assumes = ['the caller\'s amount variable is not aliased with the buffer object and is not modified by other processes while the caller waits',
            'other processes change the buffer only through the API (environment step keeps 0 <= level <= capacity, I-SIG, I-REC)']
def _g(gid, entry, define, named, canaries, loops, fn, replay=None):
    return Group(id=gid, prop='C11', harness='buffer.c', entry=entry, defines=[define], level='proved',
                 bound='loop contract on while(true): any number of partial transfers and waits; all 64-bit amounts, capacities, levels',
                 backend='sat', timeout=300, tier='quick', named=named, canaries=canaries,
                 loop_contracts=loops, annotate={'src/cmb_buffer.c': {('cmb_buffer_get', 1): 'CMV_LOOP_BUFFER_GET', ('cmb_buffer_put', 1): 'CMV_LOOP_BUFFER_PUT'}},
                 functions=fn, replay=replay, stubs=_stubs, assumes=_assumes, also=['C08', 'C14', 'C10'])
GROUPS = [
    _g('C11.O1.buffer_get', 'h_get', 'H_GET', None, 2, True, ['cmb_buffer_get (src/cmb_buffer.c)', 'record_sample', 'buffer_has_content'], replays.buffer_replay(0)),
    _g('C11.O1.buffer_put', 'h_put', 'H_PUT', None, 2, True, ['cmb_buffer_put (src/cmb_buffer.c)', 'record_sample', 'buffer_has_space'], replays.buffer_replay(1)),
    _g('C11.O4.buffer_misc', 'h_misc', 'H_MISC', None, 1, False, ['cmb_buffer_level', 'cmb_buffer_space', 'cmb_buffer_recording_start', 'cmb_buffer_recording_stop']),
]
