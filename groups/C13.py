from _common import *
_stubs = ['cmb_event.c: contract stub evstub.h (C01)', 'cmi_hashheap.c: contract stub hhstub.h (C02)', 'process awaitable list / coroutine layer: recording stubs', 'cmi_mempool_alloc/_free redirected to plain allocation (C20)',
          'user predicates: arbitrary booleans per (process), fixed during the call']
def _c(gid, entry, define, bound, hh='hhstub', **kw):
    return Group(id=gid, prop='C13', harness='cond.c', entry=entry, defines=[define], level='bounded-shape', bound=bound, backend='sat', timeout=600, tier='quick', unwind=6,
                 unwindset='cmb_resourceguard_signal.0:2', functions=['cmb_condition_signal', 'cmb_condition_cancel', 'cmb_condition_remove', 'cmb_condition_subscribe/_unsubscribe', 'cmb_condition_initialize', 'wakeup_event_condition',
                                                                       'cmb_resourceguard_signal/_cancel/_remove/_register/_unregister'],
                 stubs=_stubs, also=['C10'], replace_calls=[('cmi_mempool_alloc', 'cmv_pool_alloc'), ('cmi_mempool_free', 'cmv_pool_free')],
                 assumes=['<= 3 waiters', 'predicates are pure during a signal'], replay=replays.demo_replay('cond_scn.c'), **kw)
GROUPS = [
    _c('C13.O1.condition_signal', 'h_signal', 'H_SIGNAL', '<= 3 waiters, arbitrary predicates / priorities / entry times'),
    _c('C13.O3.cancel_remove_subscribe', 'h_admin', 'H_ADMIN', '<= 3 waiters; cancel / remove of any process; subscribe / unsubscribe'),
    _c('C13.O2.forwarded_signal', 'h_forward', 'H_FORWARD', '<= 3 waiters; one observed guard signalled'),
]

# the same signal obligations with the hashheap stub reduced to the CONTRACT of remove: arbitrary layout of the remaining waiters
# after every removal (the two-pass structure of cmb_condition_signal is what makes it independent of the reshuffling)
GROUPS += [_c('C13.O1.condition_signal.anylayout', 'h_signal', 'H_SIGNAL', '<= 3 waiters, arbitrary predicates / priorities / entry times; arbitrary re-layout of the waiting list after every removal')]
GROUPS[-1].defines.append('CMV_HH_ANY_LAYOUT')
