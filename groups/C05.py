from _common import *
_stubs = ['cmb_resourceguard_wait/_signal: contract stubs (harness/cmv_guardstub.h)', 'cmb_timeseries_add: ghost last-sample stub', 'cmb_time: ghost clock',
          'cmb_event_schedule / cmb_event_pattern_cancel: recording stubs', 'cmi_mempool_expand: one fresh object (contract of C20)']
_assumes = ['other processes change the resource only through the API (environment step keeps I-RES, I-SIG, I-REC)',
            'process record lists hold at most 2 entries in the pre-state (bounded-shape groups only)']
_ann = {'src/cmb_resource.c': {('cmb_resource_acquire', 1): 'CMV_LOOP_ACQUIRE'}}
def _g(gid, entry, define, level, bound, fn, **kw):
    return Group(id=gid, prop='C05', harness='resource.c', entry=entry, defines=[define] + kw.pop('defs', []), level=level, bound=bound,
                 backend='sat', timeout=300, tier='quick', canaries=kw.pop('canaries', 1), functions=fn, stubs=_stubs, assumes=_assumes,
                 also=['C08', 'C14', 'C10', 'C04'] + kw.pop('also_extra', []), replay=kw.pop('replay', replays.resource_replay), **kw)
GROUPS = [
    _g('C05.O1.grab_contract', 'h_grab', 'H_GRAB', 'proved', 'loop-free; contract of resource_grab enforced on its body',
       ['resource_grab (src/cmb_resource.c)'], enforce='resource_grab'),
    _g('C05.O2.acquire', 'h_acquire', 'H_ACQUIRE', 'proved', 'loop contract on the re-check loop: any number of waits; precondition of resource_grab asserted at every call site (call interposition), real body executed',
       ['cmb_resource_acquire', 'record_sample', 'is_available'], replace_calls=[('resource_grab', 'cmv_grab_checked'), ('cmv_grab_forward', 'resource_grab')], loop_contracts=True, annotate=_ann, canaries=2, unwind=4),
    _g('C05.O2.release', 'h_release', 'H_RELEASE', 'bounded-shape', 'caller record list <= 2 entries',
       ['cmb_resource_release', 'cmi_process_remove_holdable'], unwind=4),
    _g('C05.O2.release_lost', 'h_release_lost', 'H_RELEASE_LOST', 'bounded-shape', 'the caller was preempted (record gone, another holder) and releases anyway; record list <= 2 entries',
       ['cmb_resource_release', 'cmi_process_remove_holdable'], unwind=4, replay=replays.demo_replay('c05_preempt_interrupt_demo.c')),
    _g('C05.O3.drop', 'h_drop', 'H_DROP', 'bounded-shape', 'dead holder record list <= 2 entries',
       ['cmi_process_drop_resources', 'resource_drop_holder'], unwind=3, also_extra=['C09']),
    _g('C05.O2.preempt', 'h_preempt', 'H_PREEMPT', 'bounded-shape', 'victim record list <= 2 entries; polite path replaced by the acquire contract',
       ['cmb_resource_preempt', 'cmi_process_remove_holdable', 'cmi_process_cancel_awaiteds (empty awaits list)'],
       replace_calls=[('resource_grab', 'cmv_grab_checked'), ('cmv_grab_forward', 'resource_grab'), ('cmb_resource_acquire', 'cmv_acquire_contract')], unwind=4),
    _g('C05.O4.queries', 'h_queries', 'H_QUERIES', 'proved', 'loop-free',
       ['cmb_resource_in_use', 'cmb_resource_available', 'cmb_resource_held_by_process', 'is_available', 'cmb_resource_start_recording', 'cmb_resource_stop_recording'], unwind=4),
]
