from _common import *
import statics
def _g(gid, entry, define, bound):
    return Group(id=gid, prop='C19', harness='experiment.c', entry=entry, defines=[define], level='bounded-unwind', bound=bound, backend='sat', timeout=600, tier='quick', unwind=8,
                 functions=['worker_thread_func', 'cimba_run_experiment'], also=['C10'], replay=replays.demo_replay('c19_dispenser_demo.c'),
                 stubs=['pthread_create = run the worker to completion at once (one legal schedule), pthread_join = bookkeeping', 'cmi_cpu_cores: arbitrary >= 1', 'cmi_mempool_cleanup: counter',
                        'trial function: counting stub', '__atomic_fetch_add / __atomic_load_n wrapped: other workers may complete up to 2 draws before each atomic operation of this worker (interference at atomic-operation granularity)', 'glibc pthread_cleanup_push/pop internals: no-ops'],
                 assumes=['__atomic_fetch_add hands out every value exactly once (atomicity axiom); no interleaving of threads is explored', 'pthread_create succeeds (its result is ignored by the code)', 'cmi_cpu_cores() >= 1'])
GROUPS = [
    _g('C19.O1.worker', 'h_worker', 'H_WORKER', '<= 4 trials; arbitrary dispenser value at start; other workers complete <= 2 draws before every atomic operation of this worker'),
    _g('C19.O2.run_experiment', 'h_run', 'H_RUN', '<= 3 trials, 1..3 cores, workers run one after another'),
]

_TU = '#include "cmv_common.h"\n%s#include "src/%s"\n'
_TU_LOGGER = '#include <stdint.h>\n#include <stdbool.h>\n#include <stdio.h>\n#include "src/cmb_logger.c"\n'
_DIS = {
 'cmb_event.c': {r'sim_time|event_queue': 'set by cmb_event_queue_initialize at the start of every trial, cleared by _terminate (C01 groups)'},
 'cmi_coroutine.c': {r'coroutine_current|coroutine_main': 'per-thread dispatcher state; current == main between trials (every process of a trial has ended or is destroyed)'},
 'cmi_mempool.c': {r'static_pools': 'allocator bookkeeping: determines addresses only, never values (C20)'},
 'cmb_process.c': {r'cmi_process_(holdable|waiter|awaitable)tags': 'tag pool: determines addresses only (C20: distinct live objects)'},
 'cmb_resourceguard.c': {r'observer_tagpool': 'tag pool: determines addresses only (C20)'},
 'cmb_objectqueue.c': {r'objectqueue_tags': 'tag pool: determines addresses only (C20)'},
 'cimba.c': {r'cmg_(trial_struct_sz|total_trials|experiment_arr|trial_func)': 'written once by cimba_run_experiment before the first pthread_create, read-only for the workers',
             r'cmg_next_trial_idx': 'the dispenser: only accessed through __atomic_fetch_add by the workers (atomicity axiom)'},
 'cmb_dataset.c': {r'symbol_\w+|cmb_dataset_correlogram_print::1::line_length|cmi_dataset_histogram_print::1::line_length': 'constant in effect: no writer (printing tables)'},
 'cmb_logger.c': {r'.*': 'logger state (mask, time formatter, trial index): affects log text only, not simulation results (listed assumption)'},
}
for _f, _d in _DIS.items():
    _tu = _TU_LOGGER if _f == 'cmb_logger.c' else _TU % ('#include <pthread.h>\n#include <xmmintrin.h>\n' if _f == 'cimba.c' else '', _f)
    GROUPS.append(Group(id='C19.O3.statics.' + _f[:-2], prop='C19', level='proved', bound='symbol-table enumeration of src/%s (supporting static fact; no interleavings explored)' % _f,
                        backend='symtab', tier='quick', functions=['all static-storage objects of src/' + _f], also=['C15'],
                        runner=statics.make_runner('src/' + _f, _d, 'C19-O3,C15-O4', _tu, shared=(r'cmg_\w+' if _f == 'cimba.c' else None))))
