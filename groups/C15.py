from _common import *
_f = ['cmb_random_sfc64', 'splitmix64', 'splitmix_initialize', 'cmb_random_initialize', 'cmb_random_curseed']
def _g(gid, entry, define, backend, level, bound, fn, **kw):
    return Group(id=gid, prop='C15', harness='random_gen.c', entry=entry, defines=[define], level=level, bound=bound, backend=backend,
                 timeout=kw.pop('timeout', 300), tier='quick', functions=fn, includes=['codegen'], also=['C19', 'C10'], replay=replays.random_replay,
                 assumes=['the oracle (spec_sfc64, spec_splitmix64, spec_init) is a transcription of the published algorithms named in the property'], **kw)
GROUPS = [
    _g('C15.O1.init_vs_spec', 'h_init', 'H_INIT', 'z3', 'proved', 'constant-bound loops (20 discards) fully unwound; all seeds, all prior states', _f, unwind=22),
    _g('C15.O2.step_vs_spec', 'h_step', 'H_STEP', 'sat', 'proved', 'loop-free; all states', ['cmb_random_sfc64']),
    _g('C15.O3.flip_after_reseed', 'h_flip', 'H_FLIP', 'z3', 'proved', '20-discard loop fully unwound, flip loop-free; all seeds, all prior cache states',
       ['cmb_random_flip', 'cmb_random_initialize'], unwind=22),
    _g('C15.O3.cache_geometric', 'h_caches', 'H_CACHES', 'sat', 'bounded-unwind', 'sampler loops cut after 1 iteration (the cache cells are written before any loop); libm uninterpreted',
       ['cmb_random_geometric (cache cells prev, denom)'], unwind=2, partial_unwind=True,
       replace_calls=[('cmb_random_std_exponential', 'cmv_nd_double')], no_standard_checks=True,
       annotate={'src/cmb_random.c': {('cmb_random_geometric', 'before', 'unsigned x'): 'CMV_EXPORT_GEO', ('cmb_random_std_gamma', 'before', 'if (a != a_prev)'): 'CMV_EXPORT_GAMMA'}},
       stubs=['cmb_random_std_exponential: arbitrary double', 'log/sqrt: uninterpreted pure functions', 'ceil: arbitrary']),
    _g('C15.O3.cache_gamma', 'h_gamma', 'H_CACHES', 'cvc5', 'proved', 'obligations checked at the first draw, i.e. right after the cache handling; the rest of the sampler is cut off there; libm uninterpreted',
       ['cmb_random_std_gamma (cache cells a_prev, c, d; key = shape, or shape + 1 for the boosted case shape < 1)'], unwind=2, partial_unwind=True,
       replace_calls=[('cmb_random_std_normal', 'cmv_gamma_probe')], no_standard_checks=True,
       annotate={'src/cmb_random.c': {('cmb_random_geometric', 'before', 'unsigned x'): 'CMV_EXPORT_GEO', ('cmb_random_std_gamma', 'before', 'if (a != a_prev)'): 'CMV_EXPORT_GAMMA'}},
       stubs=['cmb_random_std_normal, cmb_random: arbitrary double', 'log/sqrt: uninterpreted pure functions']),
]

import statics
_RANDOM_DISCHARGE = {
    r'prng_state': 'assigned from the seed by cmb_random_initialize (C15.O1)',
    r'initial_seed': 'assigned from the seed by cmb_random_initialize (C15.O1)',
    r'splitmix_state': 'assigned from the seed by cmb_random_initialize before use (C15.O1)',
    r'flip_bits|flip_bitpos': 'bit cache emptied by cmb_random_initialize (C15.O3.flip_after_reseed)',
    r'cmb_random_std_gamma::1::(a_prev|c|d)': 'transparent cache keyed by the shape (C15.O3.cache_gamma)',
    r'cmb_random_geometric::1::(prev|denom)': 'never-hit cache: recomputed on every call (C15.O3.cache_geometric)',
    r'sum_tolerance': 'constant in effect: no writer anywhere in the translation unit',
}
GROUPS.append(Group(id='C15.O4.statics_random', prop='C15', level='proved', bound='symbol-table enumeration (supporting static fact, no interleavings explored)',
                    backend='symtab', tier='quick', functions=['all static-storage objects of src/cmb_random.c'], also=['C19'],
                    runner=statics.make_runner('src/cmb_random.c', _RANDOM_DISCHARGE, 'C15-O4,C19-O3', '#include "cmv_common.h"\n#include "src/cmb_random.c"\n')))
