#!/usr/bin/env python3
"""
asm2c.py - assemble cimba's x86-64/linux context switch, disassemble it, and translate
every instruction line 1:1 into a call of the semantics library sem.h.

usage: asm2c.py <repo_path> <outdir> [--asm <path/to/file.asm>]

Every run re-assembles (nasm -f elf64) and re-disassembles (objdump -d -M intel -w):
the translated text is therefore what the assembler really emitted, macros expanded.

Output (in <outdir>):
    ctx.o          the object file
    ctx.dis        objdump listing that was translated
    asm_gen.c      the generated C (include after sem.h)
    asm_gen.json   machine readable instruction list (address, bytes, text, C call)

Exit status: 0 ok; 2 "extraction break" (unknown mnemonic / operand form / layout that
the translator does not understand - nothing is ever skipped silently); 3 tool failure.
"""
import hashlib
import json
import os
import re
import subprocess
import sys

ASM_REL = "src/port/x86-64/linux/cmi_coroutine_context.asm"
REQUIRED_SYMBOLS = ["cmi_coroutine_context_switch", "cmi_coroutine_trampoline"]

REG64 = {
    "rax": "R_RAX", "rcx": "R_RCX", "rdx": "R_RDX", "rbx": "R_RBX",
    "rsp": "R_RSP", "rbp": "R_RBP", "rsi": "R_RSI", "rdi": "R_RDI",
    "r8": "R_R8", "r9": "R_R9", "r10": "R_R10", "r11": "R_R11",
    "r12": "R_R12", "r13": "R_R13", "r14": "R_R14", "r15": "R_R15",
}


class ExtractionBreak(Exception):
    pass


def brk(msg):
    raise ExtractionBreak(msg)


def run(cmd):
    p = subprocess.run(cmd, stdout=subprocess.PIPE, stderr=subprocess.PIPE, text=True)
    if p.returncode != 0:
        sys.stderr.write("asm2c: tool failure: %s\n%s\n" % (" ".join(cmd), p.stderr))
        sys.exit(3)
    return p.stdout


# ------------------------------------------------------------------ operands ---
MEM_RE = re.compile(r"^(QWORD|DWORD) PTR \[([a-z0-9]+)(?:([+-])0x([0-9a-f]+))?\]$")
IMM_RE = re.compile(r"^(-?)0x([0-9a-f]+)$")


def parse_operand(txt):
    """-> ('r', REG) | ('m', width, REG, disp) | ('i', value); anything else breaks."""
    t = txt.strip()
    if t in REG64:
        return ("r", REG64[t])
    m = MEM_RE.match(t)
    if m:
        width = 64 if m.group(1) == "QWORD" else 32
        base = m.group(2)
        if base not in REG64:
            brk("memory operand base register '%s'" % base)
        disp = int(m.group(4), 16) if m.group(4) else 0
        if m.group(3) == "-":
            disp = -disp
        return ("m", width, REG64[base], disp)
    m = IMM_RE.match(t)
    if m:
        v = int(m.group(2), 16)
        if v >= 1 << 63:            # objdump prints sign-extended imm8/imm32 as 64-bit hex
            v -= 1 << 64
        if m.group(1):
            v = -v
        return ("i", v)
    brk("operand form '%s'" % t)


def split_operands(s):
    s = s.strip()
    if not s:
        return []
    return [x.strip() for x in s.split(",")]


def c_int(v):
    return "INT64_C(%d)" % v if v >= 0 else "(-INT64_C(%d))" % (-v)


def translate(mnem, ops_txt, rawbytes):
    """Return (sem function name, list of C argument strings, is_control_transfer)."""
    ops = [parse_operand(o) for o in split_operands(ops_txt)]
    kinds = tuple(o[0] for o in ops)

    if mnem in ("pushf", "pushfq"):
        if ops or rawbytes != ["9c"]:
            brk("pushf encoding/operands %s %s" % (rawbytes, ops_txt))
        return ("sem_pushfq", [], False)
    if mnem in ("popf", "popfq"):
        if ops or rawbytes != ["9d"]:
            brk("popf encoding/operands %s %s" % (rawbytes, ops_txt))
        return ("sem_popfq", [], False)
    if mnem == "push" and kinds == ("r",):
        return ("sem_push_r", [ops[0][1]], False)
    if mnem == "pop" and kinds == ("r",):
        return ("sem_pop_r", [ops[0][1]], False)
    if mnem == "mov":
        if kinds == ("r", "r"):
            return ("sem_mov_rr", [ops[0][1], ops[1][1]], False)
        if kinds == ("r", "m") and ops[1][1] == 64:
            return ("sem_mov_rm", [ops[0][1], ops[1][2], c_int(ops[1][3])], False)
        if kinds == ("m", "r") and ops[0][1] == 64:
            return ("sem_mov_mr", [ops[0][2], c_int(ops[0][3]), ops[1][1]], False)
    if mnem in ("add", "sub") and kinds == ("r", "i"):
        return ("sem_%s_ri" % mnem, [ops[0][1], c_int(ops[1][1])], False)
    if mnem in ("and", "or", "xor") and kinds == ("m", "i") and ops[0][1] == 32:
        return ("sem_alu_m32i", ["'%s'" % mnem[0], ops[0][2], c_int(ops[0][3]), c_int(ops[1][1])], False)
    if mnem in ("and", "or") and kinds == ("r", "i"):
        return ("sem_alu_ri", ["'%s'" % mnem[0], ops[0][1], c_int(ops[1][1])], False)
    if mnem == "mov" and kinds == ("r", "i"):
        return ("sem_mov_ri", [ops[0][1], c_int(ops[1][1])], False)
    if mnem == "xor" and kinds == ("r", "r"):
        return ("sem_xor_rr", [ops[0][1], ops[1][1]], False)
    if mnem in ("stmxcsr", "ldmxcsr") and kinds == ("m",) and ops[0][1] == 32:
        return ("sem_%s_m" % mnem, [ops[0][2], c_int(ops[0][3])], False)
    if mnem == "call" and kinds == ("r",):
        return ("sem_call_r", [ops[0][1]], True)
    if mnem == "jmp" and kinds == ("r",):
        return ("sem_jmp_r", [ops[0][1]], True)
    if mnem == "ret" and not ops:
        if rawbytes != ["c3"]:
            brk("ret encoding %s" % rawbytes)
        return ("sem_ret", [], True)
    brk("mnemonic/operand form '%s %s'" % (mnem, ops_txt))


# ------------------------------------------------------------------- listing ---
SYM_RE = re.compile(r"^([0-9a-f]+) <([^>]+)>:$")
INS_RE = re.compile(r"^\s*([0-9a-f]+):\t((?:[0-9a-f]{2} )+)\s*(?:\t(.*))?$")


def parse_listing(text):
    """-> list of symbols: {'name', 'addr', 'insns': [{'addr','bytes','mnem','ops','text'}]}"""
    syms = []
    in_text = False
    for line in text.splitlines():
        if line.startswith("Disassembly of section"):
            in_text = line.strip() == "Disassembly of section .text:"
            if not in_text:
                brk("code in unexpected section: %s" % line.strip())
            continue
        if not in_text or not line.strip():
            continue
        m = SYM_RE.match(line.strip())
        if m:
            syms.append({"name": m.group(2), "addr": int(m.group(1), 16), "insns": []})
            continue
        m = INS_RE.match(line)
        if not m:
            brk("unparsable listing line: %r" % line)
        if not syms:
            brk("instruction before any symbol: %r" % line)
        addr = int(m.group(1), 16)
        raw = m.group(2).split()
        body = (m.group(3) or "").strip()
        if not body:
            brk("listing line without mnemonic (wrapped bytes?): %r" % line)
        if "#" in body or "<" in body:
            brk("rip-relative / symbolic operand not supported: %r" % body)
        parts = body.split(None, 1)
        mnem = parts[0]
        ops = parts[1] if len(parts) > 1 else ""
        if mnem in ("rep", "repz", "repnz", "lock", "data16", "addr32", "cs", "ds", "es", "fs", "gs", "ss", "(bad)"):
            brk("prefix or bad opcode: %r" % body)
        syms[-1]["insns"].append({"addr": addr, "bytes": raw, "mnem": mnem, "ops": ops, "text": body})
    return syms


def text_section_size(objfile):
    out = run(["objdump", "-h", objfile])
    for line in out.splitlines():
        f = line.split()
        if len(f) >= 3 and f[1] == ".text":
            return int(f[2], 16)
    brk("no .text section in object file")


def check_no_relocs(objfile):
    out = run(["objdump", "-r", objfile])
    if "RELOCATION RECORDS" in out:
        brk("object file has relocations; translated code would depend on link-time values")


# ------------------------------------------------------------------ generate ---
def generate(syms, asm_path, asm_sha, text_size):
    names = [s["name"] for s in syms]
    for req in REQUIRED_SYMBOLS:
        if req not in names:
            brk("required symbol '%s' missing from the object file" % req)

    # contiguity: every byte of .text belongs to exactly one translated instruction
    pos = 0
    for s in syms:
        if s["addr"] != pos:
            brk("gap or overlap before symbol %s at 0x%x (expected 0x%x)" % (s["name"], s["addr"], pos))
        if not s["insns"]:
            brk("symbol %s has no instructions" % s["name"])
        for ins in s["insns"]:
            if ins["addr"] != pos:
                brk("gap or overlap at 0x%x (expected 0x%x)" % (ins["addr"], pos))
            pos += len(ins["bytes"])
    if pos != text_size:
        brk(".text is 0x%x bytes but 0x%x bytes were disassembled" % (text_size, pos))

    out = []
    meta = {"asm": asm_path, "sha256": asm_sha, "symbols": []}
    out.append("/* GENERATED by asm2c.py - DO NOT EDIT.")
    out.append(" * source : %s" % asm_path)
    out.append(" * sha256 : %s" % asm_sha)
    out.append(" * One sem_* call per disassembled instruction; blocks end at call/jmp/ret. */")
    out.append("#ifndef C03_SEM_H")
    out.append('#include "sem.h"')
    out.append("#endif")
    out.append("")
    for s in syms:
        out.append("uint64_t asm_addr_%s; /* run-time address of the symbol, set by the harness */" % s["name"])
        out.append("#define ASM_SECOFF_%s 0x%xull" % (s["name"], s["addr"]))
    out.append("")

    for s in syms:
        sym = s["name"]
        base = s["addr"]
        blocks = [[]]
        for ins in s["insns"]:
            fn, args, ctl = translate(ins["mnem"], ins["ops"], ins["bytes"])
            nxt = ins["addr"] + len(ins["bytes"]) - base
            call = "%s(m, asm_addr_%s + 0x%xull%s);" % (fn, sym, nxt, "".join(", " + a for a in args))
            ins["c"] = call
            blocks[-1].append(ins)
            if ctl:
                blocks.append([])
        if blocks[-1]:
            brk("symbol %s does not end in a control transfer (falls through)" % sym)
        blocks.pop()
        symmeta = {"name": sym, "section_offset": base, "blocks": []}
        for k, blk in enumerate(blocks):
            off = blk[0]["addr"] - base
            out.append("#define ASM_%s_blk%d_OFF 0x%xull" % (sym, k, off))
            out.append("static void asm_%s_blk%d(struct x86 *m)" % (sym, k))
            out.append("{")
            out.append("    sem_enter(m, asm_addr_%s + 0x%xull);" % (sym, off))
            for ins in blk:
                out.append("    /* %4x: %-18s %-34s */ %s" % (ins["addr"], " ".join(ins["bytes"]), ins["text"], ins["c"]))
            out.append("}")
            out.append("")
            symmeta["blocks"].append({
                "index": k, "offset": off,
                "insns": [{"addr": i["addr"], "bytes": " ".join(i["bytes"]), "text": i["text"], "c": i["c"]} for i in blk],
            })
        out.append("#define ASM_%s_NBLK %d" % (sym, len(blocks)))
        out.append("")
        meta["symbols"].append(symmeta)
    return "\n".join(out) + "\n", meta


def main(argv):
    if len(argv) < 3:
        sys.stderr.write(__doc__)
        return 3
    repo, outdir = argv[1], argv[2]
    asm_path = os.path.join(repo, ASM_REL)
    if "--asm" in argv:
        asm_path = argv[argv.index("--asm") + 1]
    os.makedirs(outdir, exist_ok=True)
    obj = os.path.join(outdir, "ctx.o")
    if not os.path.isfile(asm_path):
        sys.stderr.write("asm2c: no such file %s\n" % asm_path)
        return 3
    with open(asm_path, "rb") as f:
        sha = hashlib.sha256(f.read()).hexdigest()
    run(["nasm", "-f", "elf64", asm_path, "-o", obj])
    listing = run(["objdump", "-d", "-M", "intel", "-w", obj])
    with open(os.path.join(outdir, "ctx.dis"), "w") as f:
        f.write(listing)
    try:
        check_no_relocs(obj)
        syms = parse_listing(listing)
        ctext, meta = generate(syms, asm_path, sha, text_section_size(obj))
    except ExtractionBreak as e:
        sys.stderr.write("asm2c: extraction break: %s\n" % e)
        print("extraction break: %s" % e)
        return 2
    with open(os.path.join(outdir, "asm_gen.c"), "w") as f:
        f.write(ctext)
    with open(os.path.join(outdir, "asm_gen.json"), "w") as f:
        json.dump(meta, f, indent=1)
    n = sum(len(b["insns"]) for s in meta["symbols"] for b in s["blocks"])
    sys.stderr.write("asm2c: translated %d instructions from %s\n" % (n, asm_path))
    return 0


if __name__ == "__main__":
    sys.exit(main(sys.argv))
