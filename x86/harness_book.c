/*
 * harness_book.c - C03.O3: the C bookkeeping around the context switch (plain C, loop-free).
 *
 * The REAL src/cmi_coroutine.c is included below. Replaced (all are `extern` in that file):
 *   cmi_coroutine_context_switch  -> records (old cell, new cell, message), a snapshot of the
 *                                    library state at the moment of the switch, returns nondet
 *   cmi_coroutine_stack_valid     -> true   (it is only used inside cmb_assert_debug)
 *   cmi_coroutine_context_init    -> counts the call, havocs cp->stack_pointer (proved in O2)
 *   cmi_coroutine_stacklimits     -> havoc  (only reachable from create_main, not used here)
 *
 * Assertion macros:
 *   default        : assert-then-assume, every library assertion is an obligation
 *   -DO3_ABORT_MODE: a failing cmb_assert_release terminates the program (assume), and
 *                    cmb_assert_debug is compiled out as in an NDEBUG build. Used by the
 *                    "requires" harness: the obligation sits in the switch stub, so deleting the
 *                    library's release assertion makes it fail.
 *
 * Entry points: harness_o3_<name>; every one ends in a CANARY that must fail.
 */
#include <stdint.h>
#include <stddef.h>
#include <stdbool.h>
#include <stdlib.h>

#define CIMBA_CMB_ASSERT_H 1
#include "cmi_config.h"
#ifdef O3_ABORT_MODE
#define cmb_assert_release(x) __CPROVER_assume(x)
#define cmb_assert_debug(x) do { (void)sizeof(x); } while (0)
#else
#define cmb_assert_release(x) (__CPROVER_assert((x), "cmb_assert_release: " #x), __CPROVER_assume(x))
#define cmb_assert_debug(x) (__CPROVER_assert((x), "cmb_assert_debug: " #x), __CPROVER_assume(x))
#endif
#define cmb_assert(x) cmb_assert_debug(x)
#define cmb_unused(x) ((void)(x))

#include "src/cmi_coroutine.c"

#define OBT(tag, cond, text) __CPROVER_assert((cond), tag ": " text)
#define CANARY(name) __CPROVER_assert(0, "CANARY " name)
#define ASSUME(c) __CPROVER_assume(c)

unsigned nondet_unsigned(void);
void *nondet_ptr(void);
unsigned char *nondet_ucharptr(void);
_Bool nondet_bool(void);

/* ------------------------------------------------------------------------------ stubs --- */
static struct {
    int n_switch;                       /* number of context switches so far */
    void **old_cell, **new_cell;
    void *msg;
    void *retval;                       /* what the stub returned */
    struct cmi_coroutine *current;      /* coroutine_current at the switch */
    struct cmi_coroutine *to;           /* owner of new_cell */
    struct cmi_coroutine to_copy;       /* *to at the switch */
    struct cmi_coroutine from_copy;     /* owner of old_cell at the switch */
    int n_init_at_switch;
} rec;

static int n_init;
static struct cmi_coroutine *init_arg;

#define OWNER(cell) ((struct cmi_coroutine *)((unsigned char *)(cell) - offsetof(struct cmi_coroutine, stack_pointer)))

void *cmi_coroutine_context_switch(void **old, void **new, void *ret)
{
    struct cmi_coroutine *to = OWNER(new);
    struct cmi_coroutine *from = OWNER(old);
    OBT("C03-O3", to->status == CMI_COROUTINE_RUNNING, "the context switch is only ever entered with a RUNNING target");
    OBT("C03-O3", from->status == CMI_COROUTINE_RUNNING || from->status == CMI_COROUTINE_FINISHED,
        "the context switch is only ever left by a RUNNING or FINISHED coroutine");
    rec.n_switch++;
    rec.old_cell = old;
    rec.new_cell = new;
    rec.msg = ret;
    rec.current = coroutine_current;
    rec.to = to;
    rec.to_copy = *to;
    rec.from_copy = *from;
    rec.n_init_at_switch = n_init;
    rec.retval = nondet_ptr();
    return rec.retval;
}

bool cmi_coroutine_stack_valid(const struct cmi_coroutine *cp) { (void)cp; return true; }

void cmi_coroutine_context_init(struct cmi_coroutine *cp)
{
    n_init++;
    init_arg = cp;
    cp->stack_pointer = nondet_ucharptr();
}

void cmi_coroutine_stacklimits(unsigned char **top, unsigned char **bottom)
{
    *top = nondet_ucharptr();
    *bottom = nondet_ucharptr();
}

/* --------------------------------------------------------------------- arbitrary state --- */
#define NPOOL 4
static struct cmi_coroutine pool[NPOOL];

static struct cmi_coroutine *pick(void)
{
    unsigned i = nondet_unsigned();
    ASSUME(i < NPOOL);
    return &pool[i];
}

static struct cmi_coroutine *pick_or_null(void)
{
    return nondet_bool() ? pick() : NULL;
}

static void havoc_one(struct cmi_coroutine *c)
{
    unsigned st = nondet_unsigned();
    ASSUME(st <= 2u);
    c->parent = pick_or_null();
    c->caller = pick_or_null();
    c->stack = nondet_ucharptr();
    c->stack_base = nondet_ucharptr();
    c->stack_limit = nondet_ucharptr();
    c->stack_pointer = nondet_ucharptr();
    c->status = (enum cmi_coroutine_state)st;
    c->cr_function = NULL;
    c->context = nondet_ptr();
    c->cr_exit = NULL;
    c->exit_value = nondet_ptr();
}

static void setup(void)
{
    havoc_one(&pool[0]); havoc_one(&pool[1]); havoc_one(&pool[2]); havoc_one(&pool[3]);
    coroutine_main = &pool[0];
    coroutine_current = pick();
    rec.n_switch = 0;
    n_init = 0;
    init_arg = NULL;
}

/* everything in *p except `caller` equals the snapshot q */
#define SAME_BUT_CALLER(p, q) \
    ((p)->parent == (q).parent && (p)->stack == (q).stack && (p)->stack_base == (q).stack_base && \
     (p)->stack_limit == (q).stack_limit && (p)->stack_pointer == (q).stack_pointer && \
     (p)->status == (q).status && (p)->cr_function == (q).cr_function && (p)->context == (q).context && \
     (p)->cr_exit == (q).cr_exit && (p)->exit_value == (q).exit_value)

/* ---------------------------------------------------------------------------- transfer --- */
#ifndef O3_ABORT_MODE
void harness_o3_transfer(void)
{
    setup();
    struct cmi_coroutine *from = coroutine_current;
    struct cmi_coroutine *to = pick();              /* may be `from` itself: the code allows it */
    void *msg = nondet_ptr();
    ASSUME(to->status == CMI_COROUTINE_RUNNING);
    ASSUME(from->status == CMI_COROUTINE_RUNNING || from->status == CMI_COROUTINE_FINISHED);
    const struct cmi_coroutine to0 = *to, from0 = *from;

    void *ret = cmi_coroutine_transfer(to, msg);

    OBT("C03-O3", rec.n_switch == 1, "transfer: exactly one context switch");
    OBT("C03-O3", rec.old_cell == (void **)&from->stack_pointer, "transfer: old cell == &current->stack_pointer");
    OBT("C03-O3", rec.new_cell == (void **)&to->stack_pointer, "transfer: new cell == &to->stack_pointer");
    OBT("C03-O3", rec.msg == msg, "transfer: message passed unchanged as third argument");
    OBT("C03-O3", rec.current == to, "transfer: coroutine_current == to when the switch happens");
    OBT("C03-O3", rec.to_copy.caller == from, "transfer: to->caller == the transferring coroutine (EVERY transfer, also a yield, overwrites the target's caller)");
    OBT("C03-O3", SAME_BUT_CALLER(&rec.to_copy, to0), "transfer: nothing else in *to changes");
    OBT("C03-O3", to == from || (SAME_BUT_CALLER(&rec.from_copy, from0) && rec.from_copy.caller == from0.caller), "transfer: *from unchanged");
    OBT("C03-O3", ret == rec.retval, "transfer: returns the value the switch returns (message of whoever transfers back)");
    CANARY("C03.O3.transfer");
}

/* ------------------------------------------------------------------------------- yield --- */
void harness_o3_yield(void)
{
    setup();
    struct cmi_coroutine *cur = coroutine_current;
    void *msg = nondet_ptr();
    ASSUME(cur->status == CMI_COROUTINE_RUNNING);
    ASSUME(cur->caller != NULL && cur->caller->status == CMI_COROUTINE_RUNNING);
    struct cmi_coroutine *caller0 = cur->caller;

    void *ret = cmi_coroutine_yield(msg);

    OBT("C03-O3", rec.n_switch == 1, "yield: exactly one context switch");
    OBT("C03-O3", rec.new_cell == (void **)&caller0->stack_pointer, "yield: transfers to the CALLER of the current coroutine");
    OBT("C03-O3", rec.old_cell == (void **)&cur->stack_pointer, "yield: old cell == &current->stack_pointer");
    OBT("C03-O3", rec.msg == msg, "yield: message passed unchanged");
    OBT("C03-O3", rec.current == caller0, "yield: coroutine_current == caller at the switch");
    OBT("C03-O3", ret == rec.retval, "yield: returns the message of the matching resume/transfer");
    CANARY("C03.O3.yield");
}

/* ------------------------------------------------------------------------------ resume --- */
void harness_o3_resume(void)
{
    setup();
    struct cmi_coroutine *cur = coroutine_current;
    struct cmi_coroutine *cp = pick();
    void *msg = nondet_ptr();
    ASSUME(cp != cur);
    ASSUME(cp->status == CMI_COROUTINE_RUNNING);
    ASSUME(cur->status == CMI_COROUTINE_RUNNING);

    void *ret = cmi_coroutine_resume(cp, msg);

    OBT("C03-O3", rec.n_switch == 1, "resume: exactly one context switch");
    OBT("C03-O3", rec.new_cell == (void **)&cp->stack_pointer, "resume: transfers to its argument");
    OBT("C03-O3", rec.old_cell == (void **)&cur->stack_pointer, "resume: old cell == &current->stack_pointer");
    OBT("C03-O3", rec.msg == msg, "resume: message passed unchanged");
    OBT("C03-O3", rec.to_copy.caller == cur, "resume: the resumed coroutine's caller is the resumer");
    OBT("C03-O3", ret == rec.retval, "resume: returns the message of the matching yield");
    CANARY("C03.O3.resume");
}

/* ------------------------------------------------------------------------------- start --- */
void harness_o3_start(void)
{
    setup();
    struct cmi_coroutine *cur = coroutine_current;
    struct cmi_coroutine *cp = pick();
    void *msg = nondet_ptr();
    ASSUME(cur->status == CMI_COROUTINE_RUNNING);
    ASSUME(cp->status != CMI_COROUTINE_RUNNING);        /* CREATED, or FINISHED (restart) */

    void *ret = cmi_coroutine_start(cp, msg);

    OBT("C03-O3", rec.n_switch == 1, "start: exactly one context switch");
    OBT("C03-O3", rec.n_init_at_switch == 1 && init_arg == cp, "start: context_init(cp) ran exactly once before the switch");
    OBT("C03-O3", rec.to == cp && rec.new_cell == (void **)&cp->stack_pointer, "start: transfers into the started coroutine");
    OBT("C03-O3", rec.old_cell == (void **)&cur->stack_pointer, "start: old cell == &current->stack_pointer");
    OBT("C03-O3", rec.msg == msg, "start: message passed unchanged");
    OBT("C03-O3", rec.to_copy.parent == cur, "start: parent == the starting coroutine");
    OBT("C03-O3", rec.to_copy.caller == cur, "start: caller == the starting coroutine");
    OBT("C03-O3", rec.to_copy.status == CMI_COROUTINE_RUNNING, "start: status RUNNING at the switch");
    OBT("C03-O3", rec.to_copy.exit_value == NULL, "start: exit_value NULL at the switch");
    OBT("C03-O3", rec.current == cp, "start: coroutine_current == cp at the switch");
    OBT("C03-O3", ret == rec.retval, "start: returns the message passed back");
    CANARY("C03.O3.start");
}

/* -------------------------------------------------------------------------------- exit --- */
void harness_o3_exit(void)
{
    setup();
    struct cmi_coroutine *cur = coroutine_current;
    void *v = nondet_ptr();
    ASSUME(cur != coroutine_main);
    ASSUME(cur->status == CMI_COROUTINE_RUNNING);
    ASSUME(cur->parent != NULL && cur->parent->status == CMI_COROUTINE_RUNNING);
    /* invariant of start(): the parent was RUNNING while cp was not, so a coroutine is never its
     * own parent (without this the library's own `to->status == RUNNING` assertion fires) */
    ASSUME(cur->parent != cur);
    struct cmi_coroutine *parent0 = cur->parent;

    cmi_coroutine_exit(v);

    OBT("C03-O3", rec.n_switch == 1, "exit: exactly one context switch");
    OBT("C03-O3", rec.from_copy.exit_value == v, "exit: exit_value stored before the switch");
    OBT("C03-O3", rec.from_copy.status == CMI_COROUTINE_FINISHED, "exit: status FINISHED before the switch");
    OBT("C03-O3", rec.new_cell == (void **)&parent0->stack_pointer, "exit: transfers to the PARENT");
    OBT("C03-O3", rec.old_cell == (void **)&cur->stack_pointer, "exit: old cell == &current->stack_pointer");
    OBT("C03-O3", rec.msg == v, "exit: the exit value is the message to the parent");
    OBT("C03-O3", rec.current == parent0, "exit: coroutine_current == parent at the switch");
    CANARY("C03.O3.exit");
}

/* -------------------------------------------------------------------------------- stop --- */
void harness_o3_stop_other(void)
{
    setup();
    struct cmi_coroutine *cur = coroutine_current;
    struct cmi_coroutine *cp = pick();
    void *v = nondet_ptr();
    ASSUME(cp != cur);
    ASSUME(cp->status == CMI_COROUTINE_RUNNING);
    const struct cmi_coroutine cp0 = *cp;

    cmi_coroutine_stop(cp, v);

    OBT("C03-O3", rec.n_switch == 0, "stop(other): no context switch");
    OBT("C03-O3", cp->status == CMI_COROUTINE_FINISHED, "stop(other): status FINISHED");
    OBT("C03-O3", cp->exit_value == v, "stop(other): exit_value stored");
    OBT("C03-O3", coroutine_current == cur, "stop(other): current coroutine unchanged");
    OBT("C03-O3", cp->parent == cp0.parent && cp->caller == cp0.caller && cp->stack_pointer == cp0.stack_pointer,
        "stop(other): links and saved stack pointer untouched");
    CANARY("C03.O3.stop_other");
}

void harness_o3_stop_self(void)
{
    setup();
    struct cmi_coroutine *cur = coroutine_current;
    void *v = nondet_ptr();
    ASSUME(cur != coroutine_main);
    ASSUME(cur->status == CMI_COROUTINE_RUNNING);
    ASSUME(cur->parent != NULL && cur->parent->status == CMI_COROUTINE_RUNNING);
    /* invariant of start(): the parent was RUNNING while cp was not, so a coroutine is never its
     * own parent (without this the library's own `to->status == RUNNING` assertion fires) */
    ASSUME(cur->parent != cur);
    struct cmi_coroutine *parent0 = cur->parent;

    cmi_coroutine_stop(cur, v);

    OBT("C03-O3", rec.n_switch == 1, "stop(self): exactly one context switch, as exit(v)");
    OBT("C03-O3", rec.from_copy.exit_value == v && rec.from_copy.status == CMI_COROUTINE_FINISHED, "stop(self): FINISHED with the value before the switch");
    OBT("C03-O3", rec.new_cell == (void **)&parent0->stack_pointer && rec.msg == v, "stop(self): transfers to the parent with the value");
    CANARY("C03.O3.stop_self");
}
#endif /* !O3_ABORT_MODE */

/* ------------------------------------------------------------------- transfer requires --- */
#ifdef O3_ABORT_MODE
/* No precondition on `to` at all (may be NULL, may have any status), NDEBUG build: whenever the
 * switch is reached the stub's obligations "target RUNNING" / "source RUNNING or FINISHED" hold,
 * i.e. the library's release assertions enforce the requirement by themselves. */
void harness_o3_transfer_requires(void)
{
    setup();
    struct cmi_coroutine *to = pick_or_null();
    void *msg = nondet_ptr();
    (void)cmi_coroutine_transfer(to, msg);
    OBT("C03-O3", rec.n_switch == 1 && rec.to == to, "transfer(requires): if it returns, it switched exactly once, into `to`");
    CANARY("C03.O3.transfer_requires");
}
#endif
