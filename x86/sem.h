/*
 * sem.h - a small x86-64 (long mode, CPL 3) instruction semantics library for CBMC.
 *
 * Used by the C text that asm2c.py generates from `objdump -d -M intel` output:
 * every disassembled instruction becomes exactly one call of one sem_* function.
 * The first extra argument of every sem_* function is the address of the NEXT
 * instruction (address + length as printed by objdump); it becomes rip unless
 * the instruction itself transfers control.
 *
 * Machine state : 16 GPRs, rip, rflags, mxcsr            (struct x86)
 * Memory        : (1) a word-addressed region sem_mem[SEM_NSLOTS] of 64-bit slots
 *                     at the symbolic (page aligned) byte address sem_base; slot = (addr-base)/8
 *                 (2) up to SEM_NEXT "external" regions backed by real C objects
 *                     (used by O2 so that the REAL cmi_coroutine_context_init
 *                     writes the very bytes that the translated assembly reads).
 *                 Every access is asserted to be naturally aligned and to lie
 *                 inside one of the modelled regions ("C03-MEM: ...").
 * Flags         : add/sub/xor set CF PF AF ZF SF OF to nondeterministic values
 *                 (sound over-approximation; a mis-ordered popf is caught).
 *
 * What is NOT modelled is listed in NOTES.md.
 */
#ifndef C03_SEM_H
#define C03_SEM_H

#include <stdint.h>

enum sem_reg {
    R_RAX = 0, R_RCX, R_RDX, R_RBX, R_RSP, R_RBP, R_RSI, R_RDI,
    R_R8, R_R9, R_R10, R_R11, R_R12, R_R13, R_R14, R_R15, R_NREGS
};

struct x86 {
    uint64_t r[R_NREGS];
    uint64_t rip;
    uint64_t rflags;
    uint32_t mxcsr;
};

/* RFLAGS bit masks */
#define FL_CF (1ull << 0)
#define FL_PF (1ull << 2)
#define FL_AF (1ull << 4)
#define FL_ZF (1ull << 6)
#define FL_SF (1ull << 7)
#define FL_TF (1ull << 8)
#define FL_IF (1ull << 9)
#define FL_DF (1ull << 10)
#define FL_OF (1ull << 11)
#define FL_NT (1ull << 14)
#define FL_RF (1ull << 16)
#define FL_VM (1ull << 17)
#define FL_AC (1ull << 18)
#define FL_ID (1ull << 21)
#define FL_ARITH (FL_CF | FL_PF | FL_AF | FL_ZF | FL_SF | FL_OF)
/* Bits that POPFQ writes at CPL 3 with IOPL < 3 (Intel SDM vol. 2B, POPF table):
 * IF, IOPL, VIF, VIP, VM, RF are not taken from the stack image. */
#define FL_POPF_USER (FL_ARITH | FL_TF | FL_DF | FL_NT | FL_AC | FL_ID)
/* PUSHFQ stores RFLAGS with VM and RF cleared (image & 0x00FCFFFF); bit 1 reads 1 */
#define FL_PUSHF_IMAGE 0x00FCFFFFull

/* MXCSR: bits 16..31 reserved, loading a value with any of them set raises #GP */
#define MXCSR_RESERVED 0xFFFF0000u

/* ---------------------------------------------------------------- memory --- */
#ifndef SEM_NSLOTS
#define SEM_NSLOTS 64
#endif
#define SEM_NEXT 2

struct sem_extregion {
    uint64_t lo;            /* first byte address (integer value of ptr) */
    uint64_t size;          /* bytes; 0 = region unused */
    unsigned char *ptr;     /* the C object backing the region */
};

uint64_t sem_mem[SEM_NSLOTS];
uint64_t sem_base;                       /* byte address of sem_mem[0], 4096-aligned */
struct sem_extregion sem_ext[SEM_NEXT];

uint64_t nondet_u64(void);

#define SEM_IN_EXT(k, addr, n) \
    (sem_ext[k].size >= (n) && (addr) >= sem_ext[k].lo && (addr) - sem_ext[k].lo <= sem_ext[k].size - (n))
/* The word region starts on a 4 KiB boundary and is at most one page long, so that
 * "inside the region" and the slot index are bit-field tests of the address instead of a
 * 64-bit subtraction of two symbolic values (measured: > 15 min vs. ~1 min, see NOTES.md).
 * The harness must keep sem_base 4096-aligned; the upper 52 bits stay symbolic. */
#if SEM_NSLOTS > 512
#error "SEM_NSLOTS must not exceed 512 (one page)"
#endif
#define SEM_IN_MEM(addr) \
    (((((addr) ^ sem_base) >> 12) == 0u) && (((addr) & 0xFFFu) < 8ull * SEM_NSLOTS))
#define SEM_OFF(addr) ((addr) & 0xFFFu)
#define SEM_IDX(addr) (SEM_OFF(addr) >> 3)

static inline uint64_t sem_rd64(uint64_t addr)
{
    __CPROVER_assert((addr & 7u) == 0u, "C03-MEM: 64-bit stack access is 8-byte aligned");
#ifndef SEM_NO_EXT
    if (SEM_IN_EXT(0, addr, 8u)) return *(uint64_t *)(sem_ext[0].ptr + (addr - sem_ext[0].lo));
    if (SEM_IN_EXT(1, addr, 8u)) return *(uint64_t *)(sem_ext[1].ptr + (addr - sem_ext[1].lo));
#endif
    __CPROVER_assert(SEM_IN_MEM(addr), "C03-MEM: 64-bit load inside the modelled region");
    __CPROVER_assume(SEM_IN_MEM(addr) && (addr & 7u) == 0u);
    return sem_mem[SEM_IDX(addr)];
}

static inline void sem_wr64(uint64_t addr, uint64_t v)
{
    __CPROVER_assert((addr & 7u) == 0u, "C03-MEM: 64-bit stack access is 8-byte aligned");
#ifndef SEM_NO_EXT
    if (SEM_IN_EXT(0, addr, 8u)) { *(uint64_t *)(sem_ext[0].ptr + (addr - sem_ext[0].lo)) = v; return; }
    if (SEM_IN_EXT(1, addr, 8u)) { *(uint64_t *)(sem_ext[1].ptr + (addr - sem_ext[1].lo)) = v; return; }
#endif
    __CPROVER_assert(SEM_IN_MEM(addr), "C03-MEM: 64-bit store inside the modelled region");
    __CPROVER_assume(SEM_IN_MEM(addr) && (addr & 7u) == 0u);
    sem_mem[SEM_IDX(addr)] = v;
}

/* 32-bit accesses (stmxcsr/ldmxcsr m32): little endian halves of a 64-bit slot */
static inline uint32_t sem_rd32(uint64_t addr)
{
    __CPROVER_assert((addr & 3u) == 0u, "C03-MEM: 32-bit stack access is 4-byte aligned");
#ifndef SEM_NO_EXT
    if (SEM_IN_EXT(0, addr, 4u)) return *(uint32_t *)(sem_ext[0].ptr + (addr - sem_ext[0].lo));
    if (SEM_IN_EXT(1, addr, 4u)) return *(uint32_t *)(sem_ext[1].ptr + (addr - sem_ext[1].lo));
#endif
    __CPROVER_assert(SEM_IN_MEM(addr), "C03-MEM: 32-bit load inside the modelled region");
    __CPROVER_assume(SEM_IN_MEM(addr) && (addr & 3u) == 0u);
    uint64_t w = sem_mem[SEM_IDX(addr)];
    return (addr & 4u) ? (uint32_t)(w >> 32) : (uint32_t)w;
}

static inline void sem_wr32(uint64_t addr, uint32_t v)
{
    __CPROVER_assert((addr & 3u) == 0u, "C03-MEM: 32-bit stack access is 4-byte aligned");
#ifndef SEM_NO_EXT
    if (SEM_IN_EXT(0, addr, 4u)) { *(uint32_t *)(sem_ext[0].ptr + (addr - sem_ext[0].lo)) = v; return; }
    if (SEM_IN_EXT(1, addr, 4u)) { *(uint32_t *)(sem_ext[1].ptr + (addr - sem_ext[1].lo)) = v; return; }
#endif
    __CPROVER_assert(SEM_IN_MEM(addr), "C03-MEM: 32-bit store inside the modelled region");
    __CPROVER_assume(SEM_IN_MEM(addr) && (addr & 3u) == 0u);
    uint64_t w = sem_mem[SEM_IDX(addr)];
    if (addr & 4u)
        w = (w & 0x00000000FFFFFFFFull) | ((uint64_t)v << 32);
    else
        w = (w & 0xFFFFFFFF00000000ull) | (uint64_t)v;
    sem_mem[SEM_IDX(addr)] = w;
}

/* ------------------------------------------------------------ control flow --- */
/* Entry of a translated basic block: control must arrive at its first address. */
static inline void sem_enter(struct x86 *m, uint64_t addr)
{
    __CPROVER_assert(m->rip == addr, "C03-CF: control enters the translated block at its first instruction");
    __CPROVER_assume(m->rip == addr);
}

static inline void sem_havoc_arith_flags(struct x86 *m)
{
    m->rflags = (m->rflags & ~FL_ARITH) | (nondet_u64() & FL_ARITH);
}

/* ------------------------------------------------------------ instructions --- */
static inline void sem_push_r(struct x86 *m, uint64_t next, int src)
{
    uint64_t v = m->r[src];              /* push rsp stores the OLD rsp */
    m->r[R_RSP] -= 8u;
    sem_wr64(m->r[R_RSP], v);
    m->rip = next;
}

static inline void sem_pop_r(struct x86 *m, uint64_t next, int dst)
{
    uint64_t v = sem_rd64(m->r[R_RSP]);
    m->r[R_RSP] += 8u;
    m->r[dst] = v;                       /* pop rsp: loaded value wins */
    m->rip = next;
}

static inline void sem_pushfq(struct x86 *m, uint64_t next)
{
    m->r[R_RSP] -= 8u;
    sem_wr64(m->r[R_RSP], (m->rflags & FL_PUSHF_IMAGE) | 0x2ull);
    m->rip = next;
}

static inline void sem_popfq(struct x86 *m, uint64_t next)
{
    uint64_t v = sem_rd64(m->r[R_RSP]);
    m->r[R_RSP] += 8u;
    m->rflags = (m->rflags & ~FL_POPF_USER) | (v & FL_POPF_USER);
    m->rip = next;
}

static inline void sem_mov_rr(struct x86 *m, uint64_t next, int dst, int src)
{
    m->r[dst] = m->r[src];
    m->rip = next;
}

/* mov r64, QWORD PTR [base+disp] */
static inline void sem_mov_rm(struct x86 *m, uint64_t next, int dst, int base, int64_t disp)
{
    m->r[dst] = sem_rd64(m->r[base] + (uint64_t)disp);
    m->rip = next;
}

/* mov QWORD PTR [base+disp], r64 */
static inline void sem_mov_mr(struct x86 *m, uint64_t next, int base, int64_t disp, int src)
{
    sem_wr64(m->r[base] + (uint64_t)disp, m->r[src]);
    m->rip = next;
}

static inline void sem_add_ri(struct x86 *m, uint64_t next, int dst, int64_t imm)
{
    m->r[dst] += (uint64_t)imm;
    sem_havoc_arith_flags(m);
    m->rip = next;
}

static inline void sem_sub_ri(struct x86 *m, uint64_t next, int dst, int64_t imm)
{
    m->r[dst] -= (uint64_t)imm;
    sem_havoc_arith_flags(m);
    m->rip = next;
}

static inline void sem_xor_rr(struct x86 *m, uint64_t next, int dst, int src)
{
    m->r[dst] ^= m->r[src];
    sem_havoc_arith_flags(m);
    m->rip = next;
}

/* and/or/xor DWORD PTR [base+disp], imm32  ('a' / 'o' / 'x'); arithmetic flags become arbitrary */
static inline void sem_alu_m32i(struct x86 *m, uint64_t next, char op, int base, int64_t disp, int64_t imm)
{
    const uint64_t a = m->r[base] + (uint64_t)disp;
    uint32_t v = sem_rd32(a);
    const uint32_t i = (uint32_t)imm;
    v = (op == 'a') ? (v & i) : (op == 'o') ? (v | i) : (v ^ i);
    sem_wr32(a, v);
    sem_havoc_arith_flags(m);
    m->rip = next;
}
/* and/or r64, imm (sign-extended) */
static inline void sem_alu_ri(struct x86 *m, uint64_t next, char op, int dst, int64_t imm)
{
    m->r[dst] = (op == 'a') ? (m->r[dst] & (uint64_t)imm) : (m->r[dst] | (uint64_t)imm);
    sem_havoc_arith_flags(m);
    m->rip = next;
}
/* mov r64, imm */
static inline void sem_mov_ri(struct x86 *m, uint64_t next, int dst, int64_t imm)
{
    m->r[dst] = (uint64_t)imm;
    m->rip = next;
}

/* stmxcsr DWORD PTR [base+disp] */
static inline void sem_stmxcsr_m(struct x86 *m, uint64_t next, int base, int64_t disp)
{
    sem_wr32(m->r[base] + (uint64_t)disp, m->mxcsr);
    m->rip = next;
}

/* ldmxcsr DWORD PTR [base+disp] */
static inline void sem_ldmxcsr_m(struct x86 *m, uint64_t next, int base, int64_t disp)
{
    uint32_t v = sem_rd32(m->r[base] + (uint64_t)disp);
    __CPROVER_assert((v & MXCSR_RESERVED) == 0u, "C03-SEM: ldmxcsr loads no reserved bits (no #GP)");
    __CPROVER_assume((v & MXCSR_RESERVED) == 0u);
    m->mxcsr = v;
    m->rip = next;
}

/* call r64: pushes the address of the next instruction, continues at r64 */
static inline void sem_call_r(struct x86 *m, uint64_t next, int target)
{
    uint64_t t = m->r[target];
    m->r[R_RSP] -= 8u;
    sem_wr64(m->r[R_RSP], next);
    m->rip = t;
}

static inline void sem_jmp_r(struct x86 *m, uint64_t next, int target)
{
    (void)next;
    m->rip = m->r[target];
}

static inline void sem_ret(struct x86 *m, uint64_t next)
{
    (void)next;
    uint64_t v = sem_rd64(m->r[R_RSP]);
    m->r[R_RSP] += 8u;
    m->rip = v;
}

#endif /* C03_SEM_H */
