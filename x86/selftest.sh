#!/bin/bash
# selftest.sh [repo_path] [scratch_dir]
#
# Mutation self-test of the C03 machinery. The sources are copied to a SCRATCH directory
# (never edited in place), one mutation is applied per copy, run.py is run on the copy, and the
# named obligation must FAIL; the unmodified copy must pass every group.
# Exit status 0 iff every row of the table is as expected.
set -u
HERE="$(cd "$(dirname "$0")" && pwd)"
REPO="${1:-/repo}"
SCRATCH="${2:-$(mktemp -d /tmp/c03-selftest.XXXXXX)}"
JOBS="${JOBS:-4}"
mkdir -p "$SCRATCH"
export HERE REPO SCRATCH JOBS

exec python3 - <<'PYEOF'
import concurrent.futures, json, os, shutil, subprocess, sys, time

HERE, REPO, SCRATCH = os.environ["HERE"], os.environ["REPO"], os.environ["SCRATCH"]
JOBS = int(os.environ["JOBS"])
ASM = "src/port/x86-64/linux/cmi_coroutine_context.asm"
CTX = "src/port/x86-64/linux/cmi_coroutine_context.c"
COR = "src/cmi_coroutine.c"

# id, description, file, old text, new text, --only filter, group that must fail,
# substring of the obligation description that must be FAILURE (None: group status must be `error`)
MUTANTS = [
    ("base", "unmodified sources", None, None, None, None, None, None),
    ("a", "load side: swap `pop r15` and `pop r14`", ASM,
     "    pop r15\n    pop r14\n", "    pop r14\n    pop r15\n",
     "O1", "C03.O1.roundtrip", "r14 restored"),
    ("b", "load side: popfq moved before `add rsp, 8`", ASM,
     "    add rsp, 8\n    ; Restore flags\n    popfq\n", "    popfq\n    add rsp, 8\n",
     "O1", "C03.O1.roundtrip", "arithmetic flags CF PF AF ZF SF OF restored"),
    ("c", "save side only: `stmxcsr [rsp + 4]` -> `[rsp]`", ASM,
     "    stmxcsr [rsp + 4]\n", "    stmxcsr [rsp]\n",
     "O1", "C03.O1.roundtrip", "MXCSR (32 bits) restored"),
    ("d", "context_init: initial frame one slot short (rbx slot dropped)", CTX,
     "    /* Clear RBX */\n    stkptr -= 8u;\n    *(uint64_t *)stkptr = 0x0ull;\n", "    /* Clear RBX */\n",
     "O2", "C03.O2.first_activation_ndebug", "initial frame is 8 register slots plus the return address"),
    ("d2", "same mutation, debug build: the library's own stack_valid assertion fires", CTX,
     "    /* Clear RBX */\n    stkptr -= 8u;\n    *(uint64_t *)stkptr = 0x0ull;\n", "    /* Clear RBX */\n",
     "O2.first_activation", "C03.O2.first_activation", "cmb_assert_debug: (((uintptr_t)cp->stack_pointer + 8u) % 16u) == 0u"),
    ("e", "trampoline: `mov rdi, r13` -> `mov rdi, r14`", ASM,
     "    mov rdi, r13\n", "    mov rdi, r14\n",
     "O2", "C03.O2.first_activation", "first argument rdi == the coroutine's own handle"),
    ("f", "yield transfers to parent instead of caller", COR,
     "    struct cmi_coroutine *to = from->caller;\n", "    struct cmi_coroutine *to = from->parent;\n",
     "O3.yield", "C03.O3.yield", "yield: transfers to the CALLER"),
    ("g", "switch returns rsi instead of rdx (`mov rax, rdx` -> `mov rax, rsi`)", ASM,
     "    mov rax, rdx\n", "    mov rax, rsi\n",
     "O1", "C03.O1.roundtrip", "message delivery"),
    ("h", "save side: `push r12` dropped (frame one slot short)", ASM,
     "    push rbx\n    push r12\n", "    push rbx\n",
     "O1", "C03.O1.roundtrip", "saved stack pointer == a - 64"),
    ("i", "context_init: MXCSR 0x1d00 -> 0x1f80", CTX,
     "    *(uint64_t *)(stkptr + 4) = 0x1d00u;\n", "    *(uint64_t *)(stkptr + 4) = 0x1f80u;\n",
     "O2", "C03.O2.first_activation", "MXCSR == documented initial value"),
    ("j", "trampoline: alignment `push rdi` before the exit jump removed", ASM,
     "    push rdi\n    ; Load the coroutine return value", "    ; Load the coroutine return value",
     "O2", "C03.O2.first_activation", "rsp % 16 == 8 at the exit function's entry"),
    ("k", "transfer: release assertion on to->status removed", COR,
     "    cmb_assert_release(to->status == CMI_COROUTINE_RUNNING);\n    cmb_assert_debug(cmi_coroutine_stack_valid(to));\n\n    struct cmi_coroutine *from",
     "    cmb_assert_debug(cmi_coroutine_stack_valid(to));\n\n    struct cmi_coroutine *from",
     "O3.transfer_requires", "C03.O3.transfer_requires", "only ever entered with a RUNNING target"),
    ("l", "exit transfers to caller instead of parent", COR,
     "    cmi_coroutine_transfer(cp->parent, retval);\n", "    cmi_coroutine_transfer(cp->caller, retval);\n",
     "O3.exit", "C03.O3.exit", "exit: transfers to the PARENT"),
    ("m", "start forgets to set the parent", COR,
     "    cp->parent = coroutine_current;\n", "",
     "O3.start", "C03.O3.start", "start: parent == the starting coroutine"),
    ("m2", "start forgets to set the caller (EQUIVALENT: transfer sets it anyway)", COR,
     "    cp->caller = coroutine_current;\n\n    cp->exit_value = NULL;", "    cp->exit_value = NULL;",
     "O3.start", "C03.O3.start", "-"),
    ("n", "unknown instruction in the switch (`lea rax, [rdx]`)", ASM,
     "    mov rax, rdx\n", "    lea rax, [rdx]\n",
     "O1", "C03.O1.roundtrip", None),
]
# note on (m2): transfer() itself overwrites cp->caller, so dropping the assignment in start() is an
# EQUIVALENT mutant; the row documents that (expected: no failure).
EQUIVALENT = {"m2"}


def prepare(mid, relfile, old, new):
    root = os.path.join(SCRATCH, "tree-" + mid)
    shutil.rmtree(root, ignore_errors=True)
    os.makedirs(root)
    shutil.copytree(os.path.join(REPO, "src"), os.path.join(root, "src"))
    shutil.copytree(os.path.join(REPO, "include"), os.path.join(root, "include"))
    if relfile:
        p = os.path.join(root, relfile)
        s = open(p).read()
        if s.count(old) != 1:
            raise RuntimeError("mutant %s: pattern occurs %d times in %s" % (mid, s.count(old), relfile))
        open(p, "w").write(s.replace(old, new))
    return root


def one(m):
    mid, text, relfile, old, new, only, group, want = m
    t0 = time.time()
    try:
        root = prepare(mid, relfile, old, new)
    except Exception as e:
        return (mid, text, group or "all", str(want), "MUTATION NOT APPLIED: %s" % e, False, 0.0)
    out = os.path.join(SCRATCH, "out-" + mid)
    cmd = [sys.executable, os.path.join(HERE, "run.py"), root, out, "--no-trace", "--jobs", "4" if mid == "base" else "2"]
    if only:
        cmd += ["--only", only]
    p = subprocess.run(cmd, stdout=subprocess.PIPE, stderr=subprocess.PIPE, text=True)
    secs = time.time() - t0
    try:
        doc = json.loads(p.stdout)
    except ValueError:
        return (mid, text, group or "all", str(want), "run.py rc=%d, no JSON" % p.returncode, False, secs)
    open(os.path.join(SCRATCH, "result-%s.json" % mid), "w").write(p.stdout)
    if mid == "base":
        bad = [g["id"] + ":" + g["status"] for g in doc["groups"] if g["status"] != "ok"]
        return (mid, text, "all %d groups" % len(doc["groups"]), "every group ok", "all ok" if not bad else ", ".join(bad), not bad, secs)
    g = [x for x in doc["groups"] if x["id"] == group]
    if not g:
        return (mid, text, group, str(want), "group missing", False, secs)
    g = g[0]
    failed = [o["desc"] for o in g["obligations"] if o["status"] == "FAILURE" and not o["desc"].startswith("CANARY")]
    if mid in EQUIVALENT:
        ok = g["status"] == "ok"
        return (mid, text, group, "(equivalent mutant: group stays ok)", g["status"], ok, secs)
    if want is None:
        ok = g["status"] == "error" and "extraction break" in g["reason"]
        return (mid, text, group, "status error / extraction break", "%s: %s" % (g["status"], g["reason"][:70]), ok, secs)
    hit = [d for d in failed if want in d]
    obs = "%s; %d obligation(s) FAILURE" % (g["status"], len(failed))
    if hit:
        obs += "; incl. the named one"
    return (mid, text, group, want, obs, g["status"] == "failed" and bool(hit), secs)


with concurrent.futures.ThreadPoolExecutor(max_workers=JOBS) as ex:
    rows = list(ex.map(one, MUTANTS))

w = [4, 62, 26, 62, 52, 7, 7]
hdr = ("id", "mutation", "group", "obligation expected to FAIL", "observed", "verdict", "sec")
line = "+".join("-" * (x + 2) for x in w)
fmt = "|".join(" %-" + str(x) + "s " for x in w)
print(line); print(fmt % hdr); print(line)
allok = True
for r in rows:
    allok = allok and r[5]
    print(fmt % (r[0], r[1][:w[1]], r[2][:w[2]], r[3][:w[3]], r[4][:w[4]], "PASS" if r[5] else "**BAD**", "%.0f" % r[6]))
print(line)
print("selftest: %s   (scratch: %s)" % ("ALL ROWS AS EXPECTED" if allok else "UNEXPECTED ROWS", SCRATCH))
sys.exit(0 if allok else 1)
PYEOF
