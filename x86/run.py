#!/usr/bin/env python3
"""
run.py <repo_path> <outdir> [--jobs N] [--only SUBSTR] [--no-trace]

Property C03 ("context switches preserve each process's execution state and deliver
messages") for the x86-64/linux port of cimba:

  1. asm2c.py: nasm -> objdump -> one sem.h call per instruction   (<outdir>/asm_gen.c)
  2. goto-cc the harnesses against the working-tree sources of <repo_path>
  3. cbmc --json-ui --trace, every call under `timeout`
  4. one JSON document on stdout:
       {"groups":[{"id","status":"ok|failed|error|undecided","reason","seconds","cmds":[..],
                   "obligations":[{"name","desc","status","file","line","func"}],
                   "traces":{name:[[lhs,value,function,line],..]}}]}

Group status:
  ok         every non-canary obligation SUCCESS and the CANARY obligation FAILURE
  failed     some non-canary obligation FAILURE, or the canary did not fail (vacuous harness)
  undecided  solver timeout
  error      extraction break, compile error, unparsable solver output

Exit status 0 unless the script itself crashed (2).
"""
import concurrent.futures
import json
import os
import shlex
import subprocess
import sys
import time
import traceback

HERE = os.path.dirname(os.path.abspath(__file__))

CBMC_COMMON = ["--bounds-check", "--pointer-check", "--no-malloc-may-fail",
               "--drop-unused-functions", "--unwinding-assertions"]

# id, harness source, extra -D, entry function, unwind, needs_asm, timeout (s)
GROUPS = [
    ("C03.O1.roundtrip", "harness_switch.c", ["-DH_O1", "-DSEM_NO_EXT", "-DSEM_NSLOTS=32"], "harness_o1", 2, True, 900),
    ("C03.O2.first_activation", "harness_switch.c", ["-DH_O2", "-DSEM_NSLOTS=32"], "harness_o2", 17, True, 900),
    ("C03.O2.first_activation_ndebug", "harness_switch.c", ["-DH_O2", "-DO2_NDEBUG", "-DSEM_NSLOTS=32"], "harness_o2", 17, True, 900),
    ("C03.O3.transfer", "harness_book.c", [], "harness_o3_transfer", 2, False, 300),
    ("C03.O3.transfer_requires", "harness_book.c", ["-DO3_ABORT_MODE"], "harness_o3_transfer_requires", 2, False, 300),
    ("C03.O3.yield", "harness_book.c", [], "harness_o3_yield", 2, False, 300),
    ("C03.O3.resume", "harness_book.c", [], "harness_o3_resume", 2, False, 300),
    ("C03.O3.start", "harness_book.c", [], "harness_o3_start", 2, False, 300),
    ("C03.O3.exit", "harness_book.c", [], "harness_o3_exit", 2, False, 300),
    ("C03.O3.stop_other", "harness_book.c", [], "harness_o3_stop_other", 2, False, 300),
    ("C03.O3.stop_self", "harness_book.c", [], "harness_o3_stop_self", 2, False, 300),
]

MAX_TRACE_STEPS = 400


def sh(cmd):
    return " ".join(shlex.quote(c) for c in cmd)


def run_cmd(cmd, timeout=None):
    """-> (returncode or None on timeout, stdout, stderr, seconds)"""
    t0 = time.time()
    try:
        p = subprocess.run(cmd, stdout=subprocess.PIPE, stderr=subprocess.PIPE, text=True, timeout=timeout)
        return p.returncode, p.stdout, p.stderr, time.time() - t0
    except subprocess.TimeoutExpired as e:
        out = e.stdout.decode() if isinstance(e.stdout, bytes) else (e.stdout or "")
        err = e.stderr.decode() if isinstance(e.stderr, bytes) else (e.stderr or "")
        return None, out, err, time.time() - t0


def value_text(v):
    if not isinstance(v, dict):
        return str(v)
    if "data" in v:
        return str(v["data"])
    s = json.dumps(v, separators=(",", ":"))
    return s if len(s) <= 120 else s[:117] + "..."


def trace_rows(trace):
    rows = []
    for st in trace:
        if st.get("stepType") != "assignment" or st.get("hidden"):
            continue
        loc = st.get("sourceLocation") or {}
        if not loc.get("file") or loc.get("file", "").startswith("<"):
            continue
        rows.append([st.get("lhs", ""), value_text(st.get("value")), loc.get("function", ""),
                     int(loc["line"]) if str(loc.get("line", "")).isdigit() else 0])
    if len(rows) > MAX_TRACE_STEPS:
        rows = rows[:MAX_TRACE_STEPS // 2] + [["...", "%d steps omitted" % (len(rows) - MAX_TRACE_STEPS), "", 0]] \
            + rows[-MAX_TRACE_STEPS // 2:]
    return rows


def parse_cbmc_json(text):
    """-> (results list or None, error message list)"""
    try:
        doc = json.loads(text)
    except ValueError:
        return None, ["unparsable cbmc output"]
    results, errors = None, []
    for item in doc:
        if not isinstance(item, dict):
            continue
        if "result" in item:
            results = item["result"]
        if item.get("messageType") == "ERROR":
            errors.append(item.get("messageText", ""))
    return results, errors


def run_group(spec, repo, outdir, asm_state, want_trace):
    gid, src, defs, entry, unwind, needs_asm, tmo = spec
    g = {"id": gid, "status": "error", "reason": "", "seconds": 0.0, "cmds": [], "obligations": [], "traces": {}}
    t0 = time.time()
    try:
        if needs_asm:
            g["cmds"].append(asm_state["cmd"])
            if asm_state["rc"] != 0:
                g["reason"] = asm_state["reason"]
                return g
        gb = os.path.join(outdir, gid + ".gb")
        cc = ["goto-cc"] + defs + ["-I" + HERE, "-I" + outdir, "-I" + repo, "-I" + os.path.join(repo, "include"),
                                   "-I" + os.path.join(repo, "src"), os.path.join(HERE, src), "-o", gb]
        g["cmds"].append(sh(cc))
        rc, out, err, _ = run_cmd(cc, timeout=300)
        if rc != 0:
            g["reason"] = "goto-cc failed: " + (err or out).strip()[-600:]
            return g
        cb = ["timeout", str(tmo), "cbmc", gb, "--function", entry, "--unwind", str(unwind)] + CBMC_COMMON + ["--json-ui"]
        if want_trace:
            cb.append("--trace")
        g["cmds"].append(sh(cb))
        rc, out, err, _ = run_cmd(cb, timeout=tmo + 30)
        with open(os.path.join(outdir, gid + ".cbmc.json"), "w") as f:
            f.write(out)
        if rc is None or rc == 124:
            g["status"] = "undecided"
            g["reason"] = "solver timeout after %d s" % tmo
            return g
        results, errors = parse_cbmc_json(out)
        if results is None:
            g["reason"] = "cbmc rc=%s: %s" % (rc, "; ".join(errors)[-600:] or err.strip()[-600:])
            return g
        canary_failed = False
        canary_seen = False
        bad = []
        for r in results:
            loc = r.get("sourceLocation") or {}
            desc = r.get("description", "")
            ob = {"name": r.get("property", ""), "desc": desc, "status": r.get("status", ""),
                  "file": loc.get("file", ""), "line": int(loc["line"]) if str(loc.get("line", "")).isdigit() else 0,
                  "func": loc.get("function", "")}
            g["obligations"].append(ob)
            if desc.startswith("CANARY"):
                canary_seen = True
                canary_failed = canary_failed or ob["status"] == "FAILURE"
            elif ob["status"] != "SUCCESS":
                bad.append(ob)
            if ob["status"] == "FAILURE" and "trace" in r:
                g["traces"][ob["name"]] = trace_rows(r["trace"])
        if bad:
            g["status"] = "failed"
            g["reason"] = "; ".join("%s [%s:%d]" % (b["desc"], os.path.basename(b["file"]), b["line"]) for b in bad[:6])
            if len(bad) > 6:
                g["reason"] += "; ... %d more" % (len(bad) - 6)
        elif not canary_seen or not canary_failed:
            g["status"] = "failed"
            g["reason"] = "vacuous harness: the CANARY obligation did not fail"
        else:
            g["status"] = "ok"
        return g
    except Exception:                                      # keep the other groups alive
        g["status"] = "error"
        g["reason"] = "run.py internal: " + traceback.format_exc()[-600:]
        return g
    finally:
        g["seconds"] = round(time.time() - t0, 2)


def main(argv):
    args = [a for a in argv[1:]]
    jobs = min(8, os.cpu_count() or 1)
    only = None
    want_trace = True
    pos = []
    i = 0
    while i < len(args):
        if args[i] == "--jobs":
            jobs = int(args[i + 1]); i += 2
        elif args[i] == "--only":
            only = args[i + 1]; i += 2
        elif args[i] == "--no-trace":
            want_trace = False; i += 1
        else:
            pos.append(args[i]); i += 1
    if len(pos) != 2:
        sys.stderr.write(__doc__)
        return 2
    repo, outdir = os.path.abspath(pos[0]), os.path.abspath(pos[1])
    os.makedirs(outdir, exist_ok=True)

    groups = [g for g in GROUPS if only is None or only in g[0]]

    asm_state = {"cmd": "", "rc": 0, "reason": ""}
    if any(g[5] for g in groups):
        cmd = [sys.executable, os.path.join(HERE, "asm2c.py"), repo, outdir]
        asm_state["cmd"] = sh(cmd)
        rc, out, err, _ = run_cmd(cmd, timeout=120)
        asm_state["rc"] = 1 if rc is None else rc
        if rc == 2:
            asm_state["reason"] = (out.strip().splitlines() or ["extraction break"])[-1]
        elif rc != 0:
            asm_state["reason"] = "asm2c failed (rc=%s): %s" % (rc, err.strip()[-400:])

    with concurrent.futures.ThreadPoolExecutor(max_workers=max(1, jobs)) as ex:
        futs = [ex.submit(run_group, g, repo, outdir, asm_state, want_trace) for g in groups]
        res = [f.result() for f in futs]
    json.dump({"groups": res}, sys.stdout, indent=1)
    sys.stdout.write("\n")
    return 0


if __name__ == "__main__":
    try:
        sys.exit(main(sys.argv))
    except SystemExit:
        raise
    except Exception:
        traceback.print_exc()
        sys.exit(2)
