"""Regenerate MANIFEST.json from the group registry + lib/propmeta.py."""
import json, os, sys
import cvlib
from cvlib import VERIF


def build(groups):
    import propmeta
    props = [json.loads(l) for l in open(os.path.join(VERIF, 'properties.jsonl'))]
    checks, na = [], []
    for p in props:
        pid = p['id']
        gs = [g for g in groups if g.prop == pid or pid in g.also]
        meta = propmeta.META.get(pid, {})
        if not gs or meta.get('not_applicable') or pid not in propmeta.META:
            na.append(dict(property_id=pid, reason=meta.get('not_applicable') or 'no check built yet for this property (work in progress, see DESIGN.md section 4)'))
            continue
        quick = [g for g in gs if g.tier == 'quick']
        proved_all = all(g.level == 'proved' for g in gs)
        known, _ = cvlib.load_known()
        has_known = any(k['prop'] == pid for k in known)
        cat = 'proof' if (proved_all and not has_known) else 'other'
        checks.append(dict(
            property_id=pid,
            quick_cmd='./cv check %s --tier quick' % pid,
            thorough_cmd='./cv check %s --tier thorough' % pid,
            evidence_file='/verif/evidence/%s.json' % pid,
            replay_cmd_template='./cv replay {path}',
            engine='cv',
            level_claimed=dict(category=cat, text=meta.get('text', ''), design_ref='DESIGN.md section 4, ' + pid),
            level_note=meta.get('note', ''),
            technique=meta.get('technique', 'contract-based deductive verification: CBMC code contracts / harness obligations on the real source')))
    m = dict(version=1,
             setup_cmd='true',
             hooks=dict(guard='CIMBA_VERIF',
                        enable='harness translation units are compiled by goto-cc with -DCIMBA_VERIF and #include the working-tree source files; the native replay library is built with gcc/nasm without the guard',
                        baseline_off_cmd='cd /repo && (test -d _build || meson setup _build) && meson compile -C _build && meson test -C _build',
                        source_commits=propmeta.HOOK_COMMITS, add_only=True),
             engines=[dict(name='cv', path='/verif/cv', serves_properties=[c['property_id'] for c in checks],
                           kind_free_text='driver: goto-cc + goto-instrument (DFCC contracts, loop contracts) + cbmc 6.11 (MiniSat/z3/cvc5 per group); sympy over GIMPLE for real-arithmetic obligations; x86 objdump-to-C for the context switch')],
             checks=checks,
             notes=propmeta.NOTES,
             not_applicable=na)
    return m


def main(groups):
    m = build(groups)
    with open(os.path.join(VERIF, 'MANIFEST.json'), 'w') as f:
        json.dump(m, f, indent=1)
    try:
        import jsonschema
        jsonschema.validate(m, json.load(open('/root/.vp/MANIFEST.schema.json')))
        print('MANIFEST.json valid: %d checks, %d not_applicable' % (len(m['checks']), len(m['not_applicable'])))
    except ImportError:
        print('MANIFEST.json written (jsonschema not available to validate)')
    return 0
