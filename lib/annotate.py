"""
annotate - mechanical insertion of loop-contract macros into a scratch copy of a repository
source file, on every run.

CBMC accepts function contracts on a redeclaration (so those live in /verif and never touch
the repository text), but loop contracts must sit between the loop header and the loop body.
Instead of editing /repo, the runner copies the working-tree file to the scratch directory and
inserts, for each requested (function, loop ordinal), the token ` <MACRO> ` directly after the
closing parenthesis of the n-th `while (...)` / `for (...)` header of that function (for
`do ... while`, after the `do`).  Nothing else is changed: no line is added or removed (line
numbers are preserved), no token is deleted.  The macro is defined by the harness and expands
to __CPROVER_assigns / __CPROVER_loop_invariant / __CPROVER_decreases clauses.

Must-fire rule: every requested annotation must be placed exactly once; an unknown function or
a missing n-th loop raises AnnotateError, which the driver reports as exit 2 ("extraction
break"), never as a pass or a violation.
"""
import re


class AnnotateError(Exception):
    pass


def _strip_comments_keep_layout(s):
    """Replace comments and string/char literals by spaces of equal length (layout preserved)."""
    out = list(s)
    i, n = 0, len(s)
    while i < n:
        c = s[i]
        if s.startswith('/*', i):
            j = s.find('*/', i + 2)
            j = n if j < 0 else j + 2
            for k in range(i, j):
                if out[k] != '\n':
                    out[k] = ' '
            i = j
        elif s.startswith('//', i):
            j = s.find('\n', i)
            j = n if j < 0 else j
            for k in range(i, j):
                out[k] = ' '
            i = j
        elif c == '"' or c == "'":
            j = i + 1
            while j < n and s[j] != c:
                j += 2 if s[j] == '\\' else 1
            for k in range(i + 1, min(j, n)):
                if out[k] != '\n':
                    out[k] = ' '
            i = j + 1
        else:
            i += 1
    return ''.join(out)


def _match_paren(t, i):
    """t[i] == '(' -> index of the matching ')'"""
    d = 0
    for j in range(i, len(t)):
        if t[j] == '(':
            d += 1
        elif t[j] == ')':
            d -= 1
            if d == 0:
                return j
    raise AnnotateError('unbalanced parenthesis')


def function_spans(t):
    """Yield (name, body_start, body_end) for every function definition at brace depth 0."""
    spans = []
    depth = 0
    i, n = 0, len(t)
    last_close_paren_name = None
    while i < n:
        c = t[i]
        if c == '{':
            if depth == 0:
                # find the function name: identifier before the '(' that matches the last ')' before '{'
                j = i - 1
                while j >= 0 and t[j].isspace():
                    j -= 1
                name = None
                # skip trailing contract-like / attribute tokens is not needed for the repo sources
                if j >= 0 and t[j] == ')':
                    # walk back to the matching '('
                    d = 0
                    k = j
                    while k >= 0:
                        if t[k] == ')':
                            d += 1
                        elif t[k] == '(':
                            d -= 1
                            if d == 0:
                                break
                        k -= 1
                    m = re.search(r'([A-Za-z_]\w*)\s*$', t[:k])
                    if m:
                        name = m.group(1)
                start = i
                # find the end
                d2 = 0
                e = i
                while e < n:
                    if t[e] == '{':
                        d2 += 1
                    elif t[e] == '}':
                        d2 -= 1
                        if d2 == 0:
                            break
                    e += 1
                if name and name not in ('if', 'while', 'for', 'switch'):
                    spans.append((name, start, e))
                i = e + 1
                continue
            depth += 1
        elif c == '}':
            depth -= 1
        i += 1
    return spans


def loops_in(t, start, end):
    """Insertion offsets for each loop (textual order) in t[start:end]."""
    offs = []
    for m in re.finditer(r'\b(while|for|do)\b', t[start:end]):
        kw = m.group(1)
        pos = start + m.end()
        if kw == 'do':
            # CBMC 6.11 parses the clauses of a do-while loop directly after `do`
            offs.append(('do', pos))
            continue
        k = pos
        while k < end and t[k].isspace():
            k += 1
        if k >= end or t[k] != '(':
            continue
        close = _match_paren(t, k)
        # `while (...) ;` terminating a do-loop is not a loop header
        a = close + 1
        while a < end and t[a].isspace():
            a += 1
        if kw == 'while' and a < end and t[a] == ';':
            # could be an empty-bodied while loop or the tail of do-while; look back for '}'
            b = start + m.start() - 1
            while b > start and t[b].isspace():
                b -= 1
            if t[b] == '}':
                continue
        offs.append((kw, close + 1))
    return offs


def annotate(src_text, wanted):
    """wanted: {(function, ordinal starting at 1): 'MACRO'} -> annotated text"""
    t = _strip_comments_keep_layout(src_text)
    spans = {name: (s, e) for name, s, e in function_spans(t)}
    inserts = []
    for key, macro in wanted.items():
        if len(key) == 3:
            # (function, 'before', text): ghost statement placed before the first occurrence of
            # `text` in the function body (used only to export the addresses of function-local
            # statics to the harness; the inserted macro must expand to complete statements)
            fn, mode, text = key
            if fn not in spans:
                raise AnnotateError('function %s not found for ghost insertion' % fn)
            s0, e0 = spans[fn]
            k = t.find(text, s0, e0)
            if mode != 'before' or k < 0 or t.find(text, k + 1, e0) >= 0:
                raise AnnotateError('ghost insertion point %r not found exactly once in %s' % (text, fn))
            inserts.append((k, ' ' + macro + ' '))
            continue
        fn, n = key
        if fn not in spans:
            raise AnnotateError('function %s not found for loop annotation' % fn)
        s, e = spans[fn]
        ls = loops_in(t, s, e)
        if n < 1 or n > len(ls):
            raise AnnotateError('function %s has %d loops, annotation wants loop %d' % (fn, len(ls), n))
        inserts.append((ls[n - 1][1], ' ' + macro + ' '))
    out = src_text
    for off, text in sorted(inserts, reverse=True):
        out = out[:off] + text + out[off:]
    return out


def extract_function(src_text, fn):
    """Full text of the definition of function fn (from the start of its declaration line to the
    closing brace), taken verbatim from the source.  Used where a harness stubs the rest of a
    file but needs one real function of it."""
    t = _strip_comments_keep_layout(src_text)
    spans = {name: (s0, e0) for name, s0, e0 in function_spans(t)}
    if fn not in spans:
        raise AnnotateError('function %s not found for extraction' % fn)
    s0, e0 = spans[fn]
    # walk back to the start of the declaration: after the previous ';' or '}' or preprocessor line
    k = s0
    while k > 0 and t[k - 1] not in ';}':
        k -= 1
    # skip leading blank space and any preprocessor lines
    head = src_text[k:e0 + 1]
    lines = head.split('\n')
    while lines and (not lines[0].strip() or lines[0].lstrip().startswith('#')):
        lines.pop(0)
    return '\n'.join(lines) + '\n'


def count_loops(src_text, fn):
    t = _strip_comments_keep_layout(src_text)
    spans = {name: (s, e) for name, s, e in function_spans(t)}
    if fn not in spans:
        raise AnnotateError('function %s not found' % fn)
    return len(loops_in(t, *spans[fn]))


if __name__ == '__main__':
    import sys
    txt = open(sys.argv[1]).read()
    t = _strip_comments_keep_layout(txt)
    for name, s, e in function_spans(t):
        print(name, len(loops_in(t, s, e)))
