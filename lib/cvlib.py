"""
cvlib - the obligation-group runner behind /verif/cv.

One *group* = one harness entry point + one goto-cc / goto-instrument / cbmc invocation (or a
python callable for the non-CBMC back ends).  Every CBMC property reported for reachable code
is an *obligation*; a group is discharged when every obligation that is not a reachability
canary is SUCCESS and every canary FAILS.
"""
import json, os, re, shutil, subprocess, sys, tempfile, time, hashlib, atexit, signal
from concurrent.futures import ThreadPoolExecutor

VERIF = os.path.dirname(os.path.dirname(os.path.abspath(__file__)))
REPO = os.environ.get('CIMBA_REPO', '/repo')
GUARD = 'CIMBA_VERIF'
NCPU = int(os.environ.get('VERIF_JOBS', os.cpu_count() or 4))

CHECK_FLAGS = ['--bounds-check', '--pointer-check', '--pointer-primitive-check',
               '--signed-overflow-check', '--conversion-check', '--div-by-zero-check',
               '--pointer-overflow-check', '--undefined-shift-check']
# float-overflow / nan checks are not enabled globally: the library produces infinities and
# NaNs deliberately in places; the statistics groups ask for them explicitly.

_scratch = None
import threading
_lock = threading.Lock()


def scratch():
    global _scratch
    if _scratch is None:
        base = '/var/tmp'
        _scratch = tempfile.mkdtemp(prefix='cimba-cv-', dir=base)
        if not os.environ.get('CV_KEEP'):
            atexit.register(lambda: shutil.rmtree(_scratch, ignore_errors=True))
    return _scratch


class Group:
    def __init__(self, id, prop, harness=None, entry=None, defines=(), level='proved', bound='',
                 backend='sat', unwind=None, unwindset=None, enforce=None, replace=(),
                 loop_contracts=False, replace_calls=(), timeout=300, tier='quick',
                 named=None, canaries=1, functions=(), stubs=(), assumes=(), replay=None,
                 extra_cbmc=(), extra_instrument=(), nondet_static=False, runner=None,
                 also=(), text='', ndebug=False, mem_gb=12, object_bits=None,
                 no_standard_checks=False, includes=(), annotate=None, partial_unwind=False, extract=None):
        self.id = id; self.prop = prop; self.harness = harness; self.entry = entry
        self.defines = list(defines); self.level = level; self.bound = bound
        self.backend = backend; self.unwind = unwind; self.unwindset = unwindset
        self.enforce = enforce; self.replace = list(replace); self.loop_contracts = loop_contracts
        self.replace_calls = list(replace_calls); self.timeout = timeout; self.tier = tier
        self.named = named; self.canaries = canaries; self.functions = list(functions)
        self.stubs = list(stubs); self.assumes = list(assumes); self.replay = replay
        self.extra_cbmc = list(extra_cbmc); self.extra_instrument = list(extra_instrument)
        self.runner = runner; self.also = list(also); self.text = text; self.ndebug = ndebug
        self.mem_gb = mem_gb; self.object_bits = object_bits
        self.no_standard_checks = no_standard_checks; self.includes = list(includes)
        self.annotate = annotate or {}
        self.partial_unwind = partial_unwind
        self.extract = extract or {}


class Result:
    def __init__(self, group):
        self.group = group
        self.status = 'error'       # ok | failed | undecided | error
        self.reason = ''
        self.obligations = []       # dicts: name, desc, status, file, line, func, kind
        self.failed = []            # obligations (non-canary) that FAILED
        self.canaries_fired = 0
        self.canaries_total = 0
        self.seconds = 0.0
        self.solver_seconds = 0.0
        self.cmds = []
        self.log = ''
        self.traces = {}            # obligation name -> list of (lhs, value, function)


def _run(cmd, timeout, mem_gb=12, cwd=None, stdout=None):
    pre = 'ulimit -v %d; ' % (mem_gb * 1024 * 1024)
    t0 = time.time()
    try:
        p = subprocess.run(['bash', '-c', pre + 'exec "$@"', 'x'] + cmd, cwd=cwd,
                           stdout=stdout if stdout else subprocess.PIPE,
                           stderr=subprocess.PIPE if stdout else subprocess.STDOUT,
                           timeout=timeout)
        out = p.stdout if not stdout else p.stderr
        return p.returncode, (out or b'').decode('utf-8', 'replace'), time.time() - t0
    except subprocess.TimeoutExpired as e:
        return 'timeout', '', time.time() - t0


def _portfolio(cmd, outjson, timeout, mem_gb, res):
    pre = 'ulimit -v %d; ' % (mem_gb * 1024 * 1024)
    variants = [('minisat', cmd), ('cadical', cmd + ['--sat-solver', 'cadical'])]
    procs = []
    t0 = time.time()
    for name, c in variants:
        res.cmds.append('[portfolio:%s] ' % name + ' '.join(c))
        f = open(outjson + '.' + name, 'wb')
        procs.append((name, subprocess.Popen(['bash', '-c', pre + 'exec "$@"', 'x'] + c, stdout=f, stderr=subprocess.DEVNULL), f))
    winner = None
    while time.time() - t0 < timeout and winner is None:
        for name, p, f in procs:
            if p.poll() is not None and p.returncode in (0, 10):
                winner = (name, p.returncode)
                break
        if winner is None:
            if all(p.poll() is not None for _, p, _ in procs):
                break
            time.sleep(0.5)
    for name, p, f in procs:
        if p.poll() is None:
            p.kill()
        p.wait()
        f.close()
    dt = time.time() - t0
    if winner is None:
        if time.time() - t0 >= timeout:
            return 'timeout', '', dt
        # both ended abnormally: take the first output for the error message
        shutil.copy(outjson + '.' + procs[0][0], outjson)
        return procs[0][1].returncode, 'both portfolio members failed', dt
    shutil.copy(outjson + '.' + winner[0], outjson)
    res.cmds.append('[portfolio] answered by %s in %.0f s' % (winner[0], dt))
    return winner[1], '', dt


def classify(desc, name, file):
    if desc.startswith('CANARY'):
        return 'canary'
    if re.match(r'C\d\d', desc):
        return 'named'
    if desc.startswith('cmb_assert_release'):
        return 'release-assert'
    if desc.startswith('cmb_assert_debug'):
        return 'debug-assert'
    if 'requires clause' in desc or '.precondition' in name:
        return 'precondition'
    if 'ensures clause' in desc or '.postcondition' in name:
        return 'postcondition'
    if 'loop invariant' in desc or 'loop_invariant' in name:
        return 'loop-invariant'
    if 'decreases' in desc or 'loop_decreases' in name:
        return 'loop-decreases'
    if 'assignable' in desc or '.assigns' in name:
        return 'frame'
    if 'unwinding assertion' in desc or '.unwind' in name:
        return 'unwinding'
    return 'safety'


def codegen_dir():
    """Regenerate the ziggurat tables from /repo/codegen on every run."""
    with _lock:
        return _codegen_dir_locked()


def _codegen_dir_locked():
    d = os.path.join(scratch(), 'codegen')
    if os.path.isdir(d):
        return d
    os.makedirs(d)
    for nm in ('exponential', 'normal'):
        exe = os.path.join(d, 'calc_' + nm)
        r = subprocess.run(['gcc', '-O1', '-o', exe, os.path.join(REPO, 'codegen', 'calc_%s.c' % nm),
                            os.path.join(REPO, 'codegen', 'calc_utils.c'), '-lm'],
                           capture_output=True)
        if r.returncode != 0:
            raise RuntimeError('codegen build failed: ' + r.stderr.decode()[:500])
        short = {'exponential': 'exp', 'normal': 'nor'}[nm]
        with open(os.path.join(d, 'cmi_random_%s_zig.inc' % short), 'wb') as f:
            subprocess.run([exe], stdout=f, check=True)
    return d


def run_cbmc_group(g, keep=False):
    res = Result(g)
    t0 = time.time()
    wd = os.path.join(scratch(), re.sub(r'[^A-Za-z0-9_.-]', '_', g.id))
    os.makedirs(wd, exist_ok=True)
    gb0 = os.path.join(wd, 'a.gb')
    harness = os.path.join(VERIF, 'harness', g.harness)
    inc = []
    if g.annotate:
        import annotate as ann
        for rel, wanted in g.annotate.items():
            try:
                txt = ann.annotate(open(os.path.join(REPO, rel)).read(), wanted)
            except (ann.AnnotateError, OSError) as e:
                res.status = 'error'; res.reason = 'extraction break (loop annotation of %s): %s' % (rel, e)
                res.seconds = time.time() - t0
                return res
            dst = os.path.join(wd, 'annot', rel)
            os.makedirs(os.path.dirname(dst), exist_ok=True)
            open(dst, 'w').write(txt)
        inc.append('-I' + os.path.join(wd, 'annot'))
    if g.extract:
        import annotate as ann
        for rel, fns in g.extract.items():
            try:
                src = open(os.path.join(REPO, rel)).read()
                for fn in fns:
                    dst = os.path.join(wd, 'annot', 'extract', fn + '.inc')
                    os.makedirs(os.path.dirname(dst), exist_ok=True)
                    open(dst, 'w').write('/* extracted verbatim from %s on this run */\n' % rel + ann.extract_function(src, fn))
            except (ann.AnnotateError, OSError) as e:
                res.status = 'error'; res.reason = 'extraction break (function extraction from %s): %s' % (rel, e)
                res.seconds = time.time() - t0
                return res
        if '-I' + os.path.join(wd, 'annot') not in inc:
            inc.append('-I' + os.path.join(wd, 'annot'))
    inc += ['-I' + os.path.join(VERIF, 'harness'), '-I' + os.path.join(VERIF, 'contracts'),
           '-I' + REPO, '-I' + os.path.join(REPO, 'include'), '-I' + os.path.join(REPO, 'src'), '-I' + os.path.join(REPO, 'codegen')]
    if any('random' in x for x in [g.harness] + g.defines + g.includes) or 'codegen' in g.includes:
        inc.append('-I' + codegen_dir())
    cmd = ['goto-cc'] + inc + ['-D' + GUARD, '-D_POSIX_C_SOURCE=200809L'] + \
          ['-D' + d for d in g.defines] + (['-DNDEBUG'] if g.ndebug else []) + \
          ['--function', g.entry, harness, '-o', gb0]
    res.cmds.append(' '.join(cmd))
    rc, out, dt = _run(cmd, 120)
    res.log += out
    if rc != 0:
        res.status = 'error'; res.reason = 'goto-cc failed (extraction break): ' + out[-1500:]
        res.seconds = time.time() - t0
        return res
    cur = gb0
    # optional: replace calls (hash abstraction etc.)
    # optional: redirect calls (hash abstraction, call-site precondition interposers); one
    # goto-instrument invocation per pair, in order, so that later pairs see earlier results
    for k, (a, b) in enumerate(g.replace_calls):
        nxt = os.path.join(wd, 'b%d.gb' % k)
        cmd = ['goto-instrument', '--replace-calls', a + ':' + b, cur, nxt]
        res.cmds.append(' '.join(cmd))
        rc, out, dt = _run(cmd, 300)
        res.log += out
        if rc != 0:
            res.status = 'error'; res.reason = 'goto-instrument --replace-calls failed (extraction break): ' + out[-1500:]
            res.seconds = time.time() - t0
            return res
        cur = nxt
    if g.enforce or g.replace or g.loop_contracts:
        nxt = os.path.join(wd, 'c.gb')
        cmd = ['goto-instrument', '--dfcc', g.entry]
        if g.enforce:
            cmd += ['--enforce-contract', g.enforce]
        for r in g.replace:
            cmd += ['--replace-call-with-contract', r]
        if g.loop_contracts:
            cmd += ['--apply-loop-contracts']
        cmd += g.extra_instrument + [cur, nxt]
        res.cmds.append(' '.join(cmd))
        rc, out, dt = _run(cmd, 600)
        res.log += out
        if rc != 0:
            res.status = 'error'; res.reason = 'goto-instrument --dfcc failed: ' + out[-2500:]
            res.seconds = time.time() - t0
            return res
        cur = nxt
    outjson = os.path.join(wd, 'out.json')
    cmd = ['cbmc', cur, '--json-ui', '--trace', '--drop-unused-functions']
    # (--slice-formula is NOT used: it made the z3 run of the generator bootstrap go from 0.6 s to > 5 min)
    if not g.no_standard_checks:
        cmd += CHECK_FLAGS
    if g.unwind is not None:
        cmd += ['--unwind', str(g.unwind)]
    if g.unwindset:
        cmd += ['--unwindset', g.unwindset]
    if (g.unwind is not None or g.unwindset) and not g.partial_unwind:
        cmd += ['--unwinding-assertions']
    if g.object_bits:
        cmd += ['--object-bits', str(g.object_bits)]
    backend = os.environ.get('CV_BACKEND', g.backend)
    if backend == 'z3':
        cmd += ['--z3']
    elif backend == 'cvc5':
        cmd += ['--cvc5']
    elif backend == 'cadical':
        cmd += ['--sat-solver', 'cadical']
    elif backend == 'kissat':
        cmd += ['--external-sat-solver', 'kissat']
    cmd += g.extra_cbmc
    if backend == 'portfolio':
        # MiniSat and CaDiCaL on the same formula, first answer wins (neither dominates: reprioritize is 96 s /
        # 570 s on the unchanged tree, > 1500 s / 218 s on seeded change C02-m2)
        rc, err, dt = _portfolio(cmd, outjson, g.timeout, g.mem_gb, res)
    else:
        res.cmds.append(' '.join(cmd))
        with open(outjson, 'wb') as f:
            rc, err, dt = _run(cmd, g.timeout, mem_gb=g.mem_gb, stdout=f)
    res.solver_seconds = dt
    if rc == 'timeout':
        res.status = 'undecided'; res.reason = 'cbmc timeout after %ds' % g.timeout
        res.seconds = time.time() - t0
        return res
    try:
        data = json.load(open(outjson))
    except Exception as e:
        res.status = 'error'; res.reason = 'cbmc output unparsable (rc=%s): %s %s' % (rc, e, err[-500:])
        res.seconds = time.time() - t0
        return res
    results = None
    msgs = []
    for o in data:
        if 'result' in o:
            results = o['result']
        if 'messageText' in o:
            msgs.append(o['messageText'])
            if o.get('messageType') == 'ERROR':
                res.log += 'ERROR: ' + o['messageText'] + '\n'
    alltext = '\n'.join(msgs)
    if results is None:
        res.status = 'error'
        res.reason = 'cbmc gave no result (rc=%s): %s' % (rc, (alltext[-1500:] or err[-500:]))
        res.seconds = time.time() - t0
        return res
    if 'ignoring forall' in alltext or 'ignoring exists' in alltext:
        res.status = 'error'; res.reason = 'back end ignored a quantifier'
        res.seconds = time.time() - t0
        return res
    for r in results:
        sl = r.get('sourceLocation', {})
        ob = dict(name=r['property'], desc=r['description'], status=r['status'],
                  file=sl.get('file', '').replace(os.path.join(wd, 'annot'), REPO), line=sl.get('line', ''), func=sl.get('function', ''))
        ob['kind'] = classify(ob['desc'], ob['name'], ob['file'])
        res.obligations.append(ob)
        if ob['kind'] == 'canary':
            res.canaries_total += 1
            if ob['status'] == 'FAILURE':
                res.canaries_fired += 1
        elif ob['status'] == 'FAILURE':
            res.failed.append(ob)
            tr = []
            for s in r.get('trace', []):
                if s.get('stepType') == 'assignment' and not s.get('hidden'):
                    v = s.get('value', {})
                    tr.append((s.get('lhs', ''), v.get('data', v.get('name', '?')) if isinstance(v, dict) else str(v),
                               s.get('sourceLocation', {}).get('function', ''),
                               s.get('sourceLocation', {}).get('line', ''), v.get('binary') if isinstance(v, dict) else None))
                elif s.get('stepType') == 'failure':
                    pass
            res.traces[ob['name']] = tr
        elif ob['status'] not in ('SUCCESS',):
            res.status = 'undecided'; res.reason = 'obligation %s has status %s' % (ob['name'], ob['status'])
    # vacuity guards
    nnamed = sum(1 for o in res.obligations if o['kind'] == 'named')
    problems = []
    if res.canaries_total != g.canaries:
        problems.append('expected %d canaries, harness produced %d' % (g.canaries, res.canaries_total))
    if res.canaries_fired != res.canaries_total:
        dead = [o['desc'] for o in res.obligations if o['kind'] == 'canary' and o['status'] != 'FAILURE']
        problems.append('canary did not fire (vacuous assumptions?): ' + '; '.join(dead))
    if g.named is not None and nnamed != g.named:
        problems.append('expected %d named obligations, found %d' % (g.named, nnamed))
    if g.loop_contracts and not any(o['kind'] == 'loop-invariant' for o in res.obligations):
        problems.append('loop contracts requested but no loop-invariant obligations were generated')
    if (g.unwind is not None or g.unwindset) and any(o['kind'] == 'unwinding' and o['status'] == 'FAILURE' for o in res.obligations):
        # an unwinding assertion failing is a bound problem, not a property violation
        res.failed = [o for o in res.failed if o['kind'] != 'unwinding']
        problems.append('unwinding assertion failed: bound too small for this tree')
    if len([o for o in res.obligations if o['kind'] != 'canary']) == 0:
        problems.append('no obligations generated')
    res.seconds = time.time() - t0
    if problems and not res.failed:
        res.status = 'error'; res.reason = '; '.join(problems)
    elif res.failed:
        res.status = 'failed'
        res.reason = '; '.join(problems)
    elif res.status != 'undecided':
        res.status = 'ok'
    if not keep:
        for f in [x for x in os.listdir(wd) if x.endswith('.gb')]:
            try:
                os.unlink(os.path.join(wd, f))
            except OSError:
                pass
    return res


def run_group(g, keep=False):
    try:
        if g.runner:
            return g.runner(g)
        return run_cbmc_group(g, keep)
    except Exception as e:  # tooling problem, never a violation
        import traceback
        r = Result(g)
        r.status = 'error'; r.reason = 'exception: %s\n%s' % (e, traceback.format_exc()[-1500:])
        return r


# ------------------------------------------------------------------------------------------
# native library for replays

_native = {}


def native_lib(flags=('-O1', '-g'), tag='dbg'):
    """Build the real library from the working tree (gcc + nasm), once per run."""
    with _nlock:
        return _native_lib_locked(flags, tag)


_nlock = threading.Lock()


def _native_lib_locked(flags, tag):
    if tag in _native:
        return _native[tag]
    d = os.path.join(scratch(), 'native-' + tag)
    os.makedirs(d, exist_ok=True)
    cg = codegen_dir()
    srcs = [os.path.join(REPO, 'src', f) for f in sorted(os.listdir(os.path.join(REPO, 'src'))) if f.endswith('.c')]
    port = os.path.join(REPO, 'src', 'port', 'x86-64', 'linux')
    srcs += [os.path.join(port, f) for f in sorted(os.listdir(port)) if f.endswith('.c')]
    objs = []
    jobs = []
    for s in srcs:
        o = os.path.join(d, os.path.basename(s)[:-2] + '.o')
        objs.append(o)
        jobs.append(['gcc', '-std=c17', '-D_POSIX_C_SOURCE=200809L', '-c'] + list(flags) +
                    ['-I' + os.path.join(REPO, 'include'), '-I' + os.path.join(REPO, 'src'), '-I' + cg, s, '-o', o])
    for a in sorted(os.listdir(port)):
        if a.endswith('.asm'):
            o = os.path.join(d, a[:-4] + '_asm.o')
            objs.append(o)
            jobs.append(['nasm', '-f', 'elf64', os.path.join(port, a), '-o', o])
    with ThreadPoolExecutor(NCPU) as ex:
        rs = list(ex.map(lambda c: subprocess.run(c, capture_output=True), jobs))
    for c, r in zip(jobs, rs):
        if r.returncode != 0:
            raise RuntimeError('native build failed: %s\n%s' % (' '.join(c), r.stderr.decode()[:800]))
    lib = os.path.join(d, 'libcimba_replay.a')
    subprocess.run(['ar', 'rcs', lib] + objs, check=True)
    _native[tag] = (lib, d)
    return _native[tag]


def native_run(src, args=(), defines=(), flags=('-O1', '-g'), tag='dbg', timeout=120, valgrind=False, extra_src=()):
    """Compile a replay driver against the real library and run it. Returns (rc, output)."""
    lib, d = native_lib(flags, tag)
    exe = os.path.join(d, 'replay_' + hashlib.md5((src + repr(defines)).encode()).hexdigest()[:10])
    cmd = ['gcc', '-std=gnu17', '-D_POSIX_C_SOURCE=200809L'] + list(flags) + ['-D' + x for x in defines] + \
          ['-I' + REPO, '-I' + os.path.join(REPO, 'include'), '-I' + os.path.join(REPO, 'src'), '-I' + codegen_dir(),
           '-I' + os.path.join(VERIF, 'replay'), src] + list(extra_src) + [lib, '-lm', '-lpthread', '-o', exe]
    r = subprocess.run(cmd, capture_output=True)
    if r.returncode != 0:
        return 'build-failed', r.stderr.decode()[-2000:]
    run = ([exe] if not valgrind else ['valgrind', '-q', '--error-exitcode=97', exe]) + [str(a) for a in args]
    try:
        p = subprocess.run(run, capture_output=True, timeout=timeout)
        return p.returncode, (p.stdout.decode('utf-8', 'replace') + p.stderr.decode('utf-8', 'replace'))[-4000:]
    except subprocess.TimeoutExpired:
        return 'timeout', ''


# ------------------------------------------------------------------------------------------
# known findings

def load_known():
    known, fixed = [], []
    p = os.path.join(VERIF, 'known_findings.txt')
    if os.path.exists(p):
        for l in open(p):
            l = l.strip()
            if l.startswith('known:'):
                m = re.match(r'known:\s+property=(\S+)\s+group=(\S+)\s+obligation=/(.*?)/\s+(.*)', l)
                if m:
                    known.append(dict(prop=m.group(1), group=m.group(2), rx=m.group(3), text=m.group(4)))
            elif l.startswith('fixed:'):
                fixed.append(l)
    return known, fixed


def match_known(known, prop, gid, ob):
    key = '%s @%s:%s' % (ob['desc'], os.path.basename(ob['file']), ob['func'])
    for k in known:
        if k['prop'] == prop and (k['group'] == gid or re.fullmatch(k['group'], gid)) and re.search(k['rx'], key):
            return k
    return None


def trace_values(tr):
    """last assigned value per lhs"""
    d = {}
    for lhs, val, fn, line, binv in tr:
        d[lhs] = (val, binv)
    return d
