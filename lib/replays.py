"""Native replay drivers shared by several groups."""
import os, re
import cvlib
from cvlib import VERIF


def _int(v):
    v = str(v)
    m = re.match(r'-?\d+', v)
    return int(m.group(0)) if m else 0


def order_replay(define):
    def f(g, ob, vals, res):
        args = []
        for t in 'abc':
            key = _int(vals.get(t + '.key', ('0', None))[0])
            db = vals.get(t + '.dsortkey', ('0', None))[1] or '0'
            dbits = int(db, 2) if re.fullmatch(r'[01]{64}', db) else 0
            ik = _int(vals.get(t + '.isortkey', ('0', None))[0])
            args += [key, dbits, ik]
        src = os.path.join(VERIF, 'replay', 'orders_replay.c')
        rc, out = cvlib.native_run(src, args, defines=[define])
        return dict(reproduced=(rc == 1), output=out,
                    cmd='replay/orders_replay.c -D%s args=%s (real static function, #included .c)' % (define, ' '.join(map(str, args))))
    return f
