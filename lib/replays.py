"""Native replay drivers shared by several groups."""
import os, re
import cvlib
from cvlib import VERIF


def _int(v):
    v = str(v)
    m = re.match(r'-?\d+', v)
    return int(m.group(0)) if m else 0


def order_replay(define):
    def f(g, ob, vals, res):
        args = []
        for t in 'abc':
            key = _int(vals.get(t + '.key', ('0', None))[0])
            db = vals.get(t + '.dsortkey', ('0', None))[1] or '0'
            dbits = int(db, 2) if re.fullmatch(r'[01]{64}', db) else 0
            ik = _int(vals.get(t + '.isortkey', ('0', None))[0])
            args += [key, dbits, ik]
        src = os.path.join(VERIF, 'replay', 'orders_replay.c')
        rc, out = cvlib.native_run(src, args, defines=[define])
        return dict(reproduced=(rc == 1), output=out,
                    cmd='replay/orders_replay.c -D%s args=%s (real static function, #included .c)' % (define, ' '.join(map(str, args))))
    return f


def _find(vals, suffix, default=0):
    for k, (v, b) in vals.items():
        if k.endswith(suffix):
            return _int(v)
    return default


def scenario_sweep(src, candidates, budget_s=60, defines=(), stop=True):
    """Run candidate argument lists against a native scenario driver until one reproduces."""
    import time
    t0 = time.time()
    tried = 0
    last = ''
    for args in candidates:
        if time.time() - t0 > budget_s:
            break
        rc, out = cvlib.native_run(src, args, defines=list(defines), timeout=20)
        tried += 1
        last = out
        if rc == 'build-failed':
            return dict(reproduced=False, output='replay build failed:\n' + out, cmd=src)
        if rc not in (0, 'timeout'):
            return dict(reproduced=True, output=out, cmd='%s %s  (exit %s; scenario %d of the sweep)' % (
                os.path.relpath(src, VERIF), ' '.join(map(str, args)), rc, tried))
    return dict(reproduced=False, output='%d scenarios run against the real library, none violated the oracle\n%s' % (tried, last[-600:]),
                cmd=os.path.relpath(src, VERIF))


def buffer_replay(isput):
    def f(g, ob, vals, res):
        src = os.path.join(VERIF, 'replay', 'buffer_scn.c')
        cap = _find(vals, '.capacity', 10) or 10
        init = _int(vals.get('cmv_init', ('5', None))[0])
        big = 2 ** 64 - 1
        cands = []
        # first: the verifier's own numbers
        lvl = _find(vals, '.level', 0)
        cands.append([cap, isput, init, min(lvl, cap), 2, 1, 2, 1])
        caps = [cap, 10, 1, big]
        inits = [init, 10, 5, 1, 0, big - 2, big]
        for c in caps:
            for i in inits:
                if isput and i == 0:
                    continue
                for l0 in (0, 5 if c >= 5 else 1, c if c < 100 else 7):
                    for ds in ([3, 2], [1], [0], [c if c < 100 else 4, 1], [2, 2, 2]):
                        for intr in (1, 0):
                            cands.append([c, isput, i, min(l0, c), len(ds)] + ds + [intr])
        return scenario_sweep(src, cands)
    return f


def resource_replay(g, ob, vals, res):
    src = os.path.join(VERIF, 'replay', 'resource_scn.c')
    return scenario_sweep(src, [[k] for k in (1, 2, 3, 4, 5)])


def random_replay(g, ob, vals, res):
    src = os.path.join(VERIF, 'replay', 'random_replay.c')
    seed = _int(vals.get('seed', ('42', None))[0])
    cands = [[seed, 3, 5], [seed, 0, 0], [seed, 7, 64], [1, 3, 5], [0, 1, 1], [2 ** 64 - 1, 2, 63]]
    return scenario_sweep(src, cands)


def hashheap_replay(g, ob, vals, res):
    src = os.path.join(VERIF, 'replay', 'hashheap_replay.c')
    return scenario_sweep(src, [[seed, 3000] for seed in range(1, 41)], budget_s=90)


def demo_replay(*names):
    """Native replay by self-checking scenario programs (exit 0 = property held)."""
    def f(g, ob, vals, res):
        outs = []
        for n in names:
            src = os.path.join(VERIF, 'replay', n)
            rc, out = cvlib.native_run(src, [], timeout=120)
            outs.append('%s -> exit %s\n%s' % (n, rc, out[-600:]))
            if rc not in (0, 'timeout', 'build-failed'):
                return dict(reproduced=True, output='\n'.join(outs), cmd='replay/%s (exit %s)' % (n, rc))
        return dict(reproduced=False, output='\n'.join(outs), cmd=' '.join(names))
    return f


def mempool_replay(g, ob, vals, res):
    src = os.path.join(VERIF, 'replay', 'mempool_replay.c')
    outs = []
    for args in ([4096, 1, 200], [64, 3, 500], [8, 5, 1000], [24, 3, 400]):
        rc, out = cvlib.native_run(src, args, timeout=120, valgrind=True)
        outs.append('%s -> %s %s' % (args, rc, out[-300:]))
        if rc not in (0, 'timeout', 'build-failed'):
            return dict(reproduced=True, output='\n'.join(outs), cmd='valgrind replay/mempool_replay.c %s (exit %s; 97 = valgrind error, other non-zero = oracle/abort)' % (args, rc))
    return dict(reproduced=False, output='\n'.join(outs), cmd='replay/mempool_replay.c under valgrind')


def codegen_asan_replay(which):
    """Native replay for the table generators: build codegen/calc_<which>.c with ASan + UBSan and run it."""
    def f(g, ob, vals, res):
        import subprocess
        d = os.path.join(cvlib.scratch(), 'codegen-asan')
        os.makedirs(d, exist_ok=True)
        exe = os.path.join(d, 'calc_' + which)
        cg = os.path.join(cvlib.REPO, 'codegen')
        cmd = ['gcc', '-O0', '-g', '-fsanitize=address,undefined', '-fno-sanitize-recover=all', '-I' + cg,
               os.path.join(cg, 'calc_%s.c' % which), os.path.join(cg, 'calc_utils.c'), '-lm', '-o', exe]
        b = subprocess.run(cmd, capture_output=True, text=True)
        if b.returncode != 0:
            return dict(reproduced=False, output='build failed: ' + b.stderr[-800:], cmd=' '.join(cmd))
        try:
            p = subprocess.run([exe], capture_output=True, text=True, timeout=300)
        except subprocess.TimeoutExpired:
            return dict(reproduced=False, output='timeout', cmd=exe)
        return dict(reproduced=(p.returncode != 0), output='exit %s\n%s' % (p.returncode, p.stderr[-1500:]),
                    cmd=' '.join(cmd) + ' && ' + exe + '  (non-zero exit = sanitizer report)')
    return f
