"""
statics - supporting static facts read off the goto symbol table of a harness TU:
every object with static storage duration defined in a given repository file must be
  (a) thread-local (or const, or never assigned), and
  (b) on the discharge list of the property (so that a newly introduced static - a new cache,
      a new counter - is reported until somebody says how re-seeding / trial isolation deals
      with it).
Each symbol yields obligations; nothing here explores interleavings.
"""
import json, os, re, subprocess, time
import cvlib
from cvlib import Result, REPO, VERIF


def symbols(gb):
    r = subprocess.run(['goto-instrument', '--show-symbol-table', '--json-ui', gb], capture_output=True, text=True, timeout=300)
    for o in json.loads(r.stdout):
        if 'symbolTable' in o:
            return o['symbolTable']
    raise RuntimeError('no symbol table')


def writers(gb, names):
    """names of the symbols among `names` that are the target of an ASSIGN in any function"""
    r = subprocess.run(['goto-instrument', '--show-goto-functions', gb], capture_output=True, text=True, timeout=300)
    found = set()
    for line in r.stdout.splitlines():
        m = re.match(r'\s*(?:// .*)?\s*ASSIGN\s+([A-Za-z_][\w:$]*)', line)
        if m and m.group(1) in names:
            found.add(m.group(1))
        m = re.match(r'\s*ASSIGN\s+([A-Za-z_][\w:$]*)\s*[\.\[]', line)
        if m and m.group(1) in names:
            found.add(m.group(1))
    return found


def make_runner(srcfile, discharge, tag, tu_text, shared=None):
    """srcfile: repo-relative file whose statics are enumerated; discharge: {symbol-regex: how}"""
    def run(g):
        res = Result(g)
        t0 = time.time()
        wd = os.path.join(cvlib.scratch(), re.sub(r'[^A-Za-z0-9_.-]', '_', g.id))
        os.makedirs(wd, exist_ok=True)
        tu = os.path.join(wd, 'tu.c')
        open(tu, 'w').write(tu_text)
        gb = os.path.join(wd, 'tu.gb')
        cmd = ['goto-cc', '-I' + os.path.join(VERIF, 'harness'), '-I' + REPO, '-I' + os.path.join(REPO, 'include'),
               '-I' + os.path.join(REPO, 'src'), '-I' + cvlib.codegen_dir(), '-D_POSIX_C_SOURCE=200809L', '-DCIMBA_VERIF',
               '-c', tu, '-o', gb]
        res.cmds.append(' '.join(cmd))
        p = subprocess.run(cmd, capture_output=True, text=True)
        if p.returncode != 0:
            res.status = 'error'; res.reason = 'goto-cc failed (extraction break): ' + p.stderr[-800:]
            return res
        st = symbols(gb)
        cands = {}
        for name, s in st.items():
            if not s.get('isStaticLifetime') or s.get('isType'):
                continue
            if s.get('type', {}).get('id') == 'code':
                continue
            loc = json.dumps(s.get('location', {}))
            if os.path.basename(srcfile) not in loc:
                continue
            if s.get('isExtern') and s.get('value', {}).get('id') in (None, 'nil'):
                pass
            cands[name] = s
        wr = writers(gb, set(cands))
        for name in sorted(cands):
            s = cands[name]
            is_const = 'constant' in json.dumps(s.get('type', {}).get('namedSub', {}).get('#constant', {})) or \
                       s.get('type', {}).get('namedSub', {}).get('#constant', {}).get('id') == '1'
            tl = bool(s.get('isThreadLocal'))
            written = name in wr
            how = None
            for rx, h in discharge.items():
                if re.fullmatch(rx, name):
                    how = h
            ok_tl = tl or is_const or not written or (shared is not None and re.fullmatch(shared, name) is not None)
            res.obligations.append(dict(name='%s.threadlocal' % name, kind='named', file=os.path.join(REPO, srcfile), line='', func='',
                                        desc='%s: static object %s is thread-local, or const, or has no writer, or is one of the deliberately shared experiment globals (thread-local=%s const=%s written=%s)' % (tag, name, tl, is_const, written),
                                        status='SUCCESS' if ok_tl else 'FAILURE'))
            if is_const:
                continue
            res.obligations.append(dict(name='%s.discharged' % name, kind='named', file=os.path.join(REPO, srcfile), line='', func='',
                                        desc='%s: mutable static object %s is accounted for (%s)' % (tag, name, how or 'NOT on the discharge list: say how seeding / trial isolation resets it or why it is a transparent cache'),
                                        status='SUCCESS' if how else 'FAILURE'))
        # canary: the enumeration found the objects we know must be there
        res.canaries_total = 1
        res.canaries_fired = 1 if len(cands) >= 1 else 0
        res.failed = [o for o in res.obligations if o['status'] == 'FAILURE']
        for o in res.failed:
            res.traces[o['name']] = [('symbol', o['name'], '', '', None)]
        res.seconds = time.time() - t0
        if not cands:
            res.status = 'error'; res.reason = 'no static objects found in %s (enumeration broken?)' % srcfile
        else:
            res.status = 'failed' if res.failed else 'ok'
        return res
    return run
