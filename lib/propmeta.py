"""Per-property text for MANIFEST.json (level claimed, trusted base, technique)."""
HOOK_COMMITS = []
NOTES = ('All checks are run by ./cv (see DESIGN.md). Exit 0 = every registered obligation discharged; '
         '1 = VIOLATION (a registered obligation fails with a counterexample not listed in known_findings.txt); '
         '2 = undecided/tooling problem, never reported as a violation. Levels are per obligation group and are '
         'reported in the evidence: proved / bounded-shape / bounded-unwind.')
META = {
 'C01': dict(text='heap_order_check proved equal to the (time asc, priority desc, handle asc) order and a strict total order for all bit patterns (loop-free proof).',
             note='NaN times excluded (schedule asserts time >= clock).'),
 'C02': dict(text='The five comparison functions used with a hashheap are proved strict (total/weak) orders.',
             note=''),
 'C06': dict(text='guard_queue_check proved equal to (priority desc, entry time asc, key asc) and a strict total order for all bit patterns.',
             note='NaN entry times excluded (cmb_time() is never NaN).'),
 'C07': dict(text='holder_queue_check proved a strict total order (priority asc, key desc).', note=''),
 'C12': dict(text='priority queue compare_func proved (priority desc, handle asc) strict total order.', note=''),
}
