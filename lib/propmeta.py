"""Per-property text for MANIFEST.json (level claimed, trusted base, technique)."""
HOOK_COMMITS = []
NOTES = ('All checks are run by ./cv (see DESIGN.md). Exit 0 = every registered obligation discharged; '
         '1 = VIOLATION (a registered obligation fails with a counterexample not listed in known_findings.txt); '
         '2 = undecided/tooling problem, never reported as a violation. Levels are per obligation group and are '
         'reported in the evidence: proved / bounded-shape / bounded-unwind.')
META = {
 'C01': dict(text='heap_order_check proved equal to the (time asc, priority desc, handle asc) order and a strict total order for all bit patterns (loop-free proof).',
             note='NaN times excluded (schedule asserts time >= clock).'),
 'C02': dict(text='Every public operation of src/cmi_hashheap.c is checked from an ARBITRARY well-formed pre-state (representation invariant incl. the probe-chain condition; abstract view by ghost key) for capacity 2 / map 4 incl. one doubling: invariant preserved and the view changes exactly as specified; hash range proved for the real hash function (z3); the five comparison functions proved strict orders. Bounded in capacity, inductive in the history.',
             note='hash_key abstracted to an uninterpreted function of (key, exponent); memset/memcpy given word-wise definitions; capacities above 2->4 not covered in the quick tier; caller-supplied keys unique; termination of hash_find_slot not proved.'),
 'C05': dict(text='resource_grab contract (requires holder == NULL) enforced on its body and asserted at every call site; acquire proved with a loop contract for any number of waits against contract stubs of the guard; release/preempt/drop preserve I-RES for record lists <= 2 (bounded-shape); queries loop-free.',
             note='guard/timeseries/event layers replaced by contract stubs; other processes act only through the API; list caps for bounded-shape groups.'),
 'C11': dict(text='cmb_buffer_get/put proved with loop contracts on the real while(true) loops (any number of partial transfers and waits, all 64-bit amounts): per-segment conservation, exact reporting, 0<=level<=capacity; I-SIG and I-REC at every suspension point.',
             note='guard wait/signal, timeseries and clock are contract stubs (harness/cmv_guardstub.h); caller amount variable not aliased.'),
 'C15': dict(text='initialize(seed) proved equal to the documented splitmix64 bootstrap + 20 discards from an arbitrary prior state (z3); one sfc64 step equals the spec; flip cache emptied by seeding and flip step contract; gamma/geometric caches proved transparent; all static objects thread-local and accounted for (symbol table).',
             note='oracle = transcription of the published algorithms; libm uninterpreted in the cache groups; no thread interleaving is explored (sequential contracts + no shared mutable state).'),
 'C17': dict(text='Moment update/merge formulas of the real code (GIMPLE of the working tree, symbolically executed into sympy) proved equal to the definitions of the sample moments over the reals for all symbolic inputs and every path; accessors equal the documented estimators; weighted variants; IEEE-level facts (count, min/max, aliasing, empty operands, no NaN) by loop-free CBMC harnesses. Two known findings (weight scaling, constant data) are listed, hence category other.',
             note='double treated as real for the algebraic obligations (the statement says up to rounding; rounding bounds are not derived); gcc GIMPLE dump and sympy trusted.',
             technique='contract-based deductive verification: postconditions over the reals discharged by symbolic execution of the GIMPLE of the real functions (sympy) + CBMC loop-free harnesses'),
 'C06': dict(text='guard_queue_check proved equal to (priority desc, entry time asc, key asc) and a strict total order for all bit patterns.',
             note='NaN entry times excluded (cmb_time() is never NaN).'),
 'C07': dict(text='holder_queue_check proved a strict total order (priority asc, key desc).', note=''),
 'C12': dict(text='priority queue compare_func proved (priority desc, handle asc) strict total order.', note=''),
}
