"""
external - adapter for self-contained components (/verif/realarith, /verif/x86) that produce their
own obligation groups as one JSON document:  run.py <repo> <outdir>  ->  {"groups":[...]}.
The component is executed once per cv invocation (cached); each of its groups is registered as a
cv Group whose runner picks its part of the result.
"""
import hashlib, json, os, subprocess, threading, time
import cvlib
from cvlib import Result, REPO, VERIF

_cache = {}
_lock = threading.Lock()
_locks = {}
_locks_guard = threading.Lock()


def _run_component(comp, interp, timeout, extra=()):
    key = (comp,) + tuple(extra)
    with _locks_guard:
        lk = _locks.setdefault(key, threading.Lock())
    with lk:
        if key in _cache:
            return _cache[key]
        out = os.path.join(cvlib.scratch(), 'ext-' + comp + ('-' + hashlib.md5(repr(extra).encode()).hexdigest()[:8] if extra else ''))
        os.makedirs(out, exist_ok=True)
        cmd = [interp, os.path.join(VERIF, comp, 'run.py'), REPO, out] + list(extra)
        t0 = time.time()
        try:
            p = subprocess.run(cmd, capture_output=True, text=True, timeout=timeout)
            doc = json.loads(p.stdout)
            doc['_cmd'] = ' '.join(cmd); doc['_seconds'] = time.time() - t0
        except subprocess.TimeoutExpired:
            doc = dict(_error='component %s timed out after %ds' % (comp, timeout), _cmd=' '.join(cmd))
        except Exception as e:
            doc = dict(_error='component %s failed: %s; stderr: %s' % (comp, e, (p.stderr[-800:] if 'p' in dir() else '')), _cmd=' '.join(cmd))
        _cache[key] = doc
        return doc


def make_runner(comp, gid, interp='python3', timeout=1500, replay_key='native', extra=()):
    def run(g):
        res = Result(g)
        doc = _run_component(comp, interp, timeout, extra)
        res.cmds.append(doc.get('_cmd', ''))
        if '_error' in doc:
            res.status = 'error'; res.reason = doc['_error']
            return res
        gg = [x for x in doc.get('groups', []) if x.get('id') == gid]
        if not gg:
            res.status = 'error'; res.reason = 'component %s did not report group %s (extraction break?)' % (comp, gid)
            return res
        gg = gg[0]
        res.cmds += gg.get('cmds', [])
        res.seconds = res.solver_seconds = float(gg.get('seconds', 0) or 0)
        for o in gg.get('obligations', []):
            ob = dict(name=o['name'], desc=o.get('desc', ''), status=o.get('status', ''), file=o.get('file', '') or '',
                      line=o.get('line', '') or '', func=o.get('func', '') or '')
            ob['kind'] = cvlib.classify(ob['desc'], ob['name'], ob['file'])
            res.obligations.append(ob)
            if ob['kind'] == 'canary':
                res.canaries_total += 1
                if ob['status'] == 'FAILURE':
                    res.canaries_fired += 1
            elif ob['status'] == 'FAILURE':
                res.failed.append(ob)
                res.traces[ob['name']] = [tuple(list(t) + [None] * (5 - len(t)))[:5] for t in gg.get('traces', {}).get(ob['name'], [])]
            elif ob['status'] != 'SUCCESS':
                res.status = 'undecided'; res.reason = 'obligation %s: %s' % (ob['name'], ob['status'])
        res.native = gg.get(replay_key, {})
        st = gg.get('status')
        if st in ('error', 'undecided'):
            res.status = st; res.reason = gg.get('reason', '')
        elif res.canaries_fired != res.canaries_total:
            res.status = 'error'; res.reason = 'a reachability canary did not fire'
        elif res.failed:
            res.status = 'failed'
        elif res.status != 'undecided':
            res.status = 'ok'
        if not [o for o in res.obligations if o['kind'] != 'canary'] and res.status == 'ok':
            res.status = 'error'; res.reason = 'no obligations reported'
        return res
    return run


def native_replay(g, ob, vals, res):
    """replay evidence produced by the component itself (it links the real .c files natively)"""
    n = getattr(res, 'native', {}) or {}
    hit = n.get(ob['name'])
    if hit is None:
        # any witness of the same group
        for k, v in n.items():
            if v.get('reproduced'):
                hit = v
                break
    if hit is None:
        return None
    return dict(reproduced=bool(hit.get('reproduced')), output=hit.get('output', ''), cmd='native driver of the component (real .c files linked)')
